"""C07 - healthy keys are never accused: the false-positive-controlling defaults are at least as strict as their design values
(the statistical statement itself is not decidable statically)."""
from __future__ import annotations
import ast
from pcstatic import sym, fold
from pcstatic.core import Incomplete
from pcstatic.loader import norm
from pcstatic.poly import Poly, Atom, P
from pcstatic.sym import Const, Seq, as_poly
from . import template as T

META = {
    "level": "other",
    "trusted_base": ["Python ast parser", "pcstatic constant folder and walker", "the design values quoted in the source docstrings (2^48, 2^128, 2^60, bitlen-12, 48 primes)"],
    "assumptions": ["a false-positive *rate* is a property of a distribution; only the constants it rests on are decided"],
    "explanation": ("One-sided threshold rule: every default that bounds the false-positive probability is at least as strict as its documented design value and compared "
                    "in the strict direction; every positive verdict is classified certificate-backed (cannot accuse without a true factor / key: C01, C02) or "
                    "threshold-backed, and the classification of the 29 registered checks is frozen."),
}
SELF = P("param", "self")

# how each registered check can reach a positive verdict: "cert" = only with a verified factor / key / relation attached,
# "threshold" = by a predicate on the artifact alone.  One line of reason per threshold entry.
THRESHOLD_BACKED = {
    "CheckSizes": "size predicate (cannot fire for >= 2048-bit keys)",
    "CheckExponents": "exponent predicate (cannot fire for e = 65537)",
    "CheckROCA": "39-prime fingerprint (false-positive probability ~2^-154 by design)",
    "CheckROCAVariant": "48-prime quadratic-residue fingerprint (2^-48)",
    "CheckOpensslDenylist": "80-bit fingerprint membership",
    "CheckGCDN1": "gcd(n-1, others) >= 2^128 threshold (records the gcd but it is not a factor of n)",
    "CheckContinuedFractions": "large partial quotient >= 2^48 without a factorisation",
    "CheckPollardpm1": "both p-1, q-1 smooth behind the 2^60 gate",
    "CheckLowHammingWeight": "heuristic minimum <= bitlen - 12 without a factorisation",
    "CheckValidECKey": "point validity predicate",
    "CheckWeakCurve": "curve size predicate",
    "CheckIssuerKey": "copies the verdict of the EC key checks",
}


def run(ctx):
  rule_bounds(ctx)
  rule_exact(ctx)
  # "mixing them into a batch with weak artifacts does not change their verdict": results are mapped back to the artifact
  # they were computed for (shared with C17)
  from . import c17
  ctx.borrow(c17.rule_byvalue, "R-C07-NEIGHBOUR")
  from . import c16
  c16.rule_isolated(ctx, T.bodies(ctx.repo), "R-C07-NEIGHBOUR")
  # closed-form EC criteria: a healthy key on a supported >= 224-bit curve meets none of them only if the predicates are exactly the documented ones
  from . import c06
  from pcstatic import regions
  regions.ONE_SIDED = True          # only over-flagging accuses a healthy artifact; a criterion that flags too little is C06's business
  try:
    ctx.borrow(c06.rule_pred, "R-C07-EXACT", lambda r: r.construct.startswith("flag <=>"))
  finally:
    regions.ONE_SIDED = False
  from . import c02
  ctx.borrow(c02.rule_codec, "R-C07-NEIGHBOUR")      # ExtendedBatchDL: a log found for point i is reported for point i
  # the difference search names its second key by position in a list that must stay parallel to the batch (shared with C02 / C10), and CheckGCD pairs
  # gcds[i] with artifacts[i], so the values searched must be the moduli of the whole batch in batch order (shared with C03)
  ctx.borrow(c02.rule_release, "R-C07-NEIGHBOUR", lambda r: r.where.endswith("BatchDLOfDifferences"))
  from . import c03 as _c03
  ctx.borrow(_c03.rule_verdict, "R-C07-NEIGHBOUR")
  # CheckIssuerKey copies one key's verdict to every signature grouped with it: the grouping key must identify the key (curve type and point) - shared with C16
  from . import c16 as _c16
  ctx.borrow(_c16.rule_issuer, "R-C07-NEIGHBOUR", None, T.bodies(ctx.repo))
  # a healthy key checked alone (or with copies of itself) is judged through the product tree of a single value: T must be the sum of cofactors (shared with C03)
  from . import c03
  ctx.borrow(c03.rule_tree, "R-C07-TREE")
  ctx.borrow(c03.rule_remainder, "R-C07-TREE")
  ctx.expect("R-C07-TREE", 15, "product and remainder tree obligations")
  # identical EC keys do not accuse each other (shared with C10), and nothing a check leaves on its cached instance or on a curve can accuse a healthy
  # artifact in a later call (shared with C17)
  from . import c10
  ctx.borrow(c10.rule_dup, "R-C07-REPEAT")
  ctx.borrow(c17.rule_stateless, "R-C07-REPEAT")
  ctx.expect("R-C07-REPEAT", 11, "duplicate-key rows of the difference search + state scan")
  ctx.expect("R-C07-NEIGHBOUR", 2 + 24 + 2 + 11 + 1, "BatchGCD element-wise + per-curve partitions + one fresh entry per artifact in 24 Check bodies")
  ctx.expect("R-C07-BOUNDS", 7, "seven thresholds")
  ctx.expect("R-C07-EXACT", 29, "29 registered checks")


def rule_bounds(ctx):
  R = "R-C07-BOUNDS"
  repo = ctx.repo
  def default(mod, cls, param):
    c = repo.cls(mod, cls)
    i = c.methods.get("__init__")
    if i is None:
      raise Incomplete("%s.__init__ vanished" % cls, mod)
    d = i.default_of(param)
    return fold.try_fold(d) if d is not None else None
  v = default("rsa_single_checks", "CheckContinuedFractions", "bound")
  ctx.record(R, "rsa_single_checks:CheckContinuedFractions.__init__", "bound >= 2^48", v is not None and v >= 2 ** 48, "default %r" % v)
  f = repo.func("rsa_util", "CheckContinuedFraction")
  w = sym.Walker(repo, f)
  w.run()
  flagged = [e for e in w.events if e.kind == "return" and isinstance(e.data["value"], Seq) and isinstance(e.data["value"].items[0], Const) and e.data["value"].items[0].v is False
             and isinstance(e.data["value"].items[1], Seq) and not e.data["value"].items[1].items]
  bound = P("param", "bound")
  ok = bool(flagged) and all(any(f_[0] == "cmp" and ((f_[1] == "GtE" and as_poly(f_[3]) == bound) or (f_[1] == "LtE" and as_poly(f_[2]) == bound) or (f_[1] == "Gt" and as_poly(f_[3]) == bound)) for f_ in e.facts) for e in flagged)
  ctx.record(R, f.where, "flag without factors only for a quotient >= bound", ok, "threshold-backed verdict guarded by quot >= bound" if ok else "a verdict without factors is not guarded by the coefficient bound")
  chk = [b for b in T.bodies(repo) if b.cls.name == "CheckContinuedFractions"]
  okp = bool(chk) and all(len(e.data["args"]) == 2 and as_poly(e.data["args"][1]) == sym.mk("attr", SELF, "_bound") for e in chk[0].calls("repo:rsa_util:CheckContinuedFraction"))
  ctx.record(R, "rsa_single_checks:CheckContinuedFractions.Check", "configured bound is the one used", okp, "self._bound passed through" if okp else "another bound is passed")
  v = default("rsa_aggregate_checks", "CheckGCDN1", "gcd_bound")
  ctx.record(R, "rsa_aggregate_checks:CheckGCDN1.__init__", "gcd_bound >= 2^128", v is not None and v >= 2 ** 128, "default %r" % v)
  f = repo.func("rsa_util", "Pollardpm1")
  dv = fold.try_fold(f.default_of("gcd_bound")) if f.default_of("gcd_bound") is not None else None
  w = sym.Walker(repo, f)
  w.run()
  n, m, gb = P("param", "n"), P("param", "m"), P("param", "gcd_bound")
  gate = sym.mk("gcd", n - 1, m)
  pos = [e for e in w.events if e.kind == "return" and isinstance(e.data["value"], Seq) and isinstance(e.data["value"].items[0], Const) and e.data["value"].items[0].v is True]
  okg = bool(pos) and all(any(f_[0] == "cmp" and ((f_[1] in ("GtE", "Gt") and as_poly(f_[2]) == gate and as_poly(f_[3]) == gb)) for f_ in e.facts) for e in pos)
  ctx.record(R, f.where, "Pollard gate >= 2^60, positive only behind the gate", dv is not None and dv >= 2 ** 60 and okg, "default %r, every positive return dominated by gcd(n-1, m) >= gcd_bound" % dv)
  f = repo.func("rsa_util", "CheckLowHammingWeight")
  w = sym.Walker(repo, f)
  w.run()
  bl = sym.mk("bitlen", P("param", "n"))
  rets = [e for e in w.events if e.kind == "return" and e.node is not None and isinstance(e.data["value"], Seq) and isinstance(e.data["value"].items[0], tuple)]
  ok = bool(rets)
  for e in rets:
    c = e.data["value"].items[0]
    if not (c[0] == "cmp" and c[1] in ("LtE", "Lt")):
      ok = False
      continue
    thr = as_poly(c[3]) - bl
    ti = thr.as_int()
    if ti is None or ti > -12:
      ok = False
  ctx.record(R, f.where, "threshold_weak <= bitlen - 12, compared with <=", ok, "weak-without-factors verdict needs a heuristic value at least 12 below the bit length" if ok else "threshold loosened")
  c = repo.cls("roca", "ROCAKeyVariantDetector")
  pr = fold.try_fold(c.consts.get("PRIMES")) if "PRIMES" in c.consts else None
  ok = pr is not None and len(set(pr)) >= 48
  src = ast.unparse(c.methods["IsWeak"].node) if "IsWeak" in c.methods else ""
  ok = ok and "if self.roca_key_detector.IsWeak(modulus):\n        return False" in src.replace("    ", "  ").replace("  ", " ").replace("\n  ", "\n") or (ok and "self.roca_key_detector.IsWeak(modulus)" in src)
  ctx.record(R, "roca:ROCAKeyVariantDetector", ">= 48 primes, ROCA hits excluded", ok, "%d primes" % (len(set(pr)) if pr else 0))
  c = repo.cls("roca", "ROCAKeyDetector")
  pr = fold.try_fold(c.consts.get("PRIMES")) if "PRIMES" in c.consts else None
  ctx.record(R, "roca:ROCAKeyDetector", ">= 39 primes", pr is not None and len(set(pr)) >= 39, "%d primes" % (len(set(pr)) if pr else 0))


def rule_exact(ctx):
  R = "R-C07-EXACT"
  repo = ctx.repo
  reg = T.registry(repo)
  bodies = {b.cls.name: b for b in T.bodies(repo)}
  for tup, classes in sorted(reg.items()):
    for c in classes:
      # the Check body that implements this class
      chk = repo.find_method(c, "Check")
      b = bodies.get(chk.cls.name) if chk is not None else None
      where = "%s:%s" % (c.module.short, c.name)
      if b is None:
        ctx.incomplete(R, where, "classification", "Check body not found")
        continue
      n_pos = n_cert = 0
      for info in b.result_loops():
        for kind, val, s, since, vis in info["body_paths"]:
          evs = b.path_events(s, since)
          if not any(e.kind == "setattr" and e.data["attr"] == "result" for e in evs):
            continue
          n_pos += 1
          if any(e.kind == "call" and e.data["name"] in (T.ATTACH_FACTORS, T.ATTACH_INFO) for e in evs):
            n_cert += 1
      name = c.name if c.name in THRESHOLD_BACKED else (chk.cls.name if chk.cls.name in THRESHOLD_BACKED else c.name)
      if name in THRESHOLD_BACKED:
        ctx.ok(R, where, "threshold-backed", "%d positive path(s), %d with a recorded certificate; governed by R-C07-BOUNDS / closed-form criteria: %s" % (n_pos, n_cert, THRESHOLD_BACKED[name]))
      else:
        ok = n_pos > 0 and n_pos == n_cert
        ctx.record(R, where, "certificate-backed", ok, "every positive path (%d) records a verified factor / key / relation (C01, C02): cannot accuse a healthy artifact" % n_pos if ok else
                   "%d of %d positive paths accuse without a verifiable certificate (not a documented threshold-backed check)" % (n_pos - n_cert, n_pos))
