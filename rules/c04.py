"""C04 - RSA keys whose primes are close in a documented sense are always factored (loop shape, guess identity, tables, exhaustiveness)."""
from __future__ import annotations
import ast
from pcstatic import sym, algebra, fold, regions
from pcstatic.core import Incomplete
from pcstatic.fold import Sym, Pow2
from pcstatic.loader import norm
from pcstatic.poly import Poly, Atom, P
from pcstatic.sym import Const, Seq, as_poly
from . import template as T
from .c01 import modulus_of

META = {
    "level": "other",
    "trusted_base": ["Python ast parser", "gmpy2.isqrt/is_square semantics", "pcstatic symbolic walker, polynomial normal form, constant folder"],
    "assumptions": ["completeness of Lehman's method given an exact guess is number theory outside this check",
                    "the equal-high-and-low-bits region (r, s) and prime-gap tolerance are runtime quantities and are not decided"],
    "explanation": ("Fermat loop proved to test exactly a0 .. a0+max_steps-1 (start value, inferred invariant, step, order, trip count); "
                    "guess formula proved exact for q = p + D as a polynomial identity; difference table and size gate folded symbolically; "
                    "msb variants; no candidate-search loop may give up early (return of the failure value / undocumented break inside a search loop)."),
}

SEARCH_FUNCS = [
    ("rsa_util", "FermatFactor"), ("rsa_util", "FactorHighAndLowBitsEqual"), ("rsa_util", "CheckSmallUpperDifferences"),
    ("special_case_factoring", "FactorWithGuess"), ("rsa_single_checks", "CheckUnseededRand.Check"),
]
# candidate searches of the patterned / sparse / smooth families: the same rule, filed under C05 (a premature exit there leaves C04 intact)
SEARCH_FUNCS_C05 = [
    ("rsa_util", "CheckContinuedFraction"), ("rsa_util", "CheckFraction"), ("rsa_util", "CheckLowHammingWeight"),
    ("rsa_single_checks", "CheckBitPatterns.Check"), ("rsa_single_checks", "CheckPermutedBitPatterns.Check"),
]
# documented cut-offs: (function, normalised guard) -> reason
CUTOFFS = {
    ("rsa_util:CheckLowHammingWeight", "minv >= threshold_cutoff"): "documented give-up after `cutoff` steps when no promising partial factorisation was seen",
    ("rsa_util:CheckLowHammingWeight", "rem0 < 0"): "pruning: candidates are tried in increasing order of p0*q0; a negative remainder rules out the rest",
    ("rsa_util:CheckLowHammingWeight", "rem0 > 0"): "pruning: (for-else) even the largest candidate leaves a positive remainder -> branch dead",
    ("rsa_single_checks:CheckBitPatterns.Check", "pattern_size > max_pattern_size"): "patterns longer than an eighth of the modulus are beyond the lattice's reach (bound checked by R-C05-CUT)",
    ("rsa_single_checks:CheckPermutedBitPatterns.Check", "d.bit_length() > max_dsize"): "denominators grow with psize (range ascending): larger ones exceed the size the lattice can find",
}
SUCCESS_NAMES = ("factors", "result")


def run(ctx):
  rule_fermat(ctx)
  rule_guess_and_table(ctx)
  rule_msb(ctx)
  rule_exhaust(ctx)
  rule_lehman(ctx)
  rule_highlow(ctx)
  rule_listed(ctx)
  rule_always(ctx)
  ctx.expect("R-C04-ALWAYS", 3, "three checks that search every key")
  # "is factored, with both primes recorded": the recording helpers merge and update (shared with C01 / C16)
  from . import c01, c16
  ctx.borrow(c01.rule_merge, "R-C04-RECORD")
  ctx.borrow(c16.rule_mono, "R-C04-RECORD", lambda r: r.construct == "attach-info" or (r.construct == "lookup-by-name" and r.where.endswith("GetAttachedInfo")))
  ctx.expect("R-C04-RECORD", 3, "AttachFactors, AttachInfo, GetAttachedInfo")
  ctx.expect("R-C04-LISTED", 3, "sibling lengths, widths, lookup")
  ctx.expect("R-C04-HIGHLOW", 2, "test order, total advance")
  ctx.expect("R-C04-LEHMAN", 3, "convergents, Fermat step, bound")
  ctx.expect("R-C04-FERMAT", 6, "six clauses")
  ctx.expect("R-C04-GUESS", 1, "guess identity")
  ctx.expect("R-C04-TABLE", 3, "table, L, gate")
  ctx.expect("R-C04-MSB", 2, "variants + list coverage")
  ctx.expect("R-C04-EXHAUST", 5, "five candidate-search functions of the close-prime families")


# ------------------------------------------------------------------ FERMAT
def rule_fermat(ctx):
  R = "R-C04-FERMAT"
  repo = ctx.repo
  f = repo.func("rsa_util", "FermatFactor")
  w = sym.Walker(repo, f)
  w.run()
  n = P("param", f.params()[0])
  steps = P("param", f.params()[1]) if len(f.params()) > 1 else None
  loops = list(w.loop_info.values())
  if len(loops) != 1 or not loops[0].get("visits"):
    ctx.violation(R, f.where, "search loop", "expected exactly one search loop")
    return
  info = loops[0]
  v = info["visits"][0]
  pre, head, k = v["pre"], v["head"], v["k"]
  # roles: the candidate a is the carried variable that every completed pass advances (by one); b2 is whatever else is carried
  bpaths = [bp for bp in info["body_paths"] if bp[0] in ("fall", "continue")]
  cand = [nm for nm in info["modified"] if isinstance(head.env.get(nm), Poly) and head.env[nm].as_atom() is not None and head.env[nm].as_atom().kind == "sym" and bpaths and
          all(isinstance(bp[2].env.get(nm), Poly) and (bp[2].env[nm] - head.env[nm]).as_int() is not None and (bp[2].env[nm] - head.env[nm]).as_int() > 0 for bp in bpaths)]
  AN = cand[0] if len(cand) == 1 else "a"
  others = [nm for nm in info["modified"] if nm != AN and isinstance(head.env.get(nm), Poly) and nm in pre.env]
  # (i) start value
  a0 = pre.env.get(AN)
  want = sym.mk("isqrt", n) + 1
  ok = isinstance(a0, Poly) and (a0 - want).is_zero()
  ctx.record(R, f.where, "start a0 = isqrt(n) + 1", ok, "first candidate is ceil(sqrt n) on the non-square path" if ok else "start value is %r" % (a0,))
  sqfact = any(f_[0] == "cmp" and f_[1] == "NotEq" and isinstance(f_[2], Poly) and (as_poly(f_[2]) - as_poly(f_[3]) - (sym.mk("isqrt", n) ** 2 - n)).is_zero()
               for f_ in pre.facts) or any(f_[0] == "cmp" and f_[1] == "NotEq" and (as_poly(f_[2]) - as_poly(f_[3]) + (sym.mk("isqrt", n) ** 2 - n)).is_zero() for f_ in pre.facts)
  evenfact = any(f_[0] == "cmp" and f_[1] == "NotEq" and as_poly(f_[2]) == sym.mk("mod", n, Poly.const(2)) and as_poly(f_[3]).is_zero() for f_ in pre.facts)
  ctx.record(R, f.where, "even / square shortcuts precede the loop", sqfact and evenfact,
             "loop entered only for odd non-square n" if sqfact and evenfact else "the even or perfect-square shortcut does not dominate the loop")
  # (ii) invariant
  inv = info.get("invariants", {})
  a_h = head.env.get(AN)
  b2s = [head.env.get(nm) for nm in others]
  ok = isinstance(a_h, Poly) and bool(b2s) and any(isinstance(b2_h, Poly) and (b2_h - (a_h * a_h - n)).is_zero() for b2_h in b2s)
  ctx.record(R, f.where, "invariant b2 = a^2 - n", ok, "inferred and re-established by the body as a polynomial identity (%s)" % inv if ok
             else "b2 = a*a - n is not an inductive invariant of the loop (inferred: %s)" % inv)
  # (iii)/(iv) step and order
  step_ok, order_ok, n_ret = True, True, 0
  why = []
  for kind, val, s, since, visit in info["body_paths"]:
    if kind in ("fall", "continue"):
      a_end = s.env.get(AN)
      if not (isinstance(a_end, Poly) and (a_end - a_h - 1).is_zero()):
        step_ok = False
        why.append("a' = %r" % (a_end,))
      # the square test must have been made on the head values (nonsquare fact on a_h^2 - n)
      if not any(f_[0] == "nonsquare" and (as_poly(f_[1]) - (a_h * a_h - n)).is_zero() for f_ in s.facts):
        order_ok = False
    elif kind == "return":
      n_ret += 1
      if not any(f_[0] == "square" and (as_poly(f_[1]) - (a_h * a_h - n)).is_zero() for f_ in s.facts):
        order_ok = False
    else:
      step_ok = False
      why.append("loop left by %s" % kind)
  ctx.record(R, f.where, "step a' = a + 1", step_ok, "every candidate a is visited" if step_ok else "candidates are skipped: " + "; ".join(why))
  ctx.record(R, f.where, "square test on the current (a, b2) precedes the update", order_ok and n_ret >= 1,
             "test-then-advance: a0 itself is tested" if order_ok and n_ret else "the square test is not applied to the current candidate before advancing")
  # (v) trip count
  ok = steps is not None and as_poly(v["iter"]) == sym.mk("range", steps)
  ctx.record(R, f.where, "trip count = max_steps", ok, "range(max_steps): exactly a0 .. a0+max_steps-1 are tested" if ok else
             "loop does not run range(max_steps): %r" % (v["iter"],))
  # parameter flow from the check
  c = repo.cls("rsa_single_checks", "CheckFermat")
  init = c.methods.get("__init__")
  chk = c.methods.get("Check")
  ok = False
  detail = ""
  if init is not None and chk is not None:
    # values, not text: some attribute holds the constructor parameter unchanged, and the same attribute (read directly or through a local) is FermatFactor's bound
    pname = [q for q in init.params() if q != "self"]
    wi = sym.Walker(repo, init)
    wi.run()
    held = {e.data["attr"] for e in wi.events if e.kind == "setattr" and pname and isinstance(e.data["value"], Poly) and e.data["value"] == P("param", pname[0])}
    stored = bool(held)
    wc = sym.Walker(repo, chk)
    wc.run()
    fcalls = [e for e in wc.events if e.kind == "call" and e.data["name"] == "repo:rsa_util:FermatFactor"]
    passed = bool(fcalls) and all(len(e.data["args"]) >= 2 and isinstance(e.data["args"][1], Poly) and e.data["args"][1].as_atom() is not None and e.data["args"][1].as_atom().kind == "attr"
                                  and as_poly(e.data["args"][1].as_atom().args[0]) == P("param", "self") and e.data["args"][1].as_atom().args[1] in held for e in fcalls)
    d = init.default_of(pname[0]) if pname else None
    dv = fold.try_fold(d) if d is not None else None
    ok = stored and passed and isinstance(dv, int) and dv >= 100000
    detail = "bound flows unmodified from the constructor (default %r)" % dv if ok else "stored=%s passed=%s default=%r (documented default 100000)" % (stored, passed, dv)
  ctx.record(R, "rsa_single_checks:CheckFermat", "step bound flows unmodified", ok, detail)


# ------------------------------------------------------------------ GUESS / TABLE
def rule_guess_and_table(ctx):
  repo = ctx.repo
  f = repo.func("rsa_util", "CheckSmallUpperDifferences")
  w = sym.Walker(repo, f)
  w.run()
  n = P("param", f.params()[0])
  calls = [e for e in w.events if e.kind == "call" and e.data["name"] == "repo:special_case_factoring:FactorWithGuess"]
  if not calls:
    ctx.violation("R-C04-GUESS", f.where, "guess", "FactorWithGuess is never called")
  for e in {id(e.node): e for e in calls}.values():
    args = e.data["args"]
    if len(args) < 2 or as_poly(args[0]) != n:
      ctx.violation("R-C04-GUESS", f.where, norm(e.node), "FactorWithGuess is not applied to n")
      continue
    p0 = as_poly(args[1])
    # the difference tried in this pass: the element of the searched list (found in the guess itself; the loop variable's name is irrelevant)
    diff = None
    for info_ in w.loop_info.values():
      for vis_ in info_["visits"]:
        if vis_["iter"] is None or isinstance(vis_["iter"], tuple):
          continue
        el_ = sym.mk("idx", as_poly(vis_["iter"]), as_poly(vis_["k"]))
        if el_.as_atom() is not None and el_.as_atom() in p0.all_atoms():
          diff = el_
    verdict, detail = guess_exact(p0, n, diff)
    ctx.record("R-C04-GUESS", f.where, norm(e.node), verdict, detail)
    # the result is released when truthy and the loop continues otherwise
  # table: fold `differences` with symbolic L
  R = "R-C04-TABLE"
  loops = [x for x in ast.walk(f.node) if isinstance(x, ast.For)]
  Lterm0 = sym.mk("fdiv", sym.mk("bitlen", n), Poly.const(2))
  # the list that is searched, as a value: every element 2 ** (L - c) with L = bit_length(n) // 2
  elems = None
  for info_ in w.loop_info.values():
    for vis_ in info_["visits"]:
      it_ = vis_["iter"]
      if isinstance(it_, Seq):
        elems = [as_poly(x) for x in it_.items if not isinstance(x, (Seq, tuple))]
      elif isinstance(it_, Poly) and it_.as_atom() is not None and it_.as_atom().kind == "seq":
        elems = [as_poly(x) for x in it_.as_atom().args]
      elif isinstance(it_, Poly) and it_.as_atom() is not None and it_.as_atom().kind == "map" and len(it_.as_atom().args) == 3:
        ma_ = it_.as_atom()
        sa_ = as_poly(ma_.args[2]).as_atom()
        if sa_ is not None and sa_.kind == "seq" and isinstance(ma_.args[0], Poly):
          elems = [sym.rebuild(ma_.args[0].deep_subst(ma_.args[1], Poly.const(i_))) for i_ in range(len(sa_.args))]
  consts_ = set()
  okL = elems is not None and bool(elems)
  for x in elems or []:
    xa = x.as_atom()
    if xa is not None and xa.kind == "pow" and as_poly(xa.args[0]).as_int() == 2 and (as_poly(xa.args[1]) - Lterm0).as_int() is not None:
      consts_.add(-(as_poly(xa.args[1]) - Lterm0).as_int())
    else:
      okL = False
  ctx.record(R, f.where, "L = n.bit_length() // 2", okL, "prime size is half the modulus length" if okL else "the differences are not 2 ** (bit_length(n) // 2 - c): %s" % (repr(elems)[:120],))
  if elems is None:
    ctx.incomplete(R, f.where, "differences", "difference list is not a literal list of powers of two over the prime size")
  else:
    missing = {100, 128, 160, 256, 2, 3} - consts_
    ctx.record(R, f.where, "differences", not missing, "covers 2^(L-100), 2^(L-128), 2^(L-160), 2^(L-256), 2^(L-2), 2^(L-3)" if not missing else
               "documented difference(s) missing: %s" % sorted("2^(L-%d)" % c for c in missing))
  # gate
  Lterm = sym.mk("fdiv", sym.mk("bitlen", n), Poly.const(2))
  early = []
  loop_line = min([x.lineno for x in loops] or [10 ** 9])
  for e in w.events:
    if e.kind == "return" and e.node is not None and not e.state.tags and isinstance(e.data["value"], Const) and e.data["value"].v is None:
      if e.node.lineno < loop_line:   # a `return None` that precedes the search loop
        early.append([(c, pol) for c, pol, node in e.state.pc])
  verdict, detail = regions.equivalent_dnf(early, lambda v: v[Lterm] < 384, main=Lterm) if early else (False, "no size gate")
  ctx.record(R, f.where, "gate: skip iff L < 384", verdict, detail)


def guess_exact(p0, n, diff):
  """p0 must equal q = p + D when n = p*(p + D), D = 2*(D//2)."""
  if diff is None:
    return None, "no difference variable"
  # the difference D is an opaque even number: abstract it before substituting n
  D = P("D")
  da = diff.as_atom()
  if da is None:
    return None, "difference is not atomic"
  p0 = sym.rebuild(p0.deep_subst(da, D))
  isq = [a for a in p0.atoms() if a.kind == "isqrt"]
  if len(isq) != 1:
    return None, "guess is not of the form isqrt(radicand) + offset: %r" % (p0,)
  rad = isq[0].args[0]
  H = sym.mk("fdiv", D, Poly.const(2))
  p = P("p")
  # substitute n := p*(p + 2H)
  na = n.as_atom()
  rad2 = sym.rebuild(rad.deep_subst(na, p * (p + 2 * H)))
  if not (rad2 - (p + H) ** 2).is_zero():
    return False, "radicand n + ... is not (p + D/2)^2 for n = p(p + D): residual %r" % (rad2 - (p + H) ** 2,)
  g = p0.subst(isq[0], p + H)
  g = sym.rebuild(g.deep_subst(na, p * (p + 2 * H)))
  res = g - (p + 2 * H)
  if res.is_zero():
    return True, "for n = p(p+D), D even: n + (D/2)^2 = (p + D/2)^2, hence the guess equals p + D = q exactly"
  return False, "guess - (p + D) = %r (not zero)" % (res,)


# ------------------------------------------------------------------ MSB
def rule_msb(ctx):
  R = "R-C04-MSB"
  repo = ctx.repo
  b = [x for x in T.bodies(repo) if x.where() == "rsa_single_checks:CheckUnseededRand.Check"]
  if not b:
    raise Incomplete("CheckUnseededRand.Check vanished", "rsa_single_checks")
  b = b[0]
  calls = b.calls("repo:special_case_factoring:FactorWithGuess")
  probs = []
  if not calls:
    probs.append("FactorWithGuess never called")
  nterm = None
  for e in calls:
    args = e.data["args"]
    guess = as_poly(args[1]) if len(args) > 1 else None
    ga = guess.as_atom() if guess is not None else None
    if ga is None or ga.kind != "idx":
      probs.append("guess is not drawn from the variant set")
      continue
    st_ = ga.args[0].as_atom()
    if st_ is None or st_.kind != "setlit":
      probs.append("variants are not a literal set")
      continue
    n = as_poly(args[0])
    psize = sym.mk("fdiv", sym.mk("bitlen", n) + 1, Poly.const(2))
    m1 = sym.mk("pow", Poly.const(2), psize - 1)
    m2 = sym.mk("pow", Poly.const(2), psize - 2)
    # p_0 is the element of the storage list
    p0s = [x for x in st_.args if x.as_atom() is not None and x.as_atom().kind == "idx"]
    if len(p0s) != 1:
      probs.append("the unmodified list element is not among the variants")
      continue
    p0 = p0s[0]
    m11 = sym.mk("bor", m1, m2)
    want = {repr(p0), repr(sym.mk("bor", p0, m1)), repr(sym.mk("bor", p0, m11))}
    got = {repr(x) for x in st_.args}
    if not want <= got:
      probs.append("variant(s) missing: need p0, p0 | 2^(s-1), p0 | 2^(s-1) | 2^(s-2) with s = (bitlen+1)//2; got %s" % sorted(got))
    src = p0.as_atom().args[0].as_atom()
    if not (src is not None and src.kind == "mcall" and "GetUnseededRands" in repr(src) and src.args[2] == psize):
      probs.append("candidates are not storage.GetUnseededRands((bitlen + 1) // 2)")
  ctx.record(R, b.where(), "msb variants", not probs, "; ".join(sorted(set(probs))) or "tries p0, p0|msb, p0|msb|msb2 for the storage list of size (bitlen+1)//2")
  # every element of the list: the loop over the list is left only on success
  # the loop whose iterable is the value GetUnseededRands(..) returned (by value: the local holding the list may have any name)
  loops = []
  for info_ in b.w.loop_info.values():
    for vis_ in info_["visits"]:
      ia = vis_["iter"].as_atom() if isinstance(vis_["iter"], Poly) else None
      if ia is not None and ia.kind == "mcall" and repr(ia.args[1]) == "lit('GetUnseededRands')" and info_["node"] not in loops:
        loops.append(info_["node"])
  ok = len(loops) == 1
  ctx.record(R, b.where(), "all listed outputs are tried", ok, "loop ranges over the complete storage list (exits checked by R-C04-EXHAUST)" if ok else
             "no loop over the complete list of unseeded outputs")


# ------------------------------------------------------------------ EXHAUST
def parents(fn):
  par = {}
  for n in ast.walk(fn):
    for ch in ast.iter_child_nodes(n):
      par[id(ch)] = n
  return par


def rule_exhaust(ctx, funcs=None, R="R-C04-EXHAUST"):
  repo = ctx.repo
  for mod, name in (funcs or SEARCH_FUNCS):
    f = repo.func(mod, name)
    fn = f.node
    par = parents(fn)
    _SUCCESS_EXTRA.clear()
    _SUCCESS_EXTRA.update(success_names_of(fn))
    # the function's failure value: value of the last top-level return (or the accumulator for Check bodies)
    fail = None
    for st in fn.body:
      if isinstance(st, ast.Return):
        fail = st.value
    fail_txt = ast.dump(fail) if fail is not None else ast.dump(ast.Constant(None))
    probs = []
    n_sites = 0
    for node in ast.walk(fn):
      if isinstance(node, (ast.FunctionDef, ast.Lambda)) and node is not fn:
        continue
      if isinstance(node, ast.Continue):
        # a candidate that is skipped before it has been tested is a candidate never tried
        loops = []
        x = node
        while id(x) in par:
          c_ = x
          x = par[id(x)]
          if isinstance(x, (ast.For, ast.While)) and not any(c_ is o_ for o_ in x.orelse):
            loops.append(x)
        if not loops:
          continue
        later_test = False
        blk_loop = loops[0].body
        seen_me = False
        for st in blk_loop:
          if any(n_ is node for n_ in ast.walk(st)):
            seen_me = True
            continue
          if seen_me and any(is_success_test(t_) or is_success_stmt(t_) for t_ in ast.walk(st) if isinstance(t_, (ast.stmt, ast.expr))):
            later_test = True
        if not later_test:
          continue
        n_sites += 1
        conj = guard_conjuncts(node, par, loops[0])
        if any((f.where, t_) in CUTOFFS for c_ in conj for t_ in canon_texts(c_)):
          continue
        if any(is_success_test(c_) or (isinstance(c_, ast.UnaryOp) and isinstance(c_.op, ast.Not) and is_success_test(c_.operand)) for c_ in conj):
          continue                   # the candidate has been tested: this is the "no luck, next one" exit
        g = enclosing_guard(node, par, loops[0])
        probs.append("`continue` under `%s` skips a candidate before it is tested and is not a documented cut-off" % (norm(g) if g is not None else "no condition"))
        continue
      if isinstance(node, (ast.Return, ast.Break)):
        # enclosing loops (within this function)
        loops = []
        x = node
        inner_def = False
        while id(x) in par:
          c_ = x
          x = par[id(x)]
          if isinstance(x, (ast.For, ast.While)) and not any(c_ is o_ for o_ in x.orelse):
            loops.append(x)
          if isinstance(x, ast.FunctionDef) and x is not fn:
            inner_def = True
        if not loops or inner_def:
          continue
        n_sites += 1
        if isinstance(node, ast.Return):
          val_txt = ast.dump(node.value) if node.value is not None else ast.dump(ast.Constant(None))
          if val_txt == fail_txt:
            probs.append("`%s` inside the candidate loop returns the function's failure value: the remaining candidates are never tried" % norm(node))
        else:
          guard = enclosing_guard(node, par, loops[0])
          if guard is None:
            # unconditional break: allowed directly after the success statements of the same block
            blk = block_of(node, par)
            if blk is not None and any(is_success_stmt(s_) for s_ in blk[:blk.index(node)]):
              continue
            probs.append("unconditional `break` in a candidate loop")
            continue
          gt = norm(guard)
          conj = guard_conjuncts(node, par, loops[0])
          if any(is_success_test(c_) for c_ in conj):
            continue
          blk = block_of(node, par)
          if blk is not None and any(is_success_stmt(s_) for s_ in blk[:blk.index(node)]):
            continue
          if any((f.where, t_) in CUTOFFS for c_ in conj for t_ in canon_texts(c_)):
            continue
          probs.append("`break` under `%s` leaves a candidate loop without success and is not a documented cut-off" % gt)
    ctx.record(R, f.where, "no premature give-up", not probs, "; ".join(sorted(set(probs))) or
               "%d in-loop exits: all success-dominated or documented cut-offs" % n_sites)


def enclosing_guard(node, par, loop):
  x = node
  while id(x) in par and par[id(x)] is not loop:
    p = par[id(x)]
    if isinstance(p, ast.If):
      return p.test
    x = p
  return None


def guard_conjuncts(node, par, loop):
  """Atomic conditions that all hold where `node` runs, collected from every enclosing `if` (body side) up to the loop, `and` split up."""
  out = []
  x = node
  while id(x) in par and par[id(x)] is not loop:
    p = par[id(x)]
    if isinstance(p, ast.If) and x in p.body:
      todo = [p.test]
      while todo:
        t = todo.pop()
        if isinstance(t, ast.BoolOp) and isinstance(t.op, ast.And):
          todo.extend(t.values)
        else:
          out.append(t)
    x = p
  return out


SWAP = {ast.Lt: ast.Gt, ast.Gt: ast.Lt, ast.LtE: ast.GtE, ast.GtE: ast.LtE, ast.Eq: ast.Eq, ast.NotEq: ast.NotEq}
NEGATE = {ast.Lt: ast.GtE, ast.GtE: ast.Lt, ast.Gt: ast.LtE, ast.LtE: ast.Gt, ast.Eq: ast.NotEq, ast.NotEq: ast.Eq}


def canon_texts(t):
  """Equivalent spellings of one comparison: as written, operands swapped, and `not (a op b)` resolved."""
  if isinstance(t, ast.UnaryOp) and isinstance(t.op, ast.Not) and isinstance(t.operand, ast.Compare) and len(t.operand.ops) == 1 and type(t.operand.ops[0]) in NEGATE:
    t = ast.Compare(left=t.operand.left, ops=[NEGATE[type(t.operand.ops[0])]()], comparators=t.operand.comparators)
  out = [norm(t)]
  if isinstance(t, ast.Compare) and len(t.ops) == 1 and type(t.ops[0]) in SWAP:
    sw = ast.Compare(left=t.comparators[0], ops=[SWAP[type(t.ops[0])]()], comparators=[t.left])
    out.append(norm(ast.fix_missing_locations(sw)))
  return out


def block_of(node, par):
  p = par.get(id(node))
  if p is None:
    return None
  for fld in ("body", "orelse", "finalbody"):
    blk = getattr(p, fld, None)
    if isinstance(blk, list) and node in blk:
      return blk
  return None


_SUCCESS_EXTRA = set()


def success_names_of(fn):
  """Names that hold a success value in fn: whatever is handed to AttachFactors as the factor list or returned by name."""
  out = set()
  for n_ in ast.walk(fn):
    if isinstance(n_, ast.Call) and ast.unparse(n_.func).endswith("AttachFactors") and n_.args and isinstance(n_.args[-1], ast.Name):
      out.add(n_.args[-1].id)
  # a name returned from inside a loop is a found result; the name returned at the end (the batch accumulator of a Check) is not
  for lp in ast.walk(fn):
    if isinstance(lp, (ast.For, ast.While)):
      for n_ in ast.walk(lp):
        if isinstance(n_, ast.Return) and isinstance(n_.value, ast.Name):
          out.add(n_.value.id)
  return out


def is_success_test(t):
  """`if factors:` / `if test_result.result:` style truthiness test of the success variable."""
  if isinstance(t, ast.Name) and (t.id in SUCCESS_NAMES or t.id in _SUCCESS_EXTRA):
    return True
  if isinstance(t, ast.Attribute) and t.attr in SUCCESS_NAMES:
    return True
  return False


def is_success_stmt(s):
  txt = norm(s)
  return "AttachFactors" in txt or txt.endswith(".result = True")


# ------------------------------------------------------------------ LEHMAN (the Fermat step on 4uvn inside FactorWithGuess)
def rule_lehman(ctx):
  """Necessary algebra of Lehman's step: d = 4*u*v*n for the convergent (u, v) of p_0/q_0 with q_0 = n // p_0, a = ceil(sqrt d),
  square test on a^2 - d, g = gcd(a + b, n).  Then (a+b)(a-b) = 4uvn, so a+b shares a factor with n when p_0 is close to p."""
  R = "R-C04-LEHMAN"
  repo = ctx.repo
  f = repo.func("special_case_factoring", "FactorWithGuess")
  w = sym.Walker(repo, f)
  w.run()
  n, p0 = P("param", "n"), P("param", "p_0")
  q0 = sym.mk("fdiv", n, p0)
  loops = [i for i in w.loop_info.values() if isinstance(i["node"], ast.For)]
  if len(loops) != 1 or not loops[0].get("visits"):
    ctx.violation(R, f.where, "convergent loop", "expected one loop over the convergents")
    return
  info = loops[0]
  vis = info["visits"][0]
  cf = sym.mk("call", P("lit", "ntheory_util:ContinuedFraction"), p0, q0)
  oki = all(as_poly(v_["iter"]) == cf for v_ in info["visits"])
  ctx.record(R, f.where, "convergents of p_0 / (n // p_0)", oki, "ContinuedFraction(p_0, q_0), q_0 = n // p_0" if oki else "convergents are taken of %r" % (vis["iter"],))
  # the loop may be walked once per way of reaching it (a conditional before it): one element symbol per visit
  def uvd(e):
    ks = [v_["k"] for v_ in info["visits"]]
    used = [k_ for k_ in ks if any(k_ == Poly.atom(t_) for x_ in e.data["value"].items if isinstance(x_, Poly) for t_ in x_.all_atoms())] or ks[:1]
    el_ = sym.mk("idx", cf, used[0])
    u_, v_ = sym.mk("idx", el_, Poly.const(1)), sym.mk("idx", el_, Poly.const(2))
    return u_, v_, u_ * v_ * n * 4
  rets = [e for e in w.events if e.kind == "return" and e.node is not None and isinstance(e.data["value"], Seq) and e.data["value"].items]
  probs = []
  if not rets:
    probs.append("no factor-producing return")
  for e in rets:
    u, v, d = uvd(e)
    # read a, b, g off the returned value [g, n // g] (temporaries and their names do not matter): g = gcd(a + b, n), b = isqrt(a*a - d)
    g = as_poly(e.data["value"].items[0]) if not isinstance(e.data["value"].items[0], (Seq, tuple)) else None
    a = b = None
    ga = g.as_atom() if g is not None else None
    if ga is not None and ga.kind == "gcd" and len(ga.args) == 2:
      S = [as_poly(x) for x in ga.args if as_poly(x) != n]
      if len(S) == 1:
        for t_ in S[0].atoms():
          if t_.kind == "isqrt":
            A_ = S[0] - Poly.atom(t_)
            if (as_poly(t_.args[0]) - (A_ * A_ - d)).is_zero():
              a, b = A_, Poly.atom(t_)
    if a is None:
      probs.append("the returned factor is not gcd(a + isqrt(a*a - d), n) with d = 4*u*v*n for the convergent (u, v): %s" % repr(g)[:100])
      continue
    isq = sym.mk("isqrt", d)
    if a is None or not ((a - isq).is_zero() or (a - isq - 1).is_zero()):
      probs.append("a is not isqrt(d) rounded up")
    elif (a - isq).is_zero():
      # the path that does not increment must know a*a >= d
      if not any(f_[0] == "cmp" and ((f_[1] in ("GtE", "Eq") and (as_poly(f_[2]) - isq * isq).is_zero() and (as_poly(f_[3]) - d).is_zero()) or
                                     (f_[1] in ("LtE", "Eq") and (as_poly(f_[3]) - isq * isq).is_zero() and (as_poly(f_[2]) - d).is_zero())) for f_ in e.facts):
        probs.append("a = isqrt(d) is used without a*a >= d")
    if a is not None and not any(f_[0] == "square" and (as_poly(f_[1]) - (a * a - d)).is_zero() for f_ in e.facts):
      probs.append("no square test on a^2 - d")
    if a is not None and (b is None or b != sym.mk("isqrt", a * a - d)):
      probs.append("b is not isqrt(a^2 - d)")
    if a is not None and b is not None and (g is None or g != sym.mk("gcd", a + b, n)):
      probs.append("g is not gcd(a + b, n)")
    # admissibility test |u*q_0 - v*p_0| < bound dominates
    if not any(f_[0] == "cmp" and f_[1] == "Lt" and as_poly(f_[2]) == sym.mk("abs", u * q0 - v * p0) for f_ in e.facts):
      probs.append("admissibility test |u*q_0 - v*p_0| < bound missing")
  ctx.record(R, f.where, "Fermat step on d = 4uvn: a = ceil(sqrt d), a^2 - d square, g = gcd(a + b, n)", not probs, "; ".join(sorted(set(probs))) or
             "(a + b)(a - b) = 4uvn: a + b shares a factor with n for a good convergent")
  # bound ~ n^(1/3)
  # the admissibility bound, as a value: whatever |u*q_0 - v*p_0| is compared with on the factor-producing paths
  bvals = []
  for e in rets:
    u, v, d = uvd(e)
    for f_ in e.facts:
      if f_[0] == "cmp" and f_[1] == "Lt" and isinstance(f_[2], Poly) and isinstance(f_[3], Poly) and f_[2] == sym.mk("abs", u * q0 - v * p0) and not any(f_[3] == b_ for b_, _ in bvals):
        bvals.append((f_[3], e))
  okb = bool(bvals)
  for bv_, e in bvals:
    v_ = bv_.as_atom()
    sh = Poly.const(0)
    inner = v_
    if v_ is not None and v_.kind == "shl":
      inner = v_.args[0].as_atom()
      sh = v_.args[1]
    good = False
    if inner is not None and inner.kind == "pow" and inner.args[1] == sym.mk("tdiv", Poly.const(1), Poly.const(3)):
      base = inner.args[0].as_atom()
      if base is not None and base.kind == "shr" and base.args[0] == n and (base.args[1] - sh * 3).is_zero():
        good = True
      elif sh.is_zero() and inner.args[0] == n:
        # a shift of zero folded away: only on a path that knows the computed shift is not positive (small n; the root cannot overflow)
        good = any(f_[0] == "cmp" and f_[1] in ("Lt", "LtE") and isinstance(f_[2], Poly) and isinstance(f_[3], Poly) and f_[3].is_zero() and
                   any(t_.kind == "bitlen" for t_ in f_[2].all_atoms()) for f_ in e.facts)
    okb = okb and good
  ctx.record(R, f.where, "bound = (n >> 3s)^(1/3) << s  (about n^(1/3))", okb, "cube root taken on the top bits and scaled back by the same shift" if okb else "bound is not the scaled cube root of n")


# ------------------------------------------------------------------ HIGHLOW: every candidate of the middle-bits search is tested, the last one included
def rule_highlow(ctx):
  R = "R-C04-HIGHLOW"
  repo = ctx.repo
  f = repo.func("rsa_util", "FactorHighAndLowBitsEqual")
  w = sym.Walker(repo, f)
  w.run()
  n = P("param", f.params()[0])
  inner = None
  for info in w.loop_info.values():
    for kind, val, s, since, vis in info["body_paths"]:
      newf = s.facts[len(vis["head"].facts):]
      if any(fc[0] in ("square", "nonsquare") for fc in newf) and not any(
          info2 is not info and any(x is info2["node"] for x in ast.walk(info["node"])) and any(fc[0] in ("square", "nonsquare") for bp in info2["body_paths"] for fc in bp[2].facts[len(bp[4]["head"].facts):])
          for info2 in w.loop_info.values()):
        inner = info
  if inner is None:
    raise Incomplete("FactorHighAndLowBitsEqual: no loop testing a perfect square found", f.where)
  probs = []
  step = None
  cand = None
  for kind, val, s, since, vis in inner["body_paths"]:
    newf = s.facts[len(vis["head"].facts):]
    sq = [fc for fc in newf if fc[0] in ("square", "nonsquare")]
    if len(sq) != 1:
      probs.append("a pass of the candidate loop does not test exactly one value")
      continue
    d = as_poly(sq[0][1])
    # which loop-carried variable is the candidate: d = S^2 - n for S = value of that variable at some point of the pass
    found = None
    for nm in inner["modified"]:
      hv = vis["head"].env.get(nm)
      fv = s.env.get(nm)
      if isinstance(hv, Poly) and isinstance(fv, Poly):
        if (d - (fv * fv - n)).is_zero():
          found = (nm, "carried")
        elif (d - (hv * hv - n)).is_zero() and not (fv - hv).is_zero():
          found = (nm, "stale")
    if found is None:
      probs.append("the tested value is not candidate^2 - n")
      continue
    cand = found[0]
    if found[1] == "stale" and kind == "fall":
      probs.append("the value tested in a pass is the candidate before it is advanced: the candidate carried out of the last pass (the one agreeing with the "
                   "2-adic root on all low bits) is never tested")
    if kind == "fall":
      step = as_poly(s.env[cand]) - as_poly(vis["head"].env[cand])
  ctx.record(R, f.where, "each candidate is tested after it is produced", not probs, "; ".join(sorted(set(probs))) or
             "the perfect-square test is applied to the value carried into the next pass, so the final candidate of the search is tested as well")
  # the passes of one bit position advance the candidate by 2^i in total (2^m steps of 2^(i-m))
  ok2 = False
  why = "step / trip count not found"
  if step is not None and not isinstance(inner["iter"], Seq):
    from pcstatic import accum
    tc = accum.trip_count(inner["visits"][0]["iter"])
    # bit index i: the enclosing loop's variable tested in ((s ^ r) >> i) & 1
    idx = None
    for info in w.loop_info.values():
      if info is not inner and any(x is inner["node"] for x in ast.walk(info["node"])) and not isinstance(info["iter"], Seq):
        ra = as_poly(info["iter"]).as_atom()
        if ra is not None and ra.kind == "range" and len(ra.args) == 1:
          for vis in info["visits"]:
            if repr(as_poly(vis["k"])) in repr(step):
              idx = as_poly(vis["k"])
    if tc is not None and idx is not None:
      ta, sa = tc.as_atom(), step.as_atom()
      if ta is not None and sa is not None and ta.kind == "pow" and sa.kind == "pow" and as_poly(ta.args[0]).as_int() == 2 and as_poly(sa.args[0]).as_int() == 2:
        tot = as_poly(ta.args[1]) + as_poly(sa.args[1])
        ok2 = (tot - idx).is_zero()
        why = "2^m passes of 2^(i-m) advance by 2^i = the weight of the lowest differing bit" if ok2 else "passes x step = 2^(%r), expected 2^i" % (tot,)
  ctx.record(R, f.where, "passes x step = 2^i", ok2, why)


# ------------------------------------------------------------------ LISTED (the shipped lists of unseeded outputs: one list per prime size, same generators)
def rule_listed(ctx):
  """The default storage hands CheckUnseededRand one list per prime size; the lists are produced by running the same unseeded generators once per size
  (sibling tables).  They must therefore have the same number of entries, every entry of the list for size s must fit in s bits, and the map must send
  s to the list whose widest entry has s bits.  A list that lost an entry no longer covers a documented generator."""
  R = "R-C04-LISTED"
  repo = ctx.repo
  m = repo.mod("data.unseeded_rands")
  mp = m.consts.get("size_unseeded_map")
  if not isinstance(mp, ast.Dict):
    raise Incomplete("size_unseeded_map is not a dict literal", m.short)
  tabs = {}
  for k, v in zip(mp.keys, mp.values):
    size = fold.try_fold(k)
    node = m.consts.get(v.id) if isinstance(v, ast.Name) else v
    if isinstance(node, ast.Call) and node.args:          # frozenset({...})
      node = node.args[0]
    vals = fold.try_fold(node) if node is not None else None
    if not isinstance(size, int) or not isinstance(vals, (set, frozenset, list, tuple)) or not all(isinstance(x, int) for x in vals):
      raise Incomplete("size_unseeded_map entry %s does not fold to a set of integers" % ast.unparse(k), m.short)
    tabs[size] = set(vals)
  counts = {s: len(t) for s, t in tabs.items()}
  mode = max(set(counts.values()), key=lambda c: (list(counts.values()).count(c), c))
  off = {s: c for s, c in counts.items() if c != mode}
  if off:
    ctx.violation(R, m.short + ":size_unseeded_map", "sibling lists agree in length",
                  "lists for prime sizes %s have %s entries where the others have %d: an output of a listed generator is missing for that size" % (sorted(off), sorted(off.values()), mode))
  elif mode < 80 or len(tabs) < 5:
    ctx.incomplete(R, m.short + ":size_unseeded_map", "sibling lists agree in length", "%d lists of %d entries; 5 lists of 80 were confirmed on the pinned tree" % (len(tabs), mode))
  else:
    ctx.ok(R, m.short + ":size_unseeded_map", "sibling lists agree in length", "%d lists of %d distinct outputs each" % (len(tabs), mode))
  bad = [(s, max(x.bit_length() for x in t)) for s, t in tabs.items() if t and max(x.bit_length() for x in t) != s]
  ctx.record(R, m.short + ":size_unseeded_map", "list for size s holds s-bit outputs", not bad, "widest entry of every list has exactly its key's bit length" if not bad else
             "key -> widest entry: %r" % bad)
  # storage side: GetUnseededRands(size) is the map lookup
  ds = repo.cls("data.default_storage", "DefaultStorage") if "DefaultStorage" in repo.mod("data.default_storage").classes else None
  g = repo.find_method(ds, "GetUnseededRands") if ds is not None else None
  ok = False
  if g is not None:
    w = sym.Walker(repo, g)
    w.run()
    rets = [e for e in w.events if e.kind == "return" and e.node is not None]
    size = P("param", [q for q in g.params() if q != "self"][0])
    ok = bool(rets) and all("size_unseeded_map" in repr(e.data["value"]) and size.as_atom() in as_poly(e.data["value"]).all_atoms() for e in rets if isinstance(e.data["value"], Poly))
  ctx.record(R, "data.default_storage:GetUnseededRands", "lookup by the requested size", ok, "size_unseeded_map.get(size, empty)" if ok else "GetUnseededRands does not look the requested size up in size_unseeded_map")


# ------------------------------------------------------------------ ALWAYS (every key of the batch is searched, whatever it already carries)
SEARCH_OF = {"CheckFermat": "repo:rsa_util:FermatFactor", "CheckHighAndLowBitsEqual": "repo:rsa_util:FactorHighAndLowBitsEqual",
             "CheckSmallUpperDifferences": "repo:rsa_util:CheckSmallUpperDifferences"}


def rule_always(ctx):
  """The statement is about every modulus of the stated shape: each pass of the per-key loop runs the search on that key's modulus with the configured
  parameters - a pass that skips it (because the key already carries a result, say) leaves keys unsearched."""
  R = "R-C04-ALWAYS"
  repo = ctx.repo
  for b in T.bodies(repo):
    fn = SEARCH_OF.get(b.cls.name)
    if fn is None:
      continue
    probs = []
    n_paths = 0
    for info in b.result_loops():
      for kind, val, s_, since, vis in info["body_paths"]:
        n_paths += 1
        evs = b.path_events(s_, since)
        calls = [e for e in evs if e.kind == "call" and e.data["name"] == fn]
        if len(calls) != 1:
          probs.append("a pass of the per-key loop makes %d calls of %s: some keys are not searched" % (len(calls), fn.split(":")[-1]))
          continue
        K = sym.mk("idx", b.artifacts, as_poly(vis["k"]))
        if not (calls[0].data["args"] and isinstance(calls[0].data["args"][0], Poly) and calls[0].data["args"][0] == modulus_of(K)):
          probs.append("the search is not applied to the modulus of the key of this pass")
    if n_paths == 0:
      probs.append("no per-key loop")
    ctx.record(R, b.where(), "every key is searched", not probs, "; ".join(sorted(set(probs))) or "%d paths, one %s(n, ..) each" % (n_paths, fn.split(":")[-1]))
