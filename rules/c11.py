"""C11 - elliptic-curve arithmetic is the group law (formula identities, special-case dispatch, curve constants)."""
from __future__ import annotations
import ast
from pcstatic import sym, fold, refmath
from pcstatic.core import Incomplete
from pcstatic.loader import norm
from pcstatic.poly import Poly, Atom, P
from pcstatic.sym import Const, Seq, as_poly
from .ecsym import mod_strip, Frac, to_frac, inverse_atoms, affine_add, affine_double

META = {
    "level": "proof",
    "trusted_base": ["Python ast parser", "gmpy2.invert(x, m) * x == 1 (mod m)", "`% mod` preserves congruence", "pcstatic walker + exact polynomial arithmetic",
                     "checker-side affine EC arithmetic and Miller-Rabin (40 fixed bases) for the curve constants"],
    "assumptions": ["scalar multiplication loops (Multiply, MultiplyAffine), the comb in BatchMultiplyG and Montgomery's array invariants in BatchInverse are not decided",
                    "primality of mod and n is probabilistic (error <= 4^-40)"],
    "explanation": ("Every formula block of ec_util.EcCurve is evaluated symbolically to polynomials (reductions stripped as congruences, inverses cleared as "
                    "rational functions) and compared with the chord-and-tangent law as an exact rational identity; special-case dispatch is checked path by path; "
                    "the nine curve literals are validated with the checker's own arithmetic."),
}
MODN = "ec_util"
INF = Seq([Const(None), Const(None)])


def curve_cls(repo):
  return repo.cls(MODN, "EcCurve")


def walk(repo, name):
  c = curve_cls(repo)
  f = c.methods.get(name)
  if f is None:
    raise Incomplete("EcCurve.%s vanished" % name, MODN)
  w = sym.Walker(repo, f)
  w.run()
  return f, w


SELF = P("param", "self")
M = sym.mk("attr", SELF, "mod")
A = sym.mk("attr", SELF, "a")


def comp(p, i):
  return sym.mk("idx", p, Poly.const(i))


def fr(p):
  return Frac(p)


def compare(code, spec, amap, facts=()):
  """code: Poly, spec: Frac -> (ok, residual text)"""
  c = mod_strip(as_poly(code), M)
  am = dict(amap)
  for a, D in inverse_atoms(c, M).items():
    am[a] = Frac(Poly.const(1), mod_strip(D, M))
  # apply equalities like self.a == -3 from the path
  for f_ in facts:
    if f_[0] == "cmp" and f_[1] == "Eq" and isinstance(f_[2], Poly) and isinstance(f_[3], Poly):
      la, lb = f_[2].as_atom(), f_[3].as_int()
      if la is not None and lb is not None:
        am[la] = Frac(Poly.const(lb))
  cf = to_frac(c, am)
  sf = Frac(spec.n, spec.d)
  # substitute the same equalities on the spec side
  sub = {a: v for a, v in am.items() if a.kind == "attr"}
  if sub:
    sf = Frac(to_frac(spec.n, sub).n * to_frac(spec.d, sub).d, to_frac(spec.d, sub).n * to_frac(spec.n, sub).d)
  if cf.equals(sf):
    return True, ""
  r = cf.residual(sf)
  return False, "%d-term residual, e.g. %s" % (len(r.t), repr(Poly(dict(list(r.t.items())[:2])))[:160])


def run(ctx):
  rule_formula(ctx)
  rule_dispatch(ctx)
  rule_curves(ctx)
  ctx.expect("R-C11-FORMULA", 15, "15 formula blocks")
  ctx.expect("R-C11-DISPATCH", 12, "special-case tables")
  ctx.expect("R-C11-CURVES", 9, "nine curves")


# ------------------------------------------------------------------ FORMULA
def batch_inverse_map(w, val):
  """atoms v = idx(self.BatchInverse(ARG), j) in val -> Frac(1, D(j))"""
  out = {}
  for a in as_poly(val).all_atoms():
    if a.kind != "idx":
      continue
    base = a.args[0].as_atom()
    if base is None or base.kind != "mcall" or base.args[1] != P("lit", "BatchInverse"):
      continue
    arg = base.args[2]
    j = a.args[1]
    aa = arg.as_atom()
    D = None
    if aa is not None and aa.kind == "map":
      D = sym.mk("idx", arg, j)
    elif aa is not None and aa.kind == "sym":
      # list filled by stores in an earlier loop
      for info in w.loop_info.values():
        for v in info.get("visits", []):
          for var, after in v.get("after_env", {}).items():
            if isinstance(after, Poly) and after == arg:
              vals = set()
              for kind, val_, s, since, vis in info["body_paths"]:
                if vis is not v:
                  continue
                for i in s.trace[since:]:
                  e = w.events[i]
                  if e.kind == "store" and isinstance(e.data["target"].value, ast.Name) and e.data["target"].value.id == var:
                    if as_poly(e.data["index"]) != v["k"]:
                      return None
                    vals.add(sym.rebuild(as_poly(e.data["value"]).deep_subst(v["k"].as_atom(), j)))
              if len(vals) == 1:
                D = vals.pop()
    if D is None:
      return None
    out[a] = Frac(Poly.const(1), mod_strip(D, M))
  return out


def rule_formula(ctx):
  R = "R-C11-FORMULA"
  repo = ctx.repo
  p, q = P("param", "p"), P("param", "q")
  # ---- Add
  f, w = walk(repo, "Add")
  n = 0
  for e in w.events:
    if e.kind == "return" and isinstance(e.data["value"], Seq) and len(e.data["value"].items) == 2 and not all(isinstance(x, Const) for x in e.data["value"].items):
      n += 1
      x1, y1, x2, y2 = fr(comp(p, 0)), fr(comp(p, 1)), fr(comp(q, 0)), fr(comp(q, 1))
      sx, sy = affine_add(x1, y1, x2, y2)
      okx, rx = compare(e.data["value"].items[0], sx, {})
      oky, ry = compare(e.data["value"].items[1], sy, {})
      ctx.record(R, f.where, "generic branch", okx and oky, "x3 = l^2 - x1 - x2, y3 = l(x1 - x3) - y1, l = (y1-y2)/(x1-x2)" if okx and oky else
                 "affine addition differs from the chord law: x %s y %s" % (rx, ry))
  if n != 1:
    ctx.incomplete(R, f.where, "generic branch", "expected one formula return, found %d" % n)
  # ---- Double
  f, w = walk(repo, "Double")
  n = 0
  for e in w.events:
    if e.kind == "return" and isinstance(e.data["value"], Seq) and len(e.data["value"].items) == 2:
      n += 1
      x, y = fr(comp(p, 0)), fr(comp(p, 1))
      sx, sy = affine_double(x, y, fr(A))
      okx, rx = compare(e.data["value"].items[0], sx, {})
      oky, ry = compare(e.data["value"].items[1], sy, {})
      ctx.record(R, f.where, "tangent", okx and oky, "l = (3x^2 + a)/(2y)" if okx and oky else "doubling differs from the tangent law: x %s y %s" % (rx, ry))
  if n != 1:
    ctx.incomplete(R, f.where, "tangent", "expected one formula return, found %d" % n)
  # ---- Negate
  f, w = walk(repo, "Negate")
  ok = False
  for e in w.events:
    if e.kind == "return" and isinstance(e.data["value"], Seq):
      v = e.data["value"].items
      if len(v) == 2 and as_poly(v[0]) == comp(p, 0) and (mod_strip(as_poly(v[1]), M) + comp(p, 1)).is_zero():
        ok = True
  ctx.record(R, f.where, "(x, -y mod p)", ok, "negation law" if ok else "Negate does not return (x, -y mod p)")
  # ---- Subtract
  f, w = walk(repo, "Subtract")
  ok = False
  for e in w.events:
    if e.kind == "return":
      v = as_poly(e.data["value"])
      want = sym.mk("mcall", SELF, P("lit", "Add"), p, sym.mk("mcall", SELF, P("lit", "Negate"), q))
      ok = v == want
  ctx.record(R, f.where, "Add(p, Negate(q))", ok, "subtraction = addition of the negative" if ok else "Subtract is not Add(p, Negate(q))")
  # ---- DoubleJacobian
  f, w = walk(repo, "DoubleJacobian")
  n = 0
  for e in w.events:
    if e.kind == "return" and isinstance(e.data["value"], Seq) and len(e.data["value"].items) == 3 and not all(as_poly(x).as_int() is not None for x in e.data["value"].items):
      n += 1
      X, Y, Z = fr(comp(p, 0)), fr(comp(p, 1)), fr(comp(p, 2))
      px, py = X / (Z * Z), Y / (Z * Z * Z)
      dx, dy = affine_double(px, py, fr(A))
      x2, y2, z2 = [mod_strip(as_poly(v), M) for v in e.data["value"].items]
      z2f = Frac(z2)
      shortcut = any(f_[0] == "cmp" and f_[1] == "Eq" and as_poly(f_[2]) == A for f_ in e.facts)
      okx, rx = compare_frac(Frac(x2) / (z2f * z2f), dx, e.facts)
      oky, ry = compare_frac(Frac(y2) / (z2f * z2f * z2f), dy, e.facts)
      ctx.record(R, f.where, "a = -3 shortcut" if shortcut else "generic a", okx and oky,
                 "(X3/Z3^2, Y3/Z3^3) = 2*(X/Z^2, Y/Z^3)" if okx and oky else "Jacobian doubling differs from the affine law: x %s y %s" % (rx, ry))
  if n != 2:
    ctx.incomplete(R, f.where, "formula branches", "expected two formula returns (a = -3 and generic), found %d" % n)
  # ---- AddJacobian
  f, w = walk(repo, "AddJacobian")
  n = 0
  for e in w.events:
    if e.kind == "return" and isinstance(e.data["value"], Seq) and len(e.data["value"].items) == 3 and not all(as_poly(x).as_int() is not None for x in e.data["value"].items):
      n += 1
      X1, Y1, Z1 = fr(comp(p, 0)), fr(comp(p, 1)), fr(comp(p, 2))
      X2, Y2, Z2 = fr(comp(q, 0)), fr(comp(q, 1)), fr(comp(q, 2))
      sx, sy = affine_add(X1 / (Z1 * Z1), Y1 / (Z1 * Z1 * Z1), X2 / (Z2 * Z2), Y2 / (Z2 * Z2 * Z2))
      x3, y3, z3 = [mod_strip(as_poly(v), M) for v in e.data["value"].items]
      z3f = Frac(z3)
      okx, rx = compare_frac(Frac(x3) / (z3f * z3f), sx, e.facts)
      oky, ry = compare_frac(Frac(y3) / (z3f * z3f * z3f), sy, e.facts)
      ctx.record(R, f.where, "generic branch", okx and oky, "(X3/Z3^2, Y3/Z3^3) = affine sum of the operands" if okx and oky else
                 "Jacobian addition differs from the affine law: x %s y %s" % (rx, ry))
  if n != 1:
    ctx.incomplete(R, f.where, "generic branch", "expected one formula return, found %d" % n)
  # ---- JacobianToAffine
  f, w = walk(repo, "JacobianToAffine")
  n = 0
  for e in w.events:
    if e.kind == "return" and isinstance(e.data["value"], Seq) and len(e.data["value"].items) == 2 and not all(isinstance(x, Const) for x in e.data["value"].items):
      n += 1
      X, Y, Z = fr(comp(p, 0)), fr(comp(p, 1)), fr(comp(p, 2))
      okx, rx = compare(e.data["value"].items[0], X / (Z * Z), {})
      oky, ry = compare(e.data["value"].items[1], Y / (Z * Z * Z), {})
      ctx.record(R, f.where, "(X/Z^2, Y/Z^3)", okx and oky, "affine coordinates" if okx and oky else "conversion differs: x %s y %s" % (rx, ry))
  if n != 1:
    ctx.incomplete(R, f.where, "(X/Z^2, Y/Z^3)", "expected one formula return")
  # ---- batched variants
  pl, ql, pts = P("param", "p_list"), P("param", "q_list"), P("param", "points")
  def stores(w, var=None):
    out = []
    for e in w.events:
      if e.kind == "store" and isinstance(e.data["target"].value, ast.Name) and (var is None or e.data["target"].value.id == var):
        out.append(e)
    return out
  # BatchJacobianToX / Affine
  for name, twod in (("BatchJacobianToX", False), ("BatchJacobianToAffine", True)):
    f, w = walk(repo, name)
    n = 0
    for e in stores(w, "res"):
      v = e.data["value"]
      if isinstance(v, Seq) and all(isinstance(x, Const) for x in v.items):
        continue
      k = as_poly(e.data["index"])
      pt = sym.mk("idx", pl, k)
      X, Y, Z = fr(comp(pt, 0)), fr(comp(pt, 1)), fr(comp(pt, 2))
      am = batch_inverse_map(w, P("seq", *[as_poly(x) for x in (v.items if isinstance(v, Seq) else [v])]))
      if am is None:
        ctx.incomplete(R, f.where, "inverse provenance", "cannot relate the shared inverse to its denominator")
        continue
      n += 1
      if twod:
        okx, rx = compare(v.items[0], X / (Z * Z), am)
        oky, ry = compare(v.items[1], Y / (Z * Z * Z), am)
      else:
        okx, rx = compare(v, X / (Z * Z), am)
        oky, ry = True, ""
      ctx.record(R, f.where, "x*w^2%s with w = 1/z" % (", y*w^3" if twod else ""), okx and oky, "affine coordinates via the shared inverse" if okx and oky else
                 "conversion differs: x %s y %s" % (rx, ry))
    if n < 1:
      ctx.incomplete(R, f.where, "formula", "no formula store found")
  # BatchAddList
  f, w = walk(repo, "BatchAddList")
  n = 0
  for e in stores(w, "res"):
    v = e.data["value"]
    if not isinstance(v, Seq) or all(isinstance(x, Const) for x in v.items) or len(v.items) != 2:
      continue
    k = as_poly(e.data["index"])
    P1, Q1 = sym.mk("idx", pl, k), sym.mk("idx", ql, k)
    am = batch_inverse_map(w, P("seq", *[as_poly(x) for x in v.items]))
    if am is None:
      ctx.incomplete(R, f.where, "inverse provenance", "cannot relate the shared inverse to its denominator")
      continue
    n += 1
    sx, sy = affine_add(fr(comp(P1, 0)), fr(comp(P1, 1)), fr(comp(Q1, 0)), fr(comp(Q1, 1)))
    okx, rx = compare(v.items[0], sx, am)
    oky, ry = compare(v.items[1], sy, am)
    ctx.record(R, f.where, "formula branch", okx and oky, "chord law with the shared inverse of x_p - x_q" if okx and oky else "differs: x %s y %s" % (rx, ry))
  if n != 1:
    ctx.incomplete(R, f.where, "formula branch", "expected one formula store, found %d" % n)
  # BatchDouble
  f, w = walk(repo, "BatchDouble")
  n = 0
  for e in stores(w, "res"):
    v = e.data["value"]
    if not isinstance(v, Seq) or all(isinstance(x, Const) for x in v.items) or len(v.items) != 2:
      continue
    k = as_poly(e.data["index"])
    P1 = sym.mk("idx", pl, k)
    am = batch_inverse_map(w, P("seq", *[as_poly(x) for x in v.items]))
    if am is None:
      ctx.incomplete(R, f.where, "inverse provenance", "cannot relate the shared inverse to its denominator")
      continue
    n += 1
    sx, sy = affine_double(fr(comp(P1, 0)), fr(comp(P1, 1)), fr(A))
    okx, rx = compare(v.items[0], sx, am)
    oky, ry = compare(v.items[1], sy, am)
    ctx.record(R, f.where, "formula branch", okx and oky, "tangent law with the shared inverse of 2y" if okx and oky else "differs: x %s y %s" % (rx, ry))
  if n != 1:
    ctx.incomplete(R, f.where, "formula branch", "expected one formula store, found %d" % n)
  # BatchAdd / BatchAddX / BatchAddSubtractX
  for name, targets in (("BatchAdd", {"res": "sum2"}), ("BatchAddX", {"tmp": "sumx"}), ("BatchAddSubtractX", {"sums": "sumx", "diffs": "diffx"})):
    f, w = walk(repo, name)
    seen = {}
    for e in stores(w):
      var = e.data["target"].value.id
      if var not in targets:
        continue
      v = e.data["value"]
      if isinstance(v, Seq) and all(isinstance(x, Const) for x in v.items):
        continue
      vp = P("seq", *[as_poly(x) for x in v.items]) if isinstance(v, Seq) else as_poly(v)
      if not any(a.kind == "idx" and a.args[0].as_atom() is not None and a.args[0].as_atom().kind == "mcall" and a.args[0].as_atom().args[1] == P("lit", "BatchInverse")
                 for a in vp.all_atoms()):
        continue   # inverse request (first loop) or scalar fall-back
      k = as_poly(e.data["index"])
      Q1 = sym.mk("idx", pts, k)
      am = batch_inverse_map(w, vp)
      if am is None:
        ctx.incomplete(R, f.where, "inverse provenance", "cannot relate the shared inverse to its denominator")
        continue
      x1, y1, x2, y2 = fr(comp(p, 0)), fr(comp(p, 1)), fr(comp(Q1, 0)), fr(comp(Q1, 1))
      kind = targets[var]
      if kind == "diffx":
        sx, sy = affine_add(x1, y1, x2, -y2)
      else:
        sx, sy = affine_add(x1, y1, x2, y2)
      if kind == "sum2":
        okx, rx = compare(v.items[0], sx, am)
        oky, ry = compare(v.items[1], sy, am)
      else:
        okx, rx = compare(v, sx, am)
        oky, ry = True, ""
      seen[var] = True
      ctx.record(R, f.where, "%s formula branch" % var, okx and oky, {"sum2": "p + points[i]", "sumx": "x(p + points[i])", "diffx": "x(p - points[i])"}[kind] if okx and oky
                 else "differs from the chord law: x %s y %s" % (rx, ry))
    for var in targets:
      if var not in seen:
        ctx.incomplete(R, f.where, "%s formula branch" % var, "formula store not found")


def compare_frac(cf, spec, facts):
  am = {}
  for f_ in facts:
    if f_[0] == "cmp" and f_[1] == "Eq" and isinstance(f_[2], Poly) and isinstance(f_[3], Poly):
      la, lb = f_[2].as_atom(), f_[3].as_int()
      if la is not None and lb is not None and la.kind == "attr":
        am[la] = Frac(Poly.const(lb))
  if am:
    cn, cd, sn, sd = to_frac(cf.n, am), to_frac(cf.d, am), to_frac(spec.n, am), to_frac(spec.d, am)
    cf = cn / cd
    spec = sn / sd
  if cf.equals(spec):
    return True, ""
  r = cf.residual(spec)
  return False, "%d-term residual" % len(r.t)


# ------------------------------------------------------------------ DISPATCH
def has_fact(facts, kind, op, a, b):
  for f_ in facts:
    if f_[0] == kind and f_[1] == op:
      x, y = f_[2], f_[3]
      if (same(x, a) and same(y, b)) or (same(x, b) and same(y, a)):
        return True
  return False


def same(x, y):
  if isinstance(x, Seq) or isinstance(y, Seq) or isinstance(x, Const) or isinstance(y, Const):
    return repr(x) == repr(y)
  return as_poly(x) == as_poly(y)


def rule_dispatch(ctx):
  R = "R-C11-DISPATCH"
  repo = ctx.repo
  p, q = P("param", "p"), P("param", "q")
  # ---- Add
  f, w = walk(repo, "Add")
  rows = {"q": False, "p": False, "double": False, "inf": False, "formula": False}
  bad = []
  for e in w.events:
    if e.kind != "return":
      continue
    v = e.data["value"]
    fs = e.facts
    p_inf = has_fact(fs, "cmp", "Eq", p, INF)
    q_inf = has_fact(fs, "cmp", "Eq", q, INF)
    xeq = has_fact(fs, "cmp", "Eq", comp(p, 0), comp(q, 0))
    yeq = has_fact(fs, "cmp", "Eq", comp(p, 1), comp(q, 1))
    yne = has_fact(fs, "cmp", "NotEq", comp(p, 1), comp(q, 1))
    xne = has_fact(fs, "cmp", "NotEq", comp(p, 0), comp(q, 0))
    if p_inf:
      rows["q"] = same(v, q) or bad.append("inf + q does not return q")
    elif q_inf:
      rows["p"] = same(v, p) or bad.append("p + inf does not return p")
    elif xeq and yeq:
      rows["double"] = as_poly(v) == sym.mk("mcall", SELF, P("lit", "Double"), p) or as_poly(v) == sym.mk("mcall", SELF, P("lit", "Double"), q) or bad.append("p + p is not Double(p)")
    elif xeq and yne:
      rows["inf"] = same(v, INF) or bad.append("p + (-p) is not the point at infinity")
    elif xne:
      rows["formula"] = isinstance(v, Seq) and len(v.items) == 2
    else:
      bad.append("unclassified return %s" % (norm(e.node) if e.node else "implicit"))
  ok = all(rows.values()) and not bad
  ctx.record(R, f.where, "special cases", ok, "inf+q=q, p+inf=p, p+p=Double(p), p+(-p)=inf, else chord formula" if ok else
             "dispatch table incomplete/wrong: %s %s" % ({k: bool(v) for k, v in rows.items()}, [b for b in bad if b]))
  # ---- Double / Negate on infinity
  for name in ("Double", "Negate"):
    f, w = walk(repo, name)
    ok = any(e.kind == "return" and has_fact(e.facts, "cmp", "Eq", p, INF) and same(e.data["value"], p) for e in w.events) and \
        all(not (e.kind == "return" and isinstance(e.data["value"], Seq) and len(e.data["value"].items) == 2 and not all(isinstance(x, Const) for x in e.data["value"].items))
            or has_fact(e.facts, "cmp", "NotEq", p, INF) for e in w.events)
    ctx.record(R, f.where, "infinity", ok, "%s(inf) = inf, formula only for finite points" % name if ok else "infinity is not handled before the formula")
  # ---- DoubleJacobian
  f, w = walk(repo, "DoubleJacobian")
  INFJ = Seq([Poly.const(1), Poly.const(1), Poly.const(0)])
  z, y = comp(p, 2), comp(p, 1)
  okspecial = False
  okformula = True
  for e in w.events:
    if e.kind != "return":
      continue
    v = e.data["value"]
    if isinstance(v, Seq) and all(as_poly(x).as_int() is not None for x in v.items):
      if repr([as_poly(x) for x in v.items]) == repr([as_poly(x) for x in INFJ.items]):
        okspecial = True
    else:
      if not (has_fact(e.facts, "cmp", "NotEq", z, Poly.const(0)) and has_fact(e.facts, "cmp", "NotEq", y, Poly.const(0))):
        okformula = False
  ctx.record(R, f.where, "z = 0 or y = 0 -> infinity", okspecial and okformula, "formula only for z != 0 and y != 0" if okspecial and okformula else
             "doubling formula reachable with z = 0 or y = 0 (2-torsion / infinity)")
  # ---- AddJacobian
  f, w = walk(repo, "AddJacobian")
  rows = {"q": False, "p": False, "inf": False, "double": False, "formula": False}
  bad = []
  for e in w.events:
    if e.kind != "return":
      continue
    v = e.data["value"]
    fs = e.facts
    z1z = has_fact(fs, "cmp", "Eq", comp(p, 2), Poly.const(0))
    z2z = has_fact(fs, "cmp", "Eq", comp(q, 2), Poly.const(0))
    eqs = [f_ for f_ in fs if f_[0] == "cmp" and f_[1] == "Eq" and isinstance(f_[2], Poly) and f_[2].as_atom() is not None and f_[2].as_atom().kind == "mod"]
    nes = [f_ for f_ in fs if f_[0] == "cmp" and f_[1] == "NotEq" and isinstance(f_[2], Poly) and f_[2].as_atom() is not None and f_[2].as_atom().kind == "mod"]
    if z1z:
      rows["q"] = same(v, q) or bad.append("inf + q")
    elif z2z:
      rows["p"] = same(v, p) or bad.append("p + inf")
    elif len(eqs) == 1 and len(nes) == 1:
      # u1 == u2, s1 != s2
      rows["inf"] = (isinstance(v, Seq) and [as_poly(x).as_int() for x in v.items] == [1, 1, 0]) or bad.append("opposite points")
    elif len(eqs) == 2:
      rows["double"] = as_poly(v) == sym.mk("mcall", SELF, P("lit", "DoubleJacobian"), p) or as_poly(v) == sym.mk("mcall", SELF, P("lit", "DoubleJacobian"), q) or bad.append("equal points")
    elif len(nes) == 1 and not eqs:
      rows["formula"] = isinstance(v, Seq) and len(v.items) == 3
      # the tested quantities must be u1 = x1*z2^2 and u2 = x2*z1^2
      u = nes[0]
      U1 = mod_strip(as_poly(u[2]), M)
      U2 = mod_strip(as_poly(u[3]), M)
      want = {repr(comp(p, 0) * comp(q, 2) ** 2), repr(comp(q, 0) * comp(p, 2) ** 2)}
      if {repr(U1), repr(U2)} != want:
        bad.append("x-coordinates are not compared as x1*z2^2 vs x2*z1^2")
    else:
      bad.append("unclassified return")
  ok = all(rows.values()) and not [b for b in bad if b]
  ctx.record(R, f.where, "special cases", ok, "z1=0 -> q, z2=0 -> p, u1=u2 & s1!=s2 -> inf, u1=u2 & s1=s2 -> double, else formula" if ok else
             "dispatch table incomplete/wrong: %s %s" % ({k: bool(v) for k, v in rows.items()}, [b for b in bad if b]))
  # ---- JacobianToAffine z == 0
  f, w = walk(repo, "JacobianToAffine")
  ok = any(e.kind == "return" and same(e.data["value"], INF) and has_fact(e.facts, "cmp", "Eq", comp(p, 2), Poly.const(0)) for e in w.events) and \
      all(has_fact(e.facts, "cmp", "NotEq", comp(p, 2), Poly.const(0)) for e in w.events if e.kind == "return" and isinstance(e.data["value"], Seq) and not same(e.data["value"], INF))
  ctx.record(R, f.where, "z = 0 -> infinity", ok, "inverse only taken for z != 0" if ok else "z = 0 is not mapped to infinity before inverting")
  # ---- batched variants
  for name, ops in (("BatchAddList", ("p_list", "q_list")), ("BatchDouble", ("p_list",)), ("BatchAdd", ("points",)), ("BatchAddX", ("points",)),
                    ("BatchAddSubtractX", ("points",))):
    f, w = walk(repo, name)
    probs = []
    req = [e for e in w.events if e.kind == "store" and isinstance(e.data["target"].value, ast.Name) and e.data["target"].value.id == "tmp"
           and "BatchInverse" not in repr(as_poly(e.data["value"]) if not isinstance(e.data["value"], Seq) else "")]
    req = [e for e in req if not any(x.kind == "call" and x.data["name"] == "meth:BatchInverse" for x in [w.events[i] for i in e.state.trace])]
    if not req:
      probs.append("no inverse is requested")
    for e in req:
      k = as_poly(e.data["index"])
      for o in ops:
        el = sym.mk("idx", P("param", o), k)
        if not has_fact(e.facts, "cmp", "NotEq", el, INF):
          probs.append("an inverse is requested although %s[i] may be the point at infinity" % o)
      if name in ("BatchAdd", "BatchAddX", "BatchAddSubtractX") and not has_fact(e.facts, "cmp", "NotEq", P("param", "p"), INF):
        probs.append("an inverse is requested although p may be the point at infinity")
    # fall-back: stores of scalar calls exactly under a missing inverse
    n_fb = 0
    for e in w.events:
      if e.kind != "store":
        continue
      v = e.data["value"]
      vp = as_poly(v) if not isinstance(v, Seq) else None
      if vp is None:
        continue
      va = vp.as_atom()
      inner = va
      if va is not None and va.kind == "idx" and va.args[0].as_atom() is not None and va.args[0].as_atom().kind == "mcall":
        inner = va.args[0].as_atom()
      if inner is not None and inner.kind == "mcall" and inner.args[1] in (P("lit", "Add"), P("lit", "Double"), P("lit", "Subtract")):
        n_fb += 1
        missing = any((f_[0] == "falsy" or (f_[0] == "cmp" and f_[1] in ("Is", "Eq") and isinstance(f_[3], Const) and f_[3].v is None))
                      and "BatchInverse" in repr(f_[1] if f_[0] == "falsy" else f_[2]) for f_ in e.facts)
        if not missing:
          probs.append("scalar fall-back is not conditioned on a missing shared inverse")
        k = as_poly(e.data["index"])
        args = [x for x in inner.args[2:]]
        want = [sym.mk("idx", P("param", o), k) for o in ops]
        if name in ("BatchAdd", "BatchAddX", "BatchAddSubtractX"):
          want = [P("param", "p")] + want
        if [repr(a) for a in args] != [repr(a) for a in want]:
          probs.append("scalar fall-back is applied to the wrong operands")
    if n_fb == 0:
      probs.append("no scalar fall-back for elements without a shared inverse (equal / opposite / infinite points)")
    # formula stores must be conditioned on an available inverse
    for e in w.events:
      if e.kind == "store" and any(a.kind == "idx" and a.args[0].as_atom() is not None and a.args[0].as_atom().kind == "mcall" and a.args[0].as_atom().args[1] == P("lit", "BatchInverse")
                                   for a in (as_poly(e.data["value"]) if not isinstance(e.data["value"], Seq) else P("seq", *[as_poly(x) for x in e.data["value"].items])).all_atoms()):
        va = (as_poly(e.data["value"]).as_atom() if not isinstance(e.data["value"], Seq) else None)
        if va is not None and va.kind == "idx" and va.args[0].as_atom().kind == "mcall":
          continue
        avail = any((f_[0] == "truthy" or (f_[0] == "cmp" and f_[1] in ("IsNot", "NotEq") and isinstance(f_[3], Const) and f_[3].v is None))
                    and "BatchInverse" in repr(f_[1] if f_[0] == "truthy" else f_[2]) for f_ in e.facts)
        if not avail:
          probs.append("formula branch is used without testing that the shared inverse exists")
    ctx.record(R, f.where, "shared-inverse routing", not probs, "; ".join(sorted(set(probs))) or
               "inverse requested iff all operands finite; formula iff inverse available; otherwise scalar fall-back on the same operands")
  # ---- BatchInverse
  f, w = walk(repo, "BatchInverse")
  fn = f.node
  loops = [n for n in fn.body if isinstance(n, ast.For)]
  probs = []
  if len(loops) != 2:
    probs.append("expected a forward and a backward pass")
  else:
    tests = []
    for lp in loops:
      ifs = [x for x in lp.body if isinstance(x, ast.If)]
      if len(ifs) != 1 or ifs[0].orelse:
        probs.append("pass does not have a single skip test")
      else:
        tests.append(norm(ifs[0].test))
    if len(tests) == 2 and tests[0] != tests[1]:
      probs.append("the two passes skip different entries (%s vs %s)" % tuple(tests))
    if ast.unparse(loops[1].iter).replace(" ", "") != "range(len(values)-1,-1,-1)":
      probs.append("backward pass does not run from the last to the first entry")
  raises = [e for e in w.events if e.kind == "raise"]
  if not any(any(f_[0] == "cmp" and f_[1] == "NotEq" and as_poly(f_[3]) == Poly.const(1) for f_ in e.facts) for e in raises):
    probs.append("final self-check `inverse != 1 -> raise` missing")
  inv = [e for e in w.events if e.kind == "call" and e.data["name"] == "ext:gmpy2.invert"]
  if len({id(e.node) for e in inv}) != 1 or any(as_poly(e.data["args"][1]) != M for e in inv):
    probs.append("exactly one modular inversion modulo self.mod expected")
  ctx.record(R, f.where, "skip test / self-check", not probs, "; ".join(probs) or "both passes skip falsy entries with the same test; one inversion; final invariant check")


# ------------------------------------------------------------------ CURVES
def rule_curves(ctx):
  R = "R-C11-CURVES"
  repo = ctx.repo
  from .c18 import curve_table
  ent = curve_table(repo)
  tier = ctx.tier
  names = {}
  for key, kind, node in ent:
    if kind != "curve":
      continue
    kw = {}
    for k in node.keywords:
      kw[k.arg] = fold.try_fold(k.value)
    if node.args:
      ctx.incomplete(R, MODN + ":CURVE_FACTORY", key, "positional EcCurve arguments are not modelled")
      continue
    need = ("name", "a", "b", "mod", "gx", "gy", "n")
    if any(kw.get(x) is None for x in need):
      ctx.incomplete(R, MODN + ":CURVE_FACTORY", key, "curve parameter is not a foldable literal: %s" % [x for x in need if kw.get(x) is None])
      continue
    a, b, p, gx, gy, n, h = kw["a"], kw["b"], kw["mod"], kw["gx"], kw["gy"], kw["n"], kw.get("h", 1)
    probs = []
    if not refmath.is_probable_prime(p):
      probs.append("field modulus is not prime")
    if not refmath.is_probable_prime(n):
      probs.append("group order n is not prime")
    if (4 * a ** 3 + 27 * b ** 2) % p == 0:
      probs.append("curve is singular")
    if (gy * gy - (gx ** 3 + a * gx + b)) % p != 0:
      probs.append("generator is not on the curve")
    if not (0 <= gx < p and 0 <= gy < p):
      probs.append("generator coordinates out of range")
    if not probs and refmath.is_probable_prime(p):
      if refmath.ec_mul(n, (gx, gy), a, p) is not None:
        probs.append("n * G is not the point at infinity")
    # Hasse bound with cofactor h
    if p and (abs(p + 1 - n * h)) ** 2 > 4 * p:
      probs.append("|p + 1 - h*n| exceeds the Hasse bound 2*sqrt(p): the stated cofactor/order is inconsistent")
    if h != 1:
      probs.append("cofactor %r for a prime-order NIST/brainpool curve" % (h,))
    cname = key.split(".")[-1]
    want = cname.replace("CURVE_", "").lower()
    if str(kw["name"]).lower() != want:
      probs.append("name %r does not match the enum id %s" % (kw["name"], cname))
    if kw["name"] in names:
      probs.append("duplicate curve name")
    names[kw["name"]] = key
    ctx.record(R, MODN + ":CURVE_FACTORY", cname, not probs, "; ".join(probs) or
               "prime field (%d bits), non-singular, G on curve, n prime, n*G = inf, Hasse-consistent with h = 1, name matches id" % p.bit_length())
