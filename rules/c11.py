"""C11 - elliptic-curve arithmetic is the group law (formula identities, special-case dispatch, curve constants)."""
from __future__ import annotations
import ast
from pcstatic import sym, fold, refmath
from pcstatic.core import Incomplete
from pcstatic.loader import norm
from pcstatic.poly import Poly, Atom, P
from pcstatic.sym import Const, Seq, as_poly
from .ecsym import mod_strip, Frac, to_frac, inverse_atoms, affine_add, affine_double

META = {
    "level": "proof",
    "trusted_base": ["Python ast parser", "gmpy2.invert(x, m) * x == 1 (mod m)", "`% mod` preserves congruence", "pcstatic walker + exact polynomial arithmetic",
                     "checker-side affine EC arithmetic and Miller-Rabin (40 fixed bases) for the curve constants"],
    "assumptions": ["BatchInverse: declared invariants of Montgomery's trick checked per path in an exponent domain (R-C11-BATCHINV); gmpy2.invert(x, p) * x == 1 (mod p) for x != 0 (mod p)",
                    "comb: the bit-decomposition identity sum_i 2^i * ((s >> i) & mask) = s for 0 <= s < 2^(teeth*steps) is a stated lemma; its side conditions are checked",
                    "primality of mod and n is probabilistic (error <= 4^-40)"],
    "explanation": ("Every formula block of ec_util.EcCurve is evaluated symbolically to polynomials (reductions stripped as congruences, inverses cleared as "
                    "rational functions) and compared with the chord-and-tangent law as an exact rational identity; special-case dispatch is checked path by path; "
                    "the nine curve literals are validated with the checker's own arithmetic; the double-and-add loops are proved by induction on their stated invariant "
                    "res + n*p in a group-coefficient domain, the generator comb by reduction, tiling and Horner obligations."),
}
MODN = "ec_util"
INF = Seq([Const(None), Const(None)])


def curve_cls(repo):
  return repo.cls(MODN, "EcCurve")


def walk(repo, name):
  c = curve_cls(repo)
  f = c.methods.get(name)
  if f is None:
    raise Incomplete("EcCurve.%s vanished" % name, MODN)
  w = sym.Walker(repo, f)
  w.run()
  return f, w


SELF = P("param", "self")
M = sym.mk("attr", SELF, "mod")
A = sym.mk("attr", SELF, "a")


def comp(p, i):
  return sym.mk("idx", p, Poly.const(i))


def fr(p):
  return Frac(p)


def compare(code, spec, amap, facts=()):
  """code: Poly, spec: Frac -> (ok, residual text)"""
  c = mod_strip(as_poly(code), M)
  am = dict(amap)
  for a, fr_ in list(amap.items()):
    sa = mod_strip(Poly.atom(a), M).as_atom()      # reductions inside the atom's own arguments are stripped from the code term as well
    if sa is not None:
      am.setdefault(sa, fr_)
  for a, D in inverse_atoms(c, M).items():
    am[a] = Frac(Poly.const(1), mod_strip(D, M))
  # apply equalities like self.a == -3 from the path
  for f_ in facts:
    if f_[0] == "cmp" and f_[1] == "Eq" and isinstance(f_[2], Poly) and isinstance(f_[3], Poly):
      la, lb = f_[2].as_atom(), f_[3].as_int()
      if la is not None and lb is not None:
        am[la] = Frac(Poly.const(lb))
  cf = to_frac(c, am)
  sf = Frac(spec.n, spec.d)
  # substitute the same equalities on the spec side
  sub = {a: v for a, v in am.items() if a.kind == "attr"}
  if sub:
    sf = Frac(to_frac(spec.n, sub).n * to_frac(spec.d, sub).d, to_frac(spec.d, sub).n * to_frac(spec.n, sub).d)
  if cf.equals(sf):
    return True, ""
  r = cf.residual(sf)
  return False, "%d-term residual, e.g. %s" % (len(r.t), repr(Poly(dict(list(r.t.items())[:2])))[:160])


def run(ctx):
  rule_formula(ctx)
  rule_dispatch(ctx)
  rule_curves(ctx)
  rule_scalar(ctx)
  rule_comb(ctx)
  rule_batchinv(ctx)
  ctx.expect("R-C11-BATCHINV", 1, "BatchInverse")
  # BatchMultiplyG reads multiples of *this curve's* generator from a memo: the memo must belong to the curve object (shared with C17)
  from . import c17
  ctx.borrow(c17.rule_stateless, "R-C11-COMB", lambda r: r.where.endswith("BatchMultiplyG"))
  ctx.expect("R-C11-COMB", 4, "reduction, multiplier, tiling, Horner")
  ctx.expect("R-C11-SCALAR", 2, "Multiply and MultiplyAffine")
  ctx.expect("R-C11-FORMULA", 18, "16 formula blocks")
  ctx.expect("R-C11-DISPATCH", 12, "special-case tables")
  ctx.expect("R-C11-CURVES", 10, "nine curves + constructor")


# ------------------------------------------------------------------ FORMULA
def batch_inverse_map(w, val):
  """atoms v = idx(self.BatchInverse(ARG), j) in val -> Frac(1, D(j))"""
  out = {}
  for a in as_poly(val).all_atoms():
    if a.kind != "idx":
      continue
    base = a.args[0].as_atom()
    if base is None or base.kind != "mcall" or base.args[1] != P("lit", "BatchInverse"):
      continue
    arg = base.args[2]
    j = a.args[1]
    aa = arg.as_atom()
    D = None
    if aa is not None and aa.kind == "map":
      D = sym.mk("idx", arg, j)
      da = D.as_atom()
      if da is not None and da.kind == "ite" and len(da.args) == 3:
        # [den if finite else None for ..]: where an inverse exists, it is the inverse of the non-None branch
        br = [x for x in da.args[1:] if not (isinstance(x, Poly) and repr(x) == "lit('None')")]
        if len(br) == 1:
          D = as_poly(br[0])
    elif aa is not None and aa.kind == "sym":
      # list filled by stores in an earlier loop
      for info in w.loop_info.values():
        for v in info.get("visits", []):
          for var, after in v.get("after_env", {}).items():
            if isinstance(after, Poly) and after == arg:
              vals = set()
              for kind, val_, s, since, vis in info["body_paths"]:
                if vis is not v:
                  continue
                for i in s.trace[since:]:
                  e = w.events[i]
                  if e.kind == "store" and isinstance(e.data["target"].value, ast.Name) and e.data["target"].value.id == var:
                    if as_poly(e.data["index"]) != v["k"]:
                      return None
                    vals.add(sym.rebuild(as_poly(e.data["value"]).deep_subst(v["k"].as_atom(), j)))
              if len(vals) == 1:
                D = vals.pop()
    if D is None:
      return None
    out[a] = Frac(Poly.const(1), mod_strip(D, M))
  return out


def rule_formula(ctx):
  R = "R-C11-FORMULA"
  repo = ctx.repo
  p, q = P("param", "p"), P("param", "q")
  # ---- Add
  f, w = walk(repo, "Add")
  n = 0
  for e in w.events:
    if e.kind == "return" and isinstance(e.data["value"], Seq) and len(e.data["value"].items) == 2 and not all(isinstance(x, Const) for x in e.data["value"].items):
      n += 1
      x1, y1, x2, y2 = fr(comp(p, 0)), fr(comp(p, 1)), fr(comp(q, 0)), fr(comp(q, 1))
      sx, sy = affine_add(x1, y1, x2, y2)
      okx, rx = compare(e.data["value"].items[0], sx, {})
      oky, ry = compare(e.data["value"].items[1], sy, {})
      ctx.record(R, f.where, "generic branch", okx and oky, "x3 = l^2 - x1 - x2, y3 = l(x1 - x3) - y1, l = (y1-y2)/(x1-x2)" if okx and oky else
                 "affine addition differs from the chord law: x %s y %s" % (rx, ry))
  if n != 1:
    ctx.incomplete(R, f.where, "generic branch", "expected one formula return, found %d" % n)
  # ---- Double
  f, w = walk(repo, "Double")
  n = 0
  for e in w.events:
    if e.kind == "return" and isinstance(e.data["value"], Seq) and len(e.data["value"].items) == 2 and not all(isinstance(x, Const) for x in e.data["value"].items):
      n += 1
      x, y = fr(comp(p, 0)), fr(comp(p, 1))
      sx, sy = affine_double(x, y, fr(A))
      okx, rx = compare(e.data["value"].items[0], sx, {})
      oky, ry = compare(e.data["value"].items[1], sy, {})
      ctx.record(R, f.where, "tangent", okx and oky, "l = (3x^2 + a)/(2y)" if okx and oky else "doubling differs from the tangent law: x %s y %s" % (rx, ry))
  if n != 1:
    ctx.incomplete(R, f.where, "tangent", "expected one formula return, found %d" % n)
  # ---- Negate
  f, w = walk(repo, "Negate")
  ok = False
  for e in w.events:
    if e.kind == "return" and isinstance(e.data["value"], Seq):
      v = e.data["value"].items
      if len(v) == 2 and as_poly(v[0]) == comp(p, 0) and (mod_strip(as_poly(v[1]), M) + comp(p, 1)).is_zero():
        ok = True
  ctx.record(R, f.where, "(x, -y mod p)", ok, "negation law" if ok else "Negate does not return (x, -y mod p)")
  # ---- Subtract
  f, w = walk(repo, "Subtract")
  ok = False
  for e in w.events:
    if e.kind == "return":
      v = as_poly(e.data["value"])
      want = sym.mk("mcall", SELF, P("lit", "Add"), p, sym.mk("mcall", SELF, P("lit", "Negate"), q))
      ok = v == want
  ctx.record(R, f.where, "Add(p, Negate(q))", ok, "subtraction = addition of the negative" if ok else "Subtract is not Add(p, Negate(q))")
  # ---- Double: a return of the point at infinity for a finite point is right only for y = 0 (vertical tangent)
  f, w = walk(repo, "Double")
  okv = True
  nv = 0
  for e in w.events:
    if e.kind == "return" and has_fact(e.facts, "cmp", "NotEq", p, INF) and same(e.data["value"], INF):
      nv += 1
      if not (coord_fact(e.facts, "Eq", comp(p, 1), Poly.const(0))):
        okv = False
  if nv:
    ctx.record(R, f.where, "2-torsion", okv, "infinity is returned for a finite point only when y = 0 (mod p): the tangent is vertical" if okv else
               "Double returns the point at infinity for a finite point with y != 0")
  # ---- DoubleJacobian
  f, w = walk(repo, "DoubleJacobian")
  n = 0
  for e in w.events:
    if e.kind == "return" and isinstance(e.data["value"], Seq) and len(e.data["value"].items) == 3 and not all(as_poly(x).as_int() is not None for x in e.data["value"].items):
      n += 1
      X, Y, Z = fr(comp(p, 0)), fr(comp(p, 1)), fr(comp(p, 2))
      px, py = X / (Z * Z), Y / (Z * Z * Z)
      dx, dy = affine_double(px, py, fr(A))
      x2, y2, z2 = [mod_strip(as_poly(v), M) for v in e.data["value"].items]
      z2f = Frac(z2)
      shortcut = any(f_[0] == "cmp" and f_[1] == "Eq" and as_poly(f_[2]) == A for f_ in e.facts)
      okx, rx = compare_frac(Frac(x2) / (z2f * z2f), dx, e.facts)
      oky, ry = compare_frac(Frac(y2) / (z2f * z2f * z2f), dy, e.facts)
      ctx.record(R, f.where, "a = -3 shortcut" if shortcut else "generic a", okx and oky,
                 "(X3/Z3^2, Y3/Z3^3) = 2*(X/Z^2, Y/Z^3)" if okx and oky else "Jacobian doubling differs from the affine law: x %s y %s" % (rx, ry))
  if n != 2:
    ctx.incomplete(R, f.where, "formula branches", "expected two formula returns (a = -3 and generic), found %d" % n)
  # ---- AddJacobian
  f, w = walk(repo, "AddJacobian")
  n = 0
  for e in w.events:
    if e.kind == "return" and isinstance(e.data["value"], Seq) and len(e.data["value"].items) == 3 and not all(as_poly(x).as_int() is not None for x in e.data["value"].items):
      n += 1
      X1, Y1, Z1 = fr(comp(p, 0)), fr(comp(p, 1)), fr(comp(p, 2))
      X2, Y2, Z2 = fr(comp(q, 0)), fr(comp(q, 1)), fr(comp(q, 2))
      sx, sy = affine_add(X1 / (Z1 * Z1), Y1 / (Z1 * Z1 * Z1), X2 / (Z2 * Z2), Y2 / (Z2 * Z2 * Z2))
      x3, y3, z3 = [mod_strip(as_poly(v), M) for v in e.data["value"].items]
      z3f = Frac(z3)
      okx, rx = compare_frac(Frac(x3) / (z3f * z3f), sx, e.facts)
      oky, ry = compare_frac(Frac(y3) / (z3f * z3f * z3f), sy, e.facts)
      ctx.record(R, f.where, "generic branch", okx and oky, "(X3/Z3^2, Y3/Z3^3) = affine sum of the operands" if okx and oky else
                 "Jacobian addition differs from the affine law: x %s y %s" % (rx, ry))
  if n != 1:
    ctx.incomplete(R, f.where, "generic branch", "expected one formula return, found %d" % n)
  # ---- JacobianToAffine
  f, w = walk(repo, "JacobianToAffine")
  n = 0
  for e in w.events:
    if e.kind == "return" and isinstance(e.data["value"], Seq) and len(e.data["value"].items) == 2 and not all(isinstance(x, Const) for x in e.data["value"].items):
      n += 1
      X, Y, Z = fr(comp(p, 0)), fr(comp(p, 1)), fr(comp(p, 2))
      okx, rx = compare(e.data["value"].items[0], X / (Z * Z), {})
      oky, ry = compare(e.data["value"].items[1], Y / (Z * Z * Z), {})
      ctx.record(R, f.where, "(X/Z^2, Y/Z^3)", okx and oky, "affine coordinates" if okx and oky else "conversion differs: x %s y %s" % (rx, ry))
  if n != 1:
    ctx.incomplete(R, f.where, "(X/Z^2, Y/Z^3)", "expected one formula return")
  # ---- AffineToJacobian: (x, y) -> (x, y, 1); infinity -> a triple with z = 0
  f, w = walk(repo, "AffineToJacobian")
  probs = []
  rets = [e for e in w.events if e.kind == "return"]
  fin = [e for e in rets if has_fact(e.facts, "cmp", "NotEq", p, INF)]
  inf = [e for e in rets if has_fact(e.facts, "cmp", "Eq", p, INF)]
  if not fin or not inf or len(fin) + len(inf) != len(rets):
    probs.append("the conversion does not distinguish the point at infinity from finite points")
  for e in fin:
    v = e.data["value"]
    if not (isinstance(v, Seq) and len(v.items) == 3 and as_poly(v.items[0]) == comp(p, 0) and as_poly(v.items[1]) == comp(p, 1) and as_poly(v.items[2]).as_int() == 1):
      probs.append("a finite point is converted to %r, not to (x, y, 1)" % (v,))
  for e in inf:
    v = e.data["value"]
    if not (isinstance(v, Seq) and len(v.items) == 3 and as_poly(v.items[2]).is_zero() and not as_poly(v.items[1]).is_zero()):
      probs.append("the point at infinity is converted to %r, not to a triple with z = 0" % (v,))
  ctx.record(R, f.where, "(x, y, 1)", not probs, "; ".join(sorted(set(probs))) or "finite -> (x, y, 1); infinity -> (1, 1, 0)")
  # ---- batched variants
  pl, ql, pts = P("param", "p_list"), P("param", "q_list"), P("param", "points")
  def result_vars(w):
    """names of the list variables whose final value is returned (a single list, or the items of a returned tuple), in return order"""
    names = []
    for kind_, val_, st_ in w.terminals:
      if kind_ != "return":
        continue
      items = list(val_.items) if isinstance(val_, Seq) else [val_]
      for it_ in items:
        if not isinstance(it_, Poly):
          continue
        for nm_, x_ in st_.env.items():
          if isinstance(x_, Poly) and x_ == it_ and nm_ not in names and any(e.kind == "store" and isinstance(e.data["target"].value, ast.Name) and e.data["target"].value.id == nm_ for e in w.events):
            names.append(nm_)
    return names

  def stores(w, var=None):
    out = []
    for e in w.events:
      if e.kind == "store" and isinstance(e.data["target"].value, ast.Name) and (var is None or e.data["target"].value.id == var):
        out.append(e)
    if var is not None and not out:
      # the result list under another name: whatever list is filled element-wise and returned
      rv = result_vars(w)
      out = [e for e in w.events if e.kind == "store" and isinstance(e.data["target"].value, ast.Name) and e.data["target"].value.id in rv]
    return out
  # BatchJacobianToX / Affine
  for name, twod in (("BatchJacobianToX", False), ("BatchJacobianToAffine", True)):
    f, w = walk(repo, name)
    n = 0
    for e in stores(w, "res"):
      v = e.data["value"]
      if isinstance(v, Seq) and all(isinstance(x, Const) for x in v.items):
        continue
      k = as_poly(e.data["index"])
      pt = sym.mk("idx", pl, k)
      X, Y, Z = fr(comp(pt, 0)), fr(comp(pt, 1)), fr(comp(pt, 2))
      am = batch_inverse_map(w, P("seq", *[as_poly(x) for x in (v.items if isinstance(v, Seq) else [v])]))
      if am is None:
        ctx.incomplete(R, f.where, "inverse provenance", "cannot relate the shared inverse to its denominator")
        continue
      n += 1
      if twod:
        okx, rx = compare(v.items[0], X / (Z * Z), am)
        oky, ry = compare(v.items[1], Y / (Z * Z * Z), am)
      else:
        okx, rx = compare(v, X / (Z * Z), am)
        oky, ry = True, ""
      ctx.record(R, f.where, "x*w^2%s with w = 1/z" % (", y*w^3" if twod else ""), okx and oky, "affine coordinates via the shared inverse" if okx and oky else
                 "conversion differs: x %s y %s" % (rx, ry))
    if n < 1:
      ctx.incomplete(R, f.where, "formula", "no formula store found")
    # dispatch: BatchInverse answers None exactly for z = 0 (the point at infinity): the formula is stored only where the inverse is known not to be None,
    # the point at infinity (or nothing, for the x-only variant that starts from None) only where it is known to be None
    dprobs = []
    for e in stores(w, "res"):
      if e.data.get("synthetic"):
        continue
      v = e.data["value"]
      const_store = (isinstance(v, Seq) and all(isinstance(x, Const) for x in v.items)) or isinstance(v, Const)
      invs = [t_ for x_ in (v.items if isinstance(v, Seq) else [v]) if isinstance(x_, Poly) for t_ in x_.all_atoms()
              if t_.kind == "idx" and "BatchInverse" in repr(t_.args[0])]
      def knows(is_none):
        op = "Is" if is_none else "IsNot"
        return any(fc[0] == "cmp" and fc[1] == op and isinstance(fc[2], Poly) and "BatchInverse" in repr(fc[2]) and isinstance(fc[3], Const) and fc[3].v is None for fc in e.facts) or \
            (not is_none and any(fc[0] == "truthy" and isinstance(fc[1], Poly) and "BatchInverse" in repr(fc[1]) for fc in e.facts))
      if const_store and not knows(True):
        dprobs.append("the point at infinity is stored on a path that does not know the shared inverse is None (z = 0)")
      if not const_store and invs and not knows(False):
        dprobs.append("the conversion formula is applied on a path that does not know the shared inverse exists (z != 0)")
    ctx.record(R, f.where, "infinity <=> no inverse (z = 0)", not dprobs, "; ".join(sorted(set(dprobs))) or "formula only where the inverse exists, infinity only where it does not")
  # BatchAddList
  f, w = walk(repo, "BatchAddList")
  n = 0
  for e in stores(w, "res"):
    v = e.data["value"]
    if not isinstance(v, Seq) or all(isinstance(x, Const) for x in v.items) or len(v.items) != 2:
      continue
    k = as_poly(e.data["index"])
    P1, Q1 = sym.mk("idx", pl, k), sym.mk("idx", ql, k)
    am = batch_inverse_map(w, P("seq", *[as_poly(x) for x in v.items]))
    if am is None:
      ctx.incomplete(R, f.where, "inverse provenance", "cannot relate the shared inverse to its denominator")
      continue
    n += 1
    sx, sy = affine_add(fr(comp(P1, 0)), fr(comp(P1, 1)), fr(comp(Q1, 0)), fr(comp(Q1, 1)))
    okx, rx = compare(v.items[0], sx, am)
    oky, ry = compare(v.items[1], sy, am)
    ctx.record(R, f.where, "formula branch", okx and oky, "chord law with the shared inverse of x_p - x_q" if okx and oky else "differs: x %s y %s" % (rx, ry))
  if n != 1:
    ctx.incomplete(R, f.where, "formula branch", "expected one formula store, found %d" % n)
  # BatchDouble
  f, w = walk(repo, "BatchDouble")
  n = 0
  for e in stores(w, "res"):
    v = e.data["value"]
    if not isinstance(v, Seq) or all(isinstance(x, Const) for x in v.items) or len(v.items) != 2:
      continue
    k = as_poly(e.data["index"])
    P1 = sym.mk("idx", pl, k)
    am = batch_inverse_map(w, P("seq", *[as_poly(x) for x in v.items]))
    if am is None:
      ctx.incomplete(R, f.where, "inverse provenance", "cannot relate the shared inverse to its denominator")
      continue
    n += 1
    sx, sy = affine_double(fr(comp(P1, 0)), fr(comp(P1, 1)), fr(A))
    okx, rx = compare(v.items[0], sx, am)
    oky, ry = compare(v.items[1], sy, am)
    ctx.record(R, f.where, "formula branch", okx and oky, "tangent law with the shared inverse of 2y" if okx and oky else "differs: x %s y %s" % (rx, ry))
  if n != 1:
    ctx.incomplete(R, f.where, "formula branch", "expected one formula store, found %d" % n)
  # BatchAdd / BatchAddX / BatchAddSubtractX
  for name, targets in (("BatchAdd", {"res": "sum2"}), ("BatchAddX", {"tmp": "sumx"}), ("BatchAddSubtractX", {"sums": "sumx", "diffs": "diffx"})):
    f, w = walk(repo, name)
    seen = {}
    rv_ = result_vars(w)
    if len(rv_) == len(targets):
      # roles by position: the returned lists, in return order (whatever they are called)
      targets = dict(zip(rv_, targets.values()))
    for e in stores(w):
      var = e.data["target"].value.id
      if var not in targets:
        continue
      v = e.data["value"]
      if isinstance(v, Seq) and all(isinstance(x, Const) for x in v.items):
        continue
      vp = P("seq", *[as_poly(x) for x in v.items]) if isinstance(v, Seq) else as_poly(v)
      if not any(a.kind == "idx" and a.args[0].as_atom() is not None and a.args[0].as_atom().kind == "mcall" and a.args[0].as_atom().args[1] == P("lit", "BatchInverse")
                 for a in vp.all_atoms()):
        continue   # inverse request (first loop) or scalar fall-back
      k = as_poly(e.data["index"])
      Q1 = sym.mk("idx", pts, k)
      am = batch_inverse_map(w, vp)
      if am is None:
        ctx.incomplete(R, f.where, "inverse provenance", "cannot relate the shared inverse to its denominator")
        continue
      x1, y1, x2, y2 = fr(comp(p, 0)), fr(comp(p, 1)), fr(comp(Q1, 0)), fr(comp(Q1, 1))
      kind = targets[var]
      if kind == "diffx":
        sx, sy = affine_add(x1, y1, x2, -y2)
      else:
        sx, sy = affine_add(x1, y1, x2, y2)
      if kind == "sum2":
        okx, rx = compare(v.items[0], sx, am)
        oky, ry = compare(v.items[1], sy, am)
      else:
        okx, rx = compare(v, sx, am)
        oky, ry = True, ""
      seen[var] = True
      ctx.record(R, f.where, "%s formula branch" % var, okx and oky, {"sum2": "p + points[i]", "sumx": "x(p + points[i])", "diffx": "x(p - points[i])"}[kind] if okx and oky
                 else "differs from the chord law: x %s y %s" % (rx, ry))
    for var in targets:
      if var not in seen:
        ctx.incomplete(R, f.where, "%s formula branch" % var, "formula store not found")


def compare_frac(cf, spec, facts):
  am = {}
  for f_ in facts:
    if f_[0] == "cmp" and f_[1] == "Eq" and isinstance(f_[2], Poly) and isinstance(f_[3], Poly):
      la, lb = f_[2].as_atom(), f_[3].as_int()
      if la is not None and lb is not None and la.kind == "attr":
        am[la] = Frac(Poly.const(lb))
  if am:
    cn, cd, sn, sd = to_frac(cf.n, am), to_frac(cf.d, am), to_frac(spec.n, am), to_frac(spec.d, am)
    cf = cn / cd
    spec = sn / sd
  if cf.equals(spec):
    return True, ""
  r = cf.residual(spec)
  return False, "%d-term residual" % len(r.t)


# ------------------------------------------------------------------ DISPATCH
def coord_fact(facts, op, a, b):
  """a == b / a != b as integers, or as residues: (a - b) % self.mod == 0 / != 0."""
  if has_fact(facts, "cmp", op, a, b):
    return True
  zero = Poly.const(0)
  return has_fact(facts, "cmp", op, sym.mk("mod", a - b, M), zero) or has_fact(facts, "cmp", op, sym.mk("mod", b - a, M), zero)


def has_fact(facts, kind, op, a, b):
  for f_ in facts:
    if f_[0] == kind and f_[1] == op:
      x, y = f_[2], f_[3]
      if (same(x, a) and same(y, b)) or (same(x, b) and same(y, a)):
        return True
  return False


def same(x, y):
  if isinstance(x, Seq) or isinstance(y, Seq) or isinstance(x, Const) or isinstance(y, Const):
    return repr(x) == repr(y)
  return as_poly(x) == as_poly(y)


def rule_dispatch(ctx):
  R = "R-C11-DISPATCH"
  repo = ctx.repo
  p, q = P("param", "p"), P("param", "q")
  # ---- Add
  f, w = walk(repo, "Add")
  rows = {"q": False, "p": False, "double": False, "inf": False, "formula": False}
  bad = []
  for e in w.events:
    if e.kind != "return":
      continue
    v = e.data["value"]
    fs = e.facts
    p_inf = has_fact(fs, "cmp", "Eq", p, INF)
    q_inf = has_fact(fs, "cmp", "Eq", q, INF)
    xeq = coord_fact(fs, "Eq", comp(p, 0), comp(q, 0))
    yeq = coord_fact(fs, "Eq", comp(p, 1), comp(q, 1))
    yne = coord_fact(fs, "NotEq", comp(p, 1), comp(q, 1))
    xne = coord_fact(fs, "NotEq", comp(p, 0), comp(q, 0))
    if p_inf:
      rows["q"] = same(v, q) or bad.append("inf + q does not return q")
    elif q_inf:
      rows["p"] = same(v, p) or bad.append("p + inf does not return p")
    elif xeq and yeq:
      rows["double"] = as_poly(v) == sym.mk("mcall", SELF, P("lit", "Double"), p) or as_poly(v) == sym.mk("mcall", SELF, P("lit", "Double"), q) or bad.append("p + p is not Double(p)")
    elif xeq and yne:
      rows["inf"] = same(v, INF) or bad.append("p + (-p) is not the point at infinity")
    elif xne:
      rows["formula"] = isinstance(v, Seq) and len(v.items) == 2
    else:
      bad.append("unclassified return %s" % (norm(e.node) if e.node else "implicit"))
  ok = all(rows.values()) and not bad
  ctx.record(R, f.where, "special cases", ok, "inf+q=q, p+inf=p, p+p=Double(p), p+(-p)=inf, else chord formula" if ok else
             "dispatch table incomplete/wrong: %s %s" % ({k: bool(v) for k, v in rows.items()}, [b for b in bad if b]))
  # ---- Double / Negate on infinity
  for name in ("Double", "Negate"):
    f, w = walk(repo, name)
    ok = any(e.kind == "return" and has_fact(e.facts, "cmp", "Eq", p, INF) and same(e.data["value"], p) for e in w.events) and \
        all(not (e.kind == "return" and isinstance(e.data["value"], Seq) and len(e.data["value"].items) == 2 and not all(isinstance(x, Const) for x in e.data["value"].items))
            or has_fact(e.facts, "cmp", "NotEq", p, INF) for e in w.events)
    ctx.record(R, f.where, "infinity", ok, "%s(inf) = inf, formula only for finite points" % name if ok else "infinity is not handled before the formula")
  # ---- DoubleJacobian
  f, w = walk(repo, "DoubleJacobian")
  INFJ = Seq([Poly.const(1), Poly.const(1), Poly.const(0)])
  z, y = comp(p, 2), comp(p, 1)
  okspecial = False
  okformula = True
  for e in w.events:
    if e.kind != "return":
      continue
    v = e.data["value"]
    if isinstance(v, Seq) and all(as_poly(x).as_int() is not None for x in v.items):
      if repr([as_poly(x) for x in v.items]) == repr([as_poly(x) for x in INFJ.items]):
        okspecial = True
    else:
      if not (has_fact(e.facts, "cmp", "NotEq", z, Poly.const(0)) and has_fact(e.facts, "cmp", "NotEq", y, Poly.const(0))):
        okformula = False
  ctx.record(R, f.where, "z = 0 or y = 0 -> infinity", okspecial and okformula, "formula only for z != 0 and y != 0" if okspecial and okformula else
             "doubling formula reachable with z = 0 or y = 0 (2-torsion / infinity)")
  # ---- AddJacobian
  f, w = walk(repo, "AddJacobian")
  rows = {"q": False, "p": False, "inf": False, "double": False, "formula": False}
  bad = []
  for e in w.events:
    if e.kind != "return":
      continue
    v = e.data["value"]
    fs = e.facts
    z1z = has_fact(fs, "cmp", "Eq", comp(p, 2), Poly.const(0))
    z2z = has_fact(fs, "cmp", "Eq", comp(q, 2), Poly.const(0))
    eqs = [f_ for f_ in fs if f_[0] == "cmp" and f_[1] == "Eq" and isinstance(f_[2], Poly) and f_[2].as_atom() is not None and f_[2].as_atom().kind == "mod"]
    nes = [f_ for f_ in fs if f_[0] == "cmp" and f_[1] == "NotEq" and isinstance(f_[2], Poly) and f_[2].as_atom() is not None and f_[2].as_atom().kind == "mod"]
    if z1z:
      rows["q"] = same(v, q) or bad.append("inf + q")
    elif z2z:
      rows["p"] = same(v, p) or bad.append("p + inf")
    elif len(eqs) == 1 and len(nes) == 1:
      # u1 == u2, s1 != s2
      rows["inf"] = (isinstance(v, Seq) and [as_poly(x).as_int() for x in v.items] == [1, 1, 0]) or bad.append("opposite points")
    elif len(eqs) == 2:
      rows["double"] = as_poly(v) == sym.mk("mcall", SELF, P("lit", "DoubleJacobian"), p) or as_poly(v) == sym.mk("mcall", SELF, P("lit", "DoubleJacobian"), q) or bad.append("equal points")
    elif len(nes) == 1 and not eqs:
      rows["formula"] = isinstance(v, Seq) and len(v.items) == 3
      # the tested quantities must be u1 = x1*z2^2 and u2 = x2*z1^2
      u = nes[0]
      U1 = mod_strip(as_poly(u[2]), M)
      U2 = mod_strip(as_poly(u[3]), M)
      want = {repr(comp(p, 0) * comp(q, 2) ** 2), repr(comp(q, 0) * comp(p, 2) ** 2)}
      if {repr(U1), repr(U2)} != want:
        bad.append("x-coordinates are not compared as x1*z2^2 vs x2*z1^2")
    else:
      bad.append("unclassified return")
  ok = all(rows.values()) and not [b for b in bad if b]
  ctx.record(R, f.where, "special cases", ok, "z1=0 -> q, z2=0 -> p, u1=u2 & s1!=s2 -> inf, u1=u2 & s1=s2 -> double, else formula" if ok else
             "dispatch table incomplete/wrong: %s %s" % ({k: bool(v) for k, v in rows.items()}, [b for b in bad if b]))
  # ---- JacobianToAffine z == 0
  f, w = walk(repo, "JacobianToAffine")
  ok = any(e.kind == "return" and same(e.data["value"], INF) and has_fact(e.facts, "cmp", "Eq", comp(p, 2), Poly.const(0)) for e in w.events) and \
      all(has_fact(e.facts, "cmp", "NotEq", comp(p, 2), Poly.const(0)) for e in w.events if e.kind == "return" and isinstance(e.data["value"], Seq) and not same(e.data["value"], INF))
  ctx.record(R, f.where, "z = 0 -> infinity", ok, "inverse only taken for z != 0" if ok else "z = 0 is not mapped to infinity before inverting")
  # ---- batched variants
  for name, ops in (("BatchAddList", ("p_list", "q_list")), ("BatchDouble", ("p_list",)), ("BatchAdd", ("points",)), ("BatchAddX", ("points",)),
                    ("BatchAddSubtractX", ("points",))):
    f, w = walk(repo, name)
    probs = []
    # the lists handed to BatchInverse: filled by element stores in an earlier loop (value = exit value of that loop) or built by a comprehension
    binv_args = [as_poly(x.data["args"][0]) for x in w.events if x.kind == "call" and x.data["name"] == "meth:BatchInverse" and x.data["args"] and isinstance(x.data["args"][0], Poly)]
    req_vars = set()
    for info in w.loop_info.values():
      for v_ in info.get("visits", []):
        for var, after in v_.get("after_env", {}).items():
          if isinstance(after, Poly) and any(after == a_ for a_ in binv_args):
            req_vars.add(var)
    req = [e for e in w.events if e.kind == "store" and isinstance(e.data["target"].value, ast.Name) and e.data["target"].value.id in req_vars
           and "BatchInverse" not in repr(as_poly(e.data["value"]) if not isinstance(e.data["value"], Seq) else "")]
    req = [e for e in req if not any(x.kind == "call" and x.data["name"] == "meth:BatchInverse" for x in [w.events[i] for i in e.state.trace])]
    comp_req = []
    for a_ in binv_args:
      aa_ = a_.as_atom()
      if aa_ is not None and aa_.kind == "map" and len(aa_.args) == 3 and isinstance(aa_.args[0], Poly):
        ea_ = aa_.args[0].as_atom()
        if ea_ is not None and ea_.kind == "ite" and len(ea_.args) == 3 and ea_.args[0].as_atom() is not None:
          comp_req.append((sym.ITE_CONDS.get(ea_.args[0].as_atom().args[0]), ea_, aa_))
        else:
          comp_req.append((None, ea_, aa_))
    if not req and not comp_req:
      probs.append("no inverse is requested")
    for cnd, ea_, aa_ in comp_req:
      # [den if <all operands finite> else None for ..]: the condition must exclude the point at infinity for every operand
      txt = repr(cnd)
      bvp = Poly.atom(aa_.args[1]) if not isinstance(aa_.args[1], Poly) else aa_.args[1]
      for o in ops:
        el = sym.mk("idx", P("param", o), bvp)
        ok_el = cnd is not None and any(c_[0] == "cmp" and c_[1] in ("NotEq", "Eq") and ((as_poly(c_[2]) == el and same(c_[3], INF)) or (as_poly(c_[3]) == el and same(c_[2], INF)))
                                        for c_ in sym.cond_atoms(cnd) if not isinstance(c_[2], tuple))
        if not ok_el:
          probs.append("an inverse is requested although %s[i] may be the point at infinity" % o)
      if name in ("BatchAdd", "BatchAddX", "BatchAddSubtractX") and not any(has_fact(x.facts, "cmp", "NotEq", P("param", "p"), INF) for x in w.events if x.kind == "call" and x.data["name"] == "meth:BatchInverse"):
        probs.append("an inverse is requested although p may be the point at infinity")
    for e in req:
      k = as_poly(e.data["index"])
      for o in ops:
        el = sym.mk("idx", P("param", o), k)
        if not has_fact(e.facts, "cmp", "NotEq", el, INF):
          probs.append("an inverse is requested although %s[i] may be the point at infinity" % o)
      if name in ("BatchAdd", "BatchAddX", "BatchAddSubtractX") and not has_fact(e.facts, "cmp", "NotEq", P("param", "p"), INF):
        probs.append("an inverse is requested although p may be the point at infinity")
    # fall-back: stores of scalar calls exactly under a missing inverse
    n_fb = 0
    for e in w.events:
      if e.kind != "store":
        continue
      v = e.data["value"]
      vp = as_poly(v) if not isinstance(v, Seq) else None
      if vp is None:
        continue
      va = vp.as_atom()
      inner = va
      if va is not None and va.kind == "idx" and va.args[0].as_atom() is not None and va.args[0].as_atom().kind == "mcall":
        inner = va.args[0].as_atom()
      if inner is not None and inner.kind == "mcall" and inner.args[1] in (P("lit", "Add"), P("lit", "Double"), P("lit", "Subtract")):
        n_fb += 1
        missing = any((f_[0] == "falsy" or (f_[0] == "cmp" and f_[1] in ("Is", "Eq") and isinstance(f_[3], Const) and f_[3].v is None))
                      and "BatchInverse" in repr(f_[1] if f_[0] == "falsy" else f_[2]) for f_ in e.facts)
        if not missing:
          probs.append("scalar fall-back is not conditioned on a missing shared inverse")
        k = as_poly(e.data["index"])
        args = [x for x in inner.args[2:]]
        want = [sym.mk("idx", P("param", o), k) for o in ops]
        if name in ("BatchAdd", "BatchAddX", "BatchAddSubtractX"):
          want = [P("param", "p")] + want
        if [repr(a) for a in args] != [repr(a) for a in want]:
          probs.append("scalar fall-back is applied to the wrong operands")
    if n_fb == 0:
      probs.append("no scalar fall-back for elements without a shared inverse (equal / opposite / infinite points)")
    # every element gets a result: each pass of a loop that fills a result list stores into every list that loop fills (a pass without a store leaves
    # the placeholder - the point at infinity - as the sum)
    for li_ in w.loop_info.values():
      for vis_ in li_.get("visits", []):
        paths_ = [bp for bp in li_["body_paths"] if bp[4] is vis_]
        filled = {}
        for bp in paths_:
          for i_ in bp[2].trace[bp[3]:]:
            ev_ = w.events[i_]
            if ev_.kind == "store" and isinstance(ev_.data["target"].value, ast.Name) and (as_poly(ev_.data["index"]) - as_poly(vis_["k"])).is_zero():
              filled.setdefault(ev_.data["target"].value.id, set()).add(id(bp))
            elif ev_.kind == "mutate" and ev_.data["method"] == "append" and isinstance(ev_.data.get("target"), ast.Name):
              filled.setdefault(ev_.data["target"].id, set()).add(id(bp))          # res.append(v) in pass i fills res[i]
        calls_fb = any(w.events[i_].kind == "store" and "lit('Add')" in repr(w.events[i_].data["value"]) or w.events[i_].kind == "store" and "lit('Double')" in repr(w.events[i_].data["value"])
                       or w.events[i_].kind == "store" and "lit('Subtract')" in repr(w.events[i_].data["value"]) for bp in paths_ for i_ in bp[2].trace[bp[3]:])
        if not calls_fb:
          continue
        for var_, got in filled.items():
          for bp in paths_:
            if bp[0] in ("fall", "continue") and id(bp) not in got:
              probs.append("a pass of the result loop stores nothing into %s[i]: that element keeps its placeholder" % var_)
    # formula stores must be conditioned on an available inverse
    for e in w.events:
      if e.kind == "store" and any(a.kind == "idx" and a.args[0].as_atom() is not None and a.args[0].as_atom().kind == "mcall" and a.args[0].as_atom().args[1] == P("lit", "BatchInverse")
                                   for a in (as_poly(e.data["value"]) if not isinstance(e.data["value"], Seq) else P("seq", *[as_poly(x) for x in e.data["value"].items])).all_atoms()):
        va = (as_poly(e.data["value"]).as_atom() if not isinstance(e.data["value"], Seq) else None)
        if va is not None and va.kind == "idx" and va.args[0].as_atom().kind == "mcall":
          continue
        avail = any((f_[0] == "truthy" or (f_[0] == "cmp" and f_[1] in ("IsNot", "NotEq") and isinstance(f_[3], Const) and f_[3].v is None))
                    and "BatchInverse" in repr(f_[1] if f_[0] == "truthy" else f_[2]) for f_ in e.facts)
        if not avail:
          probs.append("formula branch is used without testing that the shared inverse exists")
    ctx.record(R, f.where, "shared-inverse routing", not probs, "; ".join(sorted(set(probs))) or
               "inverse requested iff all operands finite; formula iff inverse available; otherwise scalar fall-back on the same operands")
  # ---- BatchInverse: passes, skip tests and result are decided semantically by R-C11-BATCHINV; here only the single inversion modulo p
  f, w = walk(repo, "BatchInverse")
  probs = []
  inv = [e for e in w.events if e.kind == "call" and e.data["name"] == "ext:gmpy2.invert"]
  if len({id(e.node) for e in inv}) != 1 or any(as_poly(e.data["args"][1]) != M for e in inv):
    probs.append("exactly one modular inversion modulo self.mod expected")
  ctx.record(R, f.where, "one shared inversion", not probs, "; ".join(probs) or "a single gmpy2.invert(product, self.mod) serves the whole list")


# ------------------------------------------------------------------ CURVES
def rule_curves(ctx):
  R = "R-C11-CURVES"
  repo = ctx.repo
  from .c18 import curve_table
  ent = curve_table(repo)
  tier = ctx.tier
  names = {}
  for key, kind, node in ent:
    if kind != "curve":
      continue
    kw = {}
    for k in node.keywords:
      kw[k.arg] = fold.try_fold(k.value)
    if node.args:
      ctx.incomplete(R, MODN + ":CURVE_FACTORY", key, "positional EcCurve arguments are not modelled")
      continue
    need = ("name", "a", "b", "mod", "gx", "gy", "n")
    if any(kw.get(x) is None for x in need):
      ctx.incomplete(R, MODN + ":CURVE_FACTORY", key, "curve parameter is not a foldable literal: %s" % [x for x in need if kw.get(x) is None])
      continue
    a, b, p, gx, gy, n, h = kw["a"], kw["b"], kw["mod"], kw["gx"], kw["gy"], kw["n"], kw.get("h", 1)
    probs = []
    if not refmath.is_probable_prime(p):
      probs.append("field modulus is not prime")
    if not refmath.is_probable_prime(n):
      probs.append("group order n is not prime")
    if (4 * a ** 3 + 27 * b ** 2) % p == 0:
      probs.append("curve is singular")
    if (gy * gy - (gx ** 3 + a * gx + b)) % p != 0:
      probs.append("generator is not on the curve")
    if not (0 <= gx < p and 0 <= gy < p):
      probs.append("generator coordinates out of range")
    if not probs and refmath.is_probable_prime(p):
      if refmath.ec_mul(n, (gx, gy), a, p) is not None:
        probs.append("n * G is not the point at infinity")
    # Hasse bound with cofactor h
    if p and (abs(p + 1 - n * h)) ** 2 > 4 * p:
      probs.append("|p + 1 - h*n| exceeds the Hasse bound 2*sqrt(p): the stated cofactor/order is inconsistent")
    if h != 1:
      probs.append("cofactor %r for a prime-order NIST/brainpool curve" % (h,))
    cname = key.split(".")[-1]
    want = cname.replace("CURVE_", "").lower()
    if str(kw["name"]).lower() != want:
      probs.append("name %r does not match the enum id %s" % (kw["name"], cname))
    if kw["name"] in names:
      probs.append("duplicate curve name")
    names[kw["name"]] = key
    ctx.record(R, MODN + ":CURVE_FACTORY", cname, not probs, "; ".join(probs) or
               "prime field (%d bits), non-singular, G on curve, n prime, n*G = inf, Hasse-consistent with h = 1, name matches id" % p.bit_length())
  # the constructor keeps every parameter under its own attribute: the table above is only as good as what the instances remember of it
  f, w = walk(repo, "__init__")
  want = {"a": P("param", "a"), "b": P("param", "b"), "mod": P("param", "mod"), "n": P("param", "n"), "name": P("param", "name"), "h": P("param", "h")}
  got = {}
  for e in w.events:
    if e.kind == "setattr" and isinstance(e.data["base"], Poly) and e.data["base"] == P("param", "self"):
      got.setdefault(e.data["attr"], []).append(e.data["value"])
  probs = []
  for attr, val in want.items():
    vs = got.get(attr, [])
    if not vs or not all(isinstance(v, Poly) and v == val for v in vs):
      probs.append("self.%s is %s, not the parameter %s" % (attr, vs or "never set", attr))
  gv = got.get("g", [])
  if not gv or not all(isinstance(v, Seq) and len(v.items) == 2 and as_poly(v.items[0]) == P("param", "gx") and as_poly(v.items[1]) == P("param", "gy") for v in gv):
    probs.append("self.g is %s, not (gx, gy)" % (gv or "never set",))
  ctx.record(R, f.where, "constructor keeps each parameter under its own attribute", not probs, "; ".join(probs) or "a, b, mod, g = (gx, gy), n, name, h")


# ------------------------------------------------------------------ SCALAR: double-and-add loops keep res + n * p invariant
GROUP_OPS = {"Add": "add", "AddJacobian": "add", "Double": "dbl", "DoubleJacobian": "dbl", "Negate": "neg", "Subtract": "sub",
             "AffineToJacobian": "id", "JacobianToAffine": "id"}


def gcoef(v, zero=()):
  """Group element denoted by a point expression as an integer-linear form over ghost points (formulas themselves: R-C11-FORMULA /
  R-C11-DISPATCH).  None when the expression is not built from the curve's own point operations."""
  if isinstance(v, Seq):
    it = v.items
    if len(it) == 2 and all(isinstance(x, Const) and x.v is None for x in it):
      return Poly.const(0)
    if len(it) == 3:
      z = it[2]
      zi = z.v if isinstance(z, Const) else (as_poly(z).as_int())
      if zi == 0:
        return Poly.const(0)
    return None
  p = as_poly(v)
  if any(p == z for z in zero):
    return Poly.const(0)
  a = p.as_atom()
  if a is None:
    return None
  if a.kind == "mcall" and a.args[0] == SELF and isinstance(a.args[1], Poly) and a.args[1].as_atom() is not None:
    name = a.args[1].as_atom().args[0]
    op = GROUP_OPS.get(name)
    xs = [gcoef(x, zero) for x in a.args[2:]]
    if op is None or any(x is None for x in xs):
      return None
    if op == "add" and len(xs) == 2:
      return xs[0] + xs[1]
    if op == "sub" and len(xs) == 2:
      return xs[0] - xs[1]
    if op == "dbl" and len(xs) == 1:
      return xs[0] * 2
    if op == "neg" and len(xs) == 1:
      return -xs[0]
    if op == "id" and len(xs) == 1:
      return xs[0]
    return None
  if a.kind in ("param", "sym"):
    return Poly.atom(Atom("pt", a))
  return None


def rule_scalar(ctx):
  R = "R-C11-SCALAR"
  repo = ctx.repo
  for name in ("Multiply", "MultiplyAffine"):
    f, w = walk(repo, name)
    pp, pn = [P("param", x) for x in [q for q in f.params() if q != "self"][:2]]
    target = pn * Poly.atom(Atom("pt", pp.as_atom()))          # n * P
    probs = []
    proved = []
    loops = [i for i in w.loop_info.values() if isinstance(i["node"], ast.While)]
    exit_K = {}       # id(after symbol of acc) -> (K, cnt after symbol)
    for info in loops:
      for vis in info["visits"]:
        head, pre, after = vis["head"].env, vis["pre_env"], vis["after_env"]
        paths = [bp for bp in info["body_paths"] if bp[4] is vis]
        if not paths or any(k != "fall" for k, *_ in paths):
          probs.append("loop at line %d is left by break/return inside the body" % info["node"].lineno)
          continue
        names = [x for x in info["modified"] if x in head and x in pre]
        found = None
        for cnt in names:
          N = as_poly(head[cnt])
          na = N.as_atom()
          if na is None:
            continue
          F, Mo = sym.mk("fdiv", N, Poly.const(2)), sym.mk("mod", N, Poly.const(2))
          for acc in names:
            for run in names:
              if len({acc, run, cnt}) < 3:
                continue
              A, Rn = gcoef(head[acc]), gcoef(head[run])
              if A is None or Rn is None:
                continue
              good = True
              for kind, val, s, since, v2 in paths:
                A2, R2 = gcoef(s.env[acc]), gcoef(s.env[run])
                if A2 is None or R2 is None or isinstance(s.env[cnt], Seq):
                  good = False
                  break
                D = (A2 + as_poly(s.env[cnt]) * R2) - (A + N * Rn)
                D = D.subst(na, F * 2 + Mo)
                bit = None
                for fc in s.facts[len(vis["head"].facts):]:
                  if fc[0] == "cmp" and as_poly(fc[2]) == Mo and as_poly(fc[3]).as_int() == 0:
                    bit = 0 if fc[1] == "Eq" else (1 if fc[1] == "NotEq" else None)
                  if fc[0] == "cmp" and as_poly(fc[2]) == Mo and as_poly(fc[3]).as_int() == 1 and fc[1] in ("Eq", "NotEq"):
                    bit = 1 if fc[1] == "Eq" else 0
                if bit is not None:
                  D = D.subst(Mo.as_atom(), Poly.const(bit))
                if not D.is_zero():
                  good = False
                  break
              if good:
                found = (acc, run, cnt)
                break
            if found:
              break
          if found:
            break
        if not found:
          probs.append("no assignment of (accumulator, running point, counter) makes acc + counter * point invariant over every path of the loop at line %d"
                       % info["node"].lineno)
          continue
        acc, run, cnt = found
        # entry: K = acc0 + cnt0 * run0 must be n * P ; the counter must start non-negative (floor halving never reaches 0 otherwise)
        a0, r0 = gcoef(pre[acc]), gcoef(pre[run])
        if a0 is None or r0 is None:
          probs.append("initial accumulator / point is not a point expression")
          continue
        K = a0 + as_poly(pre[cnt]) * r0
        if not (K - target).is_zero():
          probs.append("on entry %s + %s * %s denotes %r, not n * p" % (acc, cnt, run, K))
        c0 = as_poly(pre[cnt])
        facts = list(vis["pre"].facts)
        nonneg = (c0 == pn and any(fc == ("cmp", "GtE", pn, Poly.const(0)) or fc == ("cmp", "Gt", pn, Poly.const(0)) for fc in norm_facts(facts))) or \
                 (c0 == -pn and any(fc in (("cmp", "Lt", pn, Poly.const(0)), ("cmp", "LtE", pn, Poly.const(0))) for fc in norm_facts(facts)))
        if not nonneg:
          probs.append("the counter %r is not known to be non-negative on entry (floor halving of a negative counter never terminates)" % c0)
        # loop condition is `counter != 0`
        hf = vis["head"].facts[len(vis["pre"].facts):]
        if not any(fc[0] == "truthy" and as_poly(fc[1]) == as_poly(head[cnt]) or
                   (fc[0] == "cmp" and fc[1] == "NotEq" and as_poly(fc[2]) == as_poly(head[cnt]) and as_poly(fc[3]).as_int() == 0) for fc in hf):
          probs.append("the loop does not run until the counter is exhausted (condition is not `%s != 0`)" % cnt)
        exit_K[repr(as_poly(after[acc]))] = (K, as_poly(after[cnt]))
        proved.append("%s + %s * %s" % (acc, cnt, run))
    if not loops:
      probs.append("no double-and-add loop found")
    # returns
    nret = 0
    for kind, val, s in w.terminals:
      if kind != "return":
        continue
      nret += 1
      facts = norm_facts(s.facts)
      zero = [pp] if any(fc[0] == "cmp" and fc[1] == "Eq" and fc[2] == pp and isinstance(fc[3], Seq) and gcoef(fc[3]) is not None for fc in s.facts) else []
      got = None
      if isinstance(val, Seq):
        got = gcoef(val, zero)
      else:
        pv = as_poly(val)
        inner = pv
        a = pv.as_atom()
        while a is not None and a.kind == "mcall" and GROUP_OPS.get(a.args[1].as_atom().args[0] if isinstance(a.args[1], Poly) and a.args[1].as_atom() else None) == "id":
          inner = a.args[2]
          a = inner.as_atom()
        ek = exit_K.get(repr(inner))
        if ek is not None:
          K, cafter = ek
          if any((fc[0] == "falsy" and as_poly(fc[1]) == cafter) or (fc[0] == "cmp" and fc[1] == "Eq" and as_poly(fc[2]) == cafter and as_poly(fc[3]).as_int() == 0)
                 for fc in s.facts):
            got = K
        else:
          got = gcoef(val, zero)
      if got is None:
        probs.append("return at line %d is not a point expression the invariant covers" % getattr(s, "line", 0))
        continue
      want = target
      if zero:
        want = Poly.const(0)
      D = got - want
      # substitute the scalar when the path fixes it (n == 1, -n == 1)
      for fc in s.facts:
        if fc[0] == "cmp" and fc[1] == "Eq" and isinstance(fc[2], Poly) and isinstance(fc[3], Poly):
          e = fc[2] - fc[3]
          if e.degree_in(pn.as_atom()) == 1:
            c1 = (e - e.subst(pn.as_atom(), Poly.const(0))).subst(pn.as_atom(), Poly.const(1))
            ci = c1.as_int()
            c0 = e.subst(pn.as_atom(), Poly.const(0)).as_int()
            if ci in (1, -1) and c0 is not None:
              D = D.subst(pn.as_atom(), Poly.const(-c0 * ci))
      if not D.is_zero():
        probs.append("a return denotes %r instead of n * p" % (got,))
    ctx.record(R, f.where, "double-and-add invariant", not probs, "; ".join(sorted(set(probs))) or
               "invariant %s = n * p holds on entry (both signs of n), is preserved by both parities of the counter (n = 2*(n//2) + n%%2) and gives the returned point at "
               "counter 0; %d returns (incl. shortcuts) denote n * p" % (" / ".join(sorted(set(proved))), nret))


def norm_facts(facts):
  out = []
  for fc in facts:
    if fc[0] == "cmp":
      out.append(("cmp", fc[1], fc[2] if isinstance(fc[2], Seq) else as_poly(fc[2]), fc[3] if isinstance(fc[3], Seq) else as_poly(fc[3])))
    else:
      out.append(fc)
  return out


# ------------------------------------------------------------------ COMB: BatchMultiplyG (Lim-Lee comb, Horner over the tooth offset)
def scalar_in_range(v, order, facts):
  """True when 0 <= v < order follows from the expression itself or the facts; else a reason string."""
  p = as_poly(v)
  a = p.as_atom()
  if a is not None and a.kind == "mod" and as_poly(a.args[1]) == order:
    return True
  if a is not None and a.kind == "ite":
    c = sym.ITE_CONDS.get(a.args[0].as_atom().args[0]) if isinstance(a.args[0], Poly) and a.args[0].as_atom() is not None else None
    if c is None:
      return "conditional expression with an unknown condition"
    r1 = scalar_in_range(a.args[1], order, list(facts) + norm_facts(sym.facts_of(c, True)))
    if r1 is not True:
      return r1
    return scalar_in_range(a.args[2], order, list(facts) + norm_facts(sym.facts_of(c, False)))
  lo = hi = False
  zero, m1 = Poly.const(0), Poly.const(-1)
  for fc in facts:
    if fc[0] != "cmp" or isinstance(fc[2], Seq) or isinstance(fc[3], Seq):
      continue
    _, op, x, y = fc
    if (x == p and ((op == "GtE" and y == zero) or (op == "Gt" and y in (zero, m1)))) or (y == p and ((op == "LtE" and x == zero) or (op == "Lt" and x in (zero, m1)))):
      lo = True
    if (x == p and ((op == "Lt" and y == order) or (op == "LtE" and y == order - 1))) or (y == p and ((op == "Gt" and x == order) or (op == "GtE" and x == order - 1))):
      hi = True
  if lo and hi:
    return True
  if not lo:
    return "the scalar %r may be negative when its bits are extracted (>> sign-extends: the comb then computes (s mod 2^(teeth*steps)) * G)" % (p,)
  return "the scalar %r may exceed the order, bits above the highest tooth are dropped" % (p,)


def rule_comb(ctx):
  R = "R-C11-COMB"
  repo = ctx.repo
  f, w = walk(repo, "BatchMultiplyG")
  S0 = P("param", [q for q in f.params() if q != "self"][0])
  ORDER = sym.mk("attr", SELF, "n")
  GEN = sym.mk("attr", SELF, "g")
  fors = [i for i in w.loop_info.values() if isinstance(i["node"], ast.For) and i["visits"]]
  # the round loop is the range loop that contains the loop over the scalars (other loops, e.g. one that accumulates the mask, are not it)
  nested = [(o, i) for o in fors for i in fors if o is not i and any(x is i["node"] for x in ast.walk(o["node"]))
            and not isinstance(o["iter"], Seq) and as_poly(o["iter"]).as_atom() is not None and as_poly(o["iter"]).as_atom().kind == "range"]
  if len(nested) != 1:
    raise Incomplete("BatchMultiplyG: expected one range loop over tooth offsets and one enumerate loop over scalars", f.where)
  outer, inner = nested[0]
  # (1) scalars reduced
  ia_ = as_poly(inner["iter"]).as_atom() if not isinstance(inner["iter"], Seq) else None
  if ia_ is not None and ia_.kind == "enumerate":
    lst = as_poly(ia_.args[0])
  elif ia_ is not None and ia_.kind == "range" and len(ia_.args) == 1 and as_poly(ia_.args[0]).as_atom() is not None and as_poly(ia_.args[0]).as_atom().kind == "len":
    lst = as_poly(as_poly(ia_.args[0]).as_atom().args[0])
  elif ia_ is not None:
    lst = as_poly(inner["iter"])
  else:
    raise Incomplete("BatchMultiplyG: the loop over the scalars iterates over a literal", f.where)
  la = lst.as_atom()
  kin = inner["visits"][0]["k"]
  if la is not None and la.kind == "map" and la.args[2] == S0:
    elt, bv = la.args[0], la.args[1]
    if isinstance(bv, Poly):
      bv = bv.as_atom()
    x = sym.mk("idx", S0, Poly.atom(bv))
    r = scalar_in_range(elt, ORDER, [])
    same_len = True
  elif lst == S0:
    elt = None
    r = "the scalars are used as passed in (no reduction modulo the order)"
    same_len = True
  else:
    r, same_len, elt = "the comb does not iterate over the (reduced) input list", False, None
  ctx.record(R, f.where, "scalars reduced to [0, n) before bit extraction", r is True, "every scalar is x % self.n (or guarded 0 <= x < n): zero, negative and >= order "
             "scalars are mapped to their canonical representative, one per input position" if r is True else r)
  # (2) multiplier = (s >> i) & mask ; points[j] = cache[multiplier] ; cache[m] = Multiply(g, m)
  st_pts = [e for e in w.events if e.kind == "store" and as_poly(e.data["index"]) == as_poly(kin)]
  cache = sym.mk("attr", SELF, "_cache")
  mult = None
  ok2, why2 = bool(st_pts), []
  for e in st_pts:
    va = as_poly(e.data["value"]).as_atom()
    if va is None or va.kind != "idx" or va.args[0] != cache:
      ok2 = False
      why2.append("points[j] is not read from the multiples cache")
      continue
    mult = va.args[1]
  st_cache = [e for e in w.events if e.kind == "store" and as_poly(e.data["base"]) == cache]
  for e in st_cache:
    idx = as_poly(e.data["index"])
    want = sym.mk("mcall", SELF, P("lit", "Multiply"), GEN, idx)
    if as_poly(e.data["value"]) != want:
      ok2 = False
      why2.append("cache[m] is filled with something other than Multiply(g, m)")
  if not st_cache:
    ok2 = False
    why2.append("no cache fill found")
  E = MASK = None
  if mult is not None:
    ma = mult.as_atom()
    if ma is not None and ma.kind == "band" and len(ma.args) == 2:
      for u, v in ((ma.args[0], ma.args[1]), (ma.args[1], ma.args[0])):
        ua = u.as_atom()
        if ua is not None and ua.kind == "shr":
          sval, E, MASK = ua.args[0], ua.args[1], v
      if E is None:
        ok2 = False
        why2.append("multiplier is not (s >> i) & mask")
      else:
        want_s = rebuild_elt(elt, bv, kin) if elt is not None else sym.mk("idx", S0, as_poly(kin))
        if as_poly(sval) != as_poly(want_s):
          ok2 = False
          why2.append("the shifted value is not the j-th (reduced) scalar")
    else:
      ok2 = False
      why2.append("multiplier is not (s >> i) & mask")
  ctx.record(R, f.where, "points[j] = ((s_j >> i) & mask) * G", ok2, "; ".join(sorted(set(why2))) or
             "cache[m] = Multiply(g, m) for the multiplier m = (s_j >> i) & mask of the j-th reduced scalar")
  # (3) teeth: mask = sum(1 << t*steps), offsets i = steps-1 .. 0, teeth * steps >= bit length of the order
  ra = as_poly(outer["iter"]).as_atom()
  a0, b0, c0 = (list(ra.args) + [Poly.const(1)])[:3] if len(ra.args) >= 2 else (Poly.const(0), ra.args[0], Poly.const(1))
  ok3, why3 = True, []
  kout = as_poly(outer["visits"][0]["k"])
  if c0.as_int() == -1 and b0.as_int() == -1:
    STEPS = a0 + 1
    ivar = a0 - kout
    first = a0
  elif c0.as_int() == 1 and a0.as_int() == 0:
    STEPS, ivar, first = b0, kout, None
  else:
    STEPS = ivar = first = None
    ok3 = False
    why3.append("tooth offsets are not range(steps - 1, -1, -1)")
  if ok3 and E is not None and as_poly(E) != ivar:
    ok3 = False
    why3.append("shift amount %r is not the offset of the current round" % (E,))
  if ok3 and MASK is not None:
    sa = sym.resolve_sums(w, as_poly(MASK)).as_atom()          # a mask accumulated by a loop reads as the sum it computes
    good = False
    if sa is not None and sa.kind == "sum":
      m = sa.args[0].as_atom()
      if m is not None and m.kind == "map":
        melt, mbv, msrc = m.args
        if isinstance(mbv, Poly):
          mbv = mbv.as_atom()
        rs = msrc.as_atom()
        if rs is not None and rs.kind == "range" and len(rs.args) == 3 and rs.args[0].as_int() == 0:
          B, TS = rs.args[1], rs.args[2]
          if melt == sym.mk("shl", Poly.const(1), Poly.atom(mbv) * TS):
            if TS != STEPS:
              why3.append("teeth are %r bits apart but %r offsets are processed (bits between are skipped or counted twice)" % (TS, STEPS))
            elif B != sym.mk("bitlen", ORDER):
              why3.append("teeth stop at bit %r, not at the bit length of the order" % (B,))
            else:
              good = True
          else:
            why3.append("mask summand is not a single bit 1 << t")
    if not good:
      ok3 = False
      if not why3:
        why3.append("mask is not sum(1 << t for t in range(0, n.bit_length(), steps))")
  elif MASK is None:
    ok3 = False
  ctx.record(R, f.where, "teeth and offsets tile the bits of the order", ok3, "; ".join(sorted(set(why3))) or
             "offsets i = steps-1 .. 0, teeth at 0, steps, 2*steps, .. < bitlen(n): every bit position below ceil(bitlen/steps)*steps >= bitlen(n) is (offset, tooth) exactly once")
  # (4) Horner: res = points in the first round, res = BatchAddList(BatchDouble(res), points) afterwards; result is res after the last round
  ok4, why4 = True, []
  vis = outer["visits"][0]
  paths = [bp for bp in outer["body_paths"] if bp[4] is vis]
  n_first = n_next = 0
  rname = None
  rets = [t for t in w.terminals if t[0] == "return"]
  for kind, val, s in rets:
    for nm, sv in vis["after_env"].items():
      if not isinstance(val, Seq) and as_poly(sv) == as_poly(val):
        rname = nm
  if rname is None:
    ok4 = False
    why4.append("the returned value is not the accumulator after the last round")
  for kind, val, s, since, v2 in paths:
    if kind != "fall":
      ok4 = False
      why4.append("round loop left early")
      continue
    if rname is None:
      continue
    newf = norm_facts(s.facts[len(vis["head"].facts):])
    is_first = any(fc[0] == "cmp" and fc[1] == "Eq" and ((fc[2] == ivar and fc[3] == first) or (fc[3] == ivar and fc[2] == first)) for fc in newf) if first is not None else False
    not_first = any(fc[0] == "cmp" and fc[1] == "NotEq" and ((fc[2] == ivar and fc[3] == first) or (fc[3] == ivar and fc[2] == first)) for fc in newf) if first is not None else False
    rv = as_poly(s.env[rname]) if not isinstance(s.env[rname], Seq) else None
    pts = [as_poly(e.data["base"]) for e in st_pts]
    head_r = as_poly(vis["head"].env[rname]) if rname in vis["head"].env and not isinstance(vis["head"].env[rname], Seq) else None
    pts_final = [as_poly(x) for k_, x in s.env.items() if not isinstance(x, Seq) and as_poly(x).as_atom() is not None and as_poly(x).as_atom().kind == "sym" and k_ != rname]
    # the round's points may also be known exactly: [cache[m_j] for the scalars] (an append loop reads as that comprehension)
    pts_final += [as_poly(x) for k_, x in s.env.items() if isinstance(x, Poly) and x.as_atom() is not None and x.as_atom().kind == "map" and k_ != rname
                  and as_poly(x.as_atom().args[2]) == lst and as_poly(x.as_atom().args[0]).as_atom() is not None and as_poly(x.as_atom().args[0]).as_atom().kind == "idx"
                  and as_poly(as_poly(x.as_atom().args[0]).as_atom().args[0]) == cache]
    if is_first:
      n_first += 1
      if rv is None or rv not in pts_final:
        ok4 = False
        why4.append("first round does not start from the round's own points")
    elif not_first:
      n_next += 1
      good = False
      ra2 = rv.as_atom() if rv is not None else None
      if ra2 is not None and ra2.kind == "mcall" and ra2.args[1] == P("lit", "BatchAddList") and len(ra2.args) == 4:
        for u, v in ((ra2.args[2], ra2.args[3]), (ra2.args[3], ra2.args[2])):
          if u == sym.mk("mcall", SELF, P("lit", "BatchDouble"), head_r) and v in pts_final:
            good = True
      if not good:
        ok4 = False
        why4.append("later rounds are not res = BatchAddList(BatchDouble(res), points)")
    else:
      ok4 = False
      why4.append("a round is neither the first (offset steps-1) nor a later one")
  if n_first < 1 or n_next < 1:
    ok4 = False
    why4.append("first/later round paths not both found")
  ctx.record(R, f.where, "Horner accumulation over offsets", ok4, "; ".join(sorted(set(why4))) or
             "res_j = points_j at offset steps-1, then res_j = 2*res_j + points_j down to offset 0: sum_i 2^i * ((s_j >> i) & mask) * G = s_j * G by the tiling above")


def rebuild_elt(elt, bv, k):
  return sym.rebuild(elt.deep_subst(bv, as_poly(k)))


# ------------------------------------------------------------------ BATCHINV: Montgomery's simultaneous inversion
def rule_batchinv(ctx):
  """Declared invariants, checked by symbolic execution of one iteration in an exponent domain relative to the current index i:
  a value is pre(i)^a * val(i)^b with pre(i) = product of the non-zero values before i; pre(i+1) = pre(i)*val(i) when val(i) is
  non-zero and pre(i) otherwise (reductions modulo p are congruences)."""
  R = "R-C11-BATCHINV"
  repo = ctx.repo
  f, w = walk(repo, "BatchInverse")
  values = P("param", [q for q in f.params() if q != "self"][0])
  fors = [i for i in w.loop_info.values() if isinstance(i["node"], ast.For) and i["visits"]]
  n = sym.mk("len", values)
  # the forward pass visits the indices 0 .. len-1 in order: over enumerate(values), over the values themselves, or over range(len(values))
  fwd = [i for i in fors if not isinstance(i["iter"], Seq) and (as_poly(i["iter"]) == sym.mk("enumerate", values) or as_poly(i["iter"]) == values or
                                                                as_poly(i["iter"]) == sym.mk("range", n) or as_poly(i["iter"]) == sym.mk("range", Poly.const(0), n))]
  bwd = [i for i in fors if not isinstance(i["iter"], Seq) and as_poly(i["iter"]) == sym.mk("range", n - 1, Poly.const(-1), Poly.const(-1))]
  if len(fwd) != 1 or len(bwd) != 1:
    raise Incomplete("BatchInverse: expected a forward pass over enumerate(values) and a backward pass over range(len(values) - 1, -1, -1)", f.where)
  fwd, bwd = fwd[0], bwd[0]

  def strip(p):
    a = as_poly(p).as_atom()
    while a is not None and a.kind == "mod" and as_poly(a.args[1]) == M:
      p = a.args[0]
      a = as_poly(p).as_atom()
    return as_poly(p)

  def expo(p, base):
    """(a, b) with p = pre(i)^a * val(i)^b, via base: {atom: (a, b)}; None when p is not such a monomial."""
    p = strip(p)
    if p.as_int() == 1:
      return (0, 0)
    if len(p.t) != 1:
      return None
    (mono, c), = p.t.items()
    if c != 1:
      return None
    ea = eb = 0
    for at, e in mono:
      if at in base:
        ea += base[at][0] * e
        eb += base[at][1] * e
      elif at.kind == "mod" and as_poly(at.args[1]) == M:
        sub = expo(Poly.atom(at), base)
        if sub is None:
          return None
        ea += sub[0] * e
        eb += sub[1] * e
      else:
        return None
    return (ea, eb)

  probs = []
  # ---- forward pass: product = pre(i); res[i] = pre(i) for non-zero val(i)
  vis = fwd["visits"][0]
  k = as_poly(vis["k"])
  head = vis["head"].env
  names = [x for x in fwd["modified"] if x in head and x in vis["pre_env"] and isinstance(vis["pre_env"][x], (Const, Poly)) and as_poly(vis["pre_env"][x]).as_int() == 1]
  lists = [x for x in fwd["modified"] if x in head and vis["pre_env"].get(x) is not None and not isinstance(vis["pre_env"][x], Seq)
           and as_poly(vis["pre_env"][x]) == sym.mk("listrep", sym.mk("seq", P("lit", "None")), n)]
  if len(names) != 1 or len(lists) != 1:
    raise Incomplete("BatchInverse: running product (starts at 1) / result list (starts as [None] * len(values)) not identified", f.where)
  prod, res = names[0], lists[0]
  PH, RH = as_poly(head[prod]), as_poly(head[res])
  val_k = sym.mk("idx", values, k)
  base = {PH.as_atom(): (1, 0), val_k.as_atom(): (0, 1)}
  n_paths = 0
  for kind, v_, s, since, v2 in fwd["body_paths"]:
    if v2 is not vis:
      continue
    n_paths += 1
    if kind not in ("fall", "continue"):
      probs.append("forward pass left by %s" % kind)
      continue
    newf = s.facts[len(vis["head"].facts):]
    nz = any(fc[0] == "truthy" and as_poly(fc[1]) == val_k for fc in newf) or any(fc[0] == "cmp" and fc[1] == "NotEq" and not isinstance(fc[2], Seq) and as_poly(fc[2]) == val_k and as_poly(fc[3]).is_zero() for fc in newf)
    z = any(fc[0] == "falsy" and as_poly(fc[1]) == val_k for fc in newf)
    if nz == z:
      probs.append("forward pass: a path does not decide whether values[i] is zero/None")
      continue
    e = expo(s.env[prod], base) if not isinstance(s.env[prod], Seq) else None
    want = (1, 1) if nz else (1, 0)
    if e != want:
      probs.append("forward pass: the running product is not the product of the non-zero values up to i (%s path)" % ("non-zero" if nz else "zero"))
    stores = [x for x in (w.events[i] for i in s.trace if i >= since) if x.kind == "store" and as_poly(x.data["base"]) == RH]
    if nz:
      if len(stores) != 1 or as_poly(stores[0].data["index"]) != k or expo(stores[0].data["value"], base) != (1, 0):
        probs.append("forward pass: res[i] is not the prefix product before values[i]")
    elif stores:
      probs.append("forward pass: a zero/None entry gets a value")
  # ---- the inversion between the passes
  vb = bwd["visits"][0]
  kb = as_poly(vb["k"])
  headb = vb["head"].env
  ib = n - kb - 1
  invs = [x for x in bwd["modified"] if x in headb and vb["pre_env"].get(x) is not None and not isinstance(vb["pre_env"][x], Seq)
          and as_poly(vb["pre_env"][x]) == sym.mk("invert", as_poly(vis["after_env"][prod]), M)]
  if len(invs) != 1:
    probs.append("the backward pass does not start from invert(product of all non-zero values, p)")
  else:
    inv = invs[0]
    IH, RB = as_poly(headb[inv]), as_poly(headb[res])
    if as_poly(vb["pre_env"][res]) != as_poly(vis["after_env"][res]):
      probs.append("the result list is replaced between the passes")
    val_i = sym.mk("idx", values, ib)
    # relative to index i: inverse = (pre(i) * val(i))^-1 on entry if val(i) non-zero, pre(i)^-1 otherwise; untouched res[i] = pre(i)
    for kind, v_, s, since, v2 in bwd["body_paths"]:
      if v2 is not vb:
        continue
      n_paths += 1
      if kind not in ("fall", "continue"):
        probs.append("backward pass left by %s" % kind)
        continue
      newf = s.facts[len(vb["head"].facts):]
      nz = any(fc[0] == "truthy" and as_poly(fc[1]) == val_i for fc in newf) or any(fc[0] == "cmp" and fc[1] == "NotEq" and not isinstance(fc[2], Seq) and as_poly(fc[2]) == val_i and as_poly(fc[3]).is_zero() for fc in newf)
      z = any(fc[0] == "falsy" and as_poly(fc[1]) == val_i for fc in newf)
      if nz == z:
        probs.append("backward pass: a path does not decide whether values[i] is zero/None")
        continue
      baseb = {IH.as_atom(): (-1, -1) if nz else (-1, 0), val_i.as_atom(): (0, 1), sym.mk("idx", RB, ib).as_atom(): (1, 0)}
      e = expo(s.env[inv], baseb) if not isinstance(s.env[inv], Seq) else None
      if e != (-1, 0):
        probs.append("backward pass: after index i the running inverse is not the inverse of the prefix product before i (%s path)" % ("non-zero" if nz else "zero"))
      stores = [x for x in (w.events[i] for i in s.trace if i >= since) if x.kind == "store" and as_poly(x.data["base"]) == RB]
      if nz:
        if len(stores) != 1 or as_poly(stores[0].data["index"]) != ib or expo(stores[0].data["value"], baseb) != (0, -1):
          probs.append("backward pass: res[i] is not prefix(i) * inverse(prefix(i) * values[i]) = 1 / values[i]")
      elif stores:
        probs.append("backward pass: a zero/None entry gets a value")
    # ---- result: the list after the backward pass, on every return
    for kind, val, s in w.terminals:
      if kind == "return" and (isinstance(val, Seq) or as_poly(val) != as_poly(vb["after_env"][res])):
        lens = any(fc[0] == "falsy" and as_poly(fc[1]) == values for fc in s.facts) or any(fc[0] == "cmp" and fc[1] == "Eq" and not isinstance(fc[2], Seq) and as_poly(fc[2]) == n and as_poly(fc[3]).is_zero() for fc in s.facts)
        if not lens:
          probs.append("a return hands out the list before the backward pass has turned the prefix products into inverses (%s)" %
                       (" & ".join("%s %s %s" % (fc[1], fc[2], fc[3]) for fc in s.facts if fc[0] == "cmp")[:120] or "unconditional"))
  ctx.record(R, f.where, "Montgomery's trick: res[i] = values[i]^-1 for non-zero entries, None otherwise", not probs, "; ".join(sorted(set(probs))) or
             "forward: product = pre(i), res[i] = pre(i); inverse = pre(n)^-1; backward (i = n-1 .. 0): res[i] = pre(i) * (pre(i)*v_i)^-1 = v_i^-1, inverse = pre(i)^-1; "
             "zero/None entries are skipped in both passes; %d paths; the list is returned only after the backward pass" % n_paths)
