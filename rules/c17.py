"""C17 - a verdict does not depend on batch neighbours, order or earlier calls (state independence; not LLL permutation-equivariance)."""
from __future__ import annotations
import ast
from pcstatic import sym
from pcstatic.core import Incomplete
from pcstatic.loader import norm
from pcstatic.poly import Poly, Atom, P
from pcstatic.sym import Const, Seq, as_poly
from . import template as T
from . import c01, c10, c16

META = {
    "level": "other",
    "trusted_base": ["Python ast parser", "pcstatic walker (loop-head symbols identify loop-carried reads)", "effect scan over the whole package"],
    "assumptions": ["permutation-equivariance of LLL-based guesses (set -> list order feeds the lattice) is a runtime property and is not decided"],
    "explanation": ("Effect analysis: no code reachable from a Check writes instance or module state except three frozen EcCurve caches and objects created in the call; "
                    "individual checks carry nothing but the boolean accumulator from one artifact to the next; cache descriptors always match their contents and cached "
                    "hits are re-verified; batch results are keyed by value / mapped back by index."),
}
SELF = P("param", "self")

# frozen table of self-attribute writes outside __init__ in modules reachable from the checks (reason per entry)
ALLOWED_SELF_WRITES = {
    ("ec_util:EcCurve.BatchMultiplyG", "_cache"): "memo of Multiply(g, k) keyed by k: content is a pure function of the key (checked by R-C17-CACHE)",
    ("ec_util:EcCurve.BatchDL", "_table"): "x-coordinate table rebuilt only when a larger one is requested (R-C10-CACHE / R-C17-CACHE)",
    ("ec_util:EcCurve.BatchDL", "_table_size"): "descriptor of _table, written together with it",
    ("ec_util:EcCurve.BatchDLOfDifferences", "_table"): "same table, same discipline",
    ("ec_util:EcCurve.BatchDLOfDifferences", "_table_size"): "descriptor of _table, written together with it",
    ("keypair_generator:Generator.generate_prime", "key"): "PRNG state of a Generator object created per key inside CheckKeypairDenylist.Check",
    ("keypair_generator:Generator.generate_prime", "seed"): "PRNG state of a Generator object created per key inside CheckKeypairDenylist.Check",
}
OUT_OF_SCOPE_MODULES = ("randomness_tests.",)   # not reachable from any Check
ALLOWED_GLOBAL_WRITERS = {"paranoid:GetRSASingleChecks", "paranoid:GetRSAAggregateChecks", "paranoid:GetRSAAllChecks", "paranoid:GetECSingleChecks",
                          "paranoid:GetECAggregateChecks", "paranoid:GetECAllChecks", "paranoid:GetECDSAAllChecks"}


def run(ctx):
  rule_stateless(ctx)
  rule_individual(ctx)
  rule_cache(ctx)
  rule_byvalue(ctx)
  # jointly judged EC keys: every unordered pair is compared whatever the order (shared obligations of C10 / C02)
  from . import c02
  from . import c08
  ctx.borrow(c08.rule_accum, "R-C17-BYVALUE")      # jointly judged signatures: what one issuer contributes survives the next issuer
  ctx.borrow(c10.rule_dup, "R-C17-BYVALUE")
  # jointly judged RSA keys: whether two moduli meet in the product / remainder tree must not depend on how many other keys are in the batch or where
  # they sit (an unpaired node of an odd level carries its own partial sum upwards) - shared with C03
  from . import c03
  ctx.borrow(c03.rule_tree, "R-C17-BYVALUE")
  ctx.borrow(c03.rule_remainder, "R-C17-BYVALUE")
  ctx.borrow(c16.rule_issuer, "R-C17-BYVALUE", None, T.bodies(ctx.repo))       # issuer keys grouped by curve type and point: the verdict does not depend on the neighbours
  ctx.borrow(c02.rule_release, "R-C17-BYVALUE", lambda r: r.where.endswith("BatchDLOfDifferences"))
  # the entry recorded for an artifact (or issuer key) is created and decided in that artifact's own pass of the loop (shared with C16), and the cached
  # baby-step table really holds the entries its size descriptor claims (shared with C10)
  c16.rule_isolated(ctx, T.bodies(ctx.repo), "R-C17-OWN")
  ctx.expect("R-C17-OWN", 24, "24 Check bodies")
  ctx.borrow(c10.rule_table, "R-C17-CACHE")
  ctx.borrow(c10.rule_cover, "R-C17-CACHE")       # the windows must be adjacent for the *requested* table size: spare entries of a cached larger table do not count
  ctx.expect("R-C17-STATELESS", 8, "seven frozen writes + scan")
  ctx.expect("R-C17-INDIVIDUAL", 17, "17 individual checks")
  ctx.expect("R-C17-CACHE", 13, "two table caches + multiples memo + table coverage (shared with C10)")
  ctx.expect("R-C17-BYVALUE", 26, "BatchGCD + partitions + pairwise difference search (2 + 3 shared rows) + product / remainder tree (16 shared rows)")


def self_writes(fn):
  """(attr, node) for writes to self.<attr> (assignment, augmented assignment, element store, mutating call)."""
  out = []
  for n in ast.walk(fn):
    tg = []
    if isinstance(n, ast.Assign):
      tg = n.targets
    elif isinstance(n, (ast.AugAssign, ast.AnnAssign)):
      tg = [n.target]
    for t in tg:
      for x in ([t] if not isinstance(t, (ast.Tuple, ast.List)) else list(t.elts)):
        base = x
        while isinstance(base, ast.Subscript):
          base = base.value
        if isinstance(base, ast.Attribute) and isinstance(base.value, ast.Name) and base.value.id == "self":
          out.append((base.attr, n))
    if isinstance(n, ast.Call) and isinstance(n.func, ast.Attribute) and n.func.attr in sym.MUTATORS:
      base = n.func.value
      while isinstance(base, ast.Subscript):
        base = base.value
      if isinstance(base, ast.Attribute) and isinstance(base.value, ast.Name) and base.value.id == "self":
        out.append((base.attr, n))
    if isinstance(n, ast.Call) and isinstance(n.func, ast.Name) and n.func.id == "setattr" and n.args and isinstance(n.args[0], ast.Name) and n.args[0].id == "self":
      out.append(("<setattr>", n))
  return out


def instance_bound(repo, cls, attr):
  """None when every constructed object gets its own `attr` (an unconditional `self.attr = <fresh value>` in the constructor); else the reason."""
  init = repo.find_method(cls, "__init__")
  fresh = False
  if init is not None:
    params = {a.arg for a in init.node.args.args + init.node.args.kwonlyargs}
    body = list(init.node.body)
    for st in init.node.body:        # helpers called unconditionally from the constructor (self._Reset()) count as part of it
      if isinstance(st, ast.Expr) and isinstance(st.value, ast.Call) and isinstance(st.value.func, ast.Attribute) and isinstance(st.value.func.value, ast.Name) \
         and st.value.func.value.id == "self":
        h = repo.find_method(cls, st.value.func.attr)
        if h is not None:
          body += list(h.node.body)
    for st in body:
      tg = st.targets if isinstance(st, ast.Assign) else [st.target] if isinstance(st, ast.AnnAssign) and st.value is not None else []
      for t in [x for t_ in tg for x in (t_.elts if isinstance(t_, (ast.Tuple, ast.List)) else [t_])]:
        if isinstance(t, ast.Attribute) and isinstance(t.value, ast.Name) and t.value.id == "self" and t.attr == attr:
          v = st.value
          shared = [n for n in ast.walk(v) if isinstance(n, ast.Attribute) and isinstance(n.value, ast.Name) and n.value.id in (cls.name, "cls")] + \
                   [n for n in ast.walk(v) if isinstance(n, ast.Call) and isinstance(n.func, ast.Name) and n.func.id == "type"]
          if isinstance(v, ast.Name) and v.id in params:
            d = dict(zip([a.arg for a in init.node.args.args][::-1], init.node.args.defaults[::-1]))
            if isinstance(d.get(v.id), (ast.Dict, ast.List, ast.Set)):
              return "self.%s is the constructor's mutable default argument: one object shared by every instance built without that argument" % attr
          if shared:
            return "self.%s is bound to a class-level object in the constructor: shared by every instance" % attr
          fresh = True
  if fresh:
    return None
  for k in repo.mro(cls):
    for st in k.node.body:
      tg = st.targets if isinstance(st, ast.Assign) else [st.target] if isinstance(st, ast.AnnAssign) and st.value is not None else []
      if any(isinstance(t, ast.Name) and t.id == attr for t in tg):
        return "`%s` is a class attribute of %s (%s) that the constructor never rebinds: the state written through self.%s is shared by all instances (all curves of CURVE_FACTORY)" % (
            attr, k.name, norm(st)[:50], attr)
  return "self.%s is not bound unconditionally in the constructor" % attr


def rule_stateless(ctx):
  R = "R-C17-STATELESS"
  repo = ctx.repo
  seen_allowed = set()
  for fn in repo.all_funcs():
    if fn.cls is None or fn.name == "__init__":
      continue
    if fn.module.short.startswith(OUT_OF_SCOPE_MODULES):
      continue
    for attr, node in self_writes(fn.node):
      key = (fn.where, attr)
      if key in ALLOWED_SELF_WRITES:
        seen_allowed.add(key)
        continue
      what = "check instance" if T.is_check_class(repo, fn.cls) else "object"
      ctx.violation(R, fn.where, norm(node), "%s state self.%s is written outside __init__: later batches would see what earlier ones left behind" % (what, attr))
  for key, reason in ALLOWED_SELF_WRITES.items():
    if key in seen_allowed:
      # the excepted state must be per object: bound afresh by the constructor, not a class attribute shared by every instance
      # (the curves of CURVE_FACTORY are module-level singletons of one class: a shared memo hands one curve the points of another)
      fn = [f_ for f_ in repo.all_funcs() if f_.where == key[0]][0]
      why = instance_bound(repo, fn.cls, key[1])
      if why is None:
        ctx.ok(R, key[0], "self.%s" % key[1], "frozen exception: " + reason)
      else:
        ctx.violation(R, key[0], "self.%s" % key[1], why)
  # module-level state: `global` statements and mutation of module-level containers
  n_scan = 0
  for m in repo.modules.values():
    if m.short.startswith(OUT_OF_SCOPE_MODULES):
      continue
    n_scan += 1
    mutable = {name for name, node in m.consts.items() if isinstance(node, (ast.Dict, ast.List, ast.Set)) or
               (isinstance(node, ast.Call) and ast.unparse(node.func) in ("collections.defaultdict", "dict", "list", "set", "collections.OrderedDict"))}
    for fn in list(m.funcs.values()) + [x for c in m.classes.values() for x in c.methods.values()]:
      local = {a.arg for a in fn.node.args.args} | {x.id for x in ast.walk(fn.node) if isinstance(x, ast.Name) and isinstance(x.ctx, ast.Store)}
      for n in ast.walk(fn.node):
        if isinstance(n, ast.Global):
          ctx.violation(R, fn.where, norm(n), "module-level variable rebound at run time")
        bad = None
        if isinstance(n, (ast.Assign, ast.AugAssign)):
          for t in (n.targets if isinstance(n, ast.Assign) else [n.target]):
            base = t
            while isinstance(base, ast.Subscript):
              base = base.value
            if isinstance(base, ast.Name) and base.id in mutable and base.id not in local and isinstance(t, ast.Subscript):
              bad = base.id
        if isinstance(n, ast.Call) and isinstance(n.func, ast.Attribute) and n.func.attr in sym.MUTATORS:
          base = n.func.value
          while isinstance(base, ast.Subscript):
            base = base.value
          if isinstance(base, ast.Name) and base.id in mutable and base.id not in local:
            bad = base.id
        if bad is not None:
          if fn.where in ALLOWED_GLOBAL_WRITERS and bad == "_check_factory":
            continue
          ctx.violation(R, fn.where, norm(n), "module-level container `%s` is mutated at run time" % bad)
    # foreign writes into module state of other modules: X.CURVE_FACTORY[...] = ...
    for n in ast.walk(m.tree):
      if isinstance(n, (ast.Assign, ast.AugAssign)):
        for t in (n.targets if isinstance(n, ast.Assign) else [n.target]):
          if isinstance(t, ast.Subscript) and isinstance(t.value, ast.Attribute) and t.value.attr in ("CURVE_FACTORY", "CONSTANT_FACTORY", "RNGS", "size_unseeded_map"):
            ctx.violation(R, m.short, norm(n), "shared table %s is modified at run time" % t.value.attr)
  ctx.ok(R, "package", "effect scan", "%d modules scanned: no other instance / module state is written outside constructors and the registry getters" % n_scan)


def rule_individual(ctx):
  R = "R-C17-INDIVIDUAL"
  repo = ctx.repo
  n_ind = 0
  for b in T.bodies(repo):
    fn = b.func.node
    art = b.func.params()[0]
    # the loop over the artifacts, by the value it iterates (the list itself, its index range, its enumeration); the list may otherwise only be
    # read at the loop's own index
    ap = P("param", art)
    over = (ap, sym.mk("range", sym.mk("len", ap)), sym.mk("enumerate", ap))
    loops = [i_["node"] for i_ in b.loops() if isinstance(i_["node"], ast.For) and i_.get("visits") and
             all(isinstance(v_.get("iter"), Poly) and any(v_["iter"] == o_ for o_ in over) for v_ in i_["visits"])]
    uses = []
    if len(loops) == 1:
      own = {id(x) for x in ast.walk(loops[0].iter)}
      tn = {x.id for x in ast.walk(loops[0].target) if isinstance(x, ast.Name)}
      for x in ast.walk(loops[0]):
        if isinstance(x, ast.Subscript) and isinstance(x.value, ast.Name) and x.value.id == art and isinstance(x.slice, ast.Name) and x.slice.id in tn and isinstance(x.ctx, ast.Load):
          own.add(id(x.value))
      uses = [x for x in ast.walk(fn) if isinstance(x, ast.Name) and x.id == art and id(x) not in own]
    if not (len(loops) == 1 and not uses):
      continue   # joint (batch) check: judged by R-C17-BYVALUE and C02/C03
    if not any(i_["node"] is loops[0] for i_ in b.result_loops()):
      continue   # the loop over the artifacts only builds a partition (a spelled-out comprehension); the results are recorded per partition: joint check
    n_ind += 1
    where = b.where()
    wv = c16.weak_var(b)
    probs = []
    info = [i for i in b.loops() if i["node"] is loops[0]]
    if not info:
      ctx.incomplete(R, where, "artifact loop", "loop not visited by the walker")
      continue
    info = info[0]
    tnames = {x.id for x in ast.walk(info["node"].target) if isinstance(x, ast.Name)}
    for vis in info["visits"]:
      head_syms = {}
      for v in info["modified"]:
        if v in tnames or v == wv:
          continue
        hv = vis["head"].env.get(v)
        if isinstance(hv, Poly) and hv.as_atom() is not None and hv.as_atom().kind == "sym":
          head_syms[hv.as_atom()] = v
      # the accumulator itself may be carried, but what earlier artifacts left in it must not steer how this artifact is examined
      whs = set()
      for inf_ in b.loops():
        for v_ in inf_["visits"]:
          hv_ = v_["head"].env.get(wv) if wv else None
          if isinstance(hv_, Poly) and hv_.as_atom() is not None and hv_.as_atom().kind == "sym":
            whs.add(repr(hv_.as_atom()))
      if whs:
        for kind, val, s, since, v2 in [bp for inf_ in b.loops() for bp in inf_["body_paths"]]:
          if any(any(h_ in repr(c) for h_ in whs) for c, pol, node in s.pc[len(vis["head"].pc):]):
            probs.append("the batch accumulator `%s` is tested inside an artifact's pass: whether an earlier artifact was weak changes how this one is examined" % wv)
      if not head_syms:
        continue
      for kind, val, s, since, v2 in info["body_paths"]:
        if v2 is not vis:
          continue
        terms = []
        for c, pol, node in s.pc[len(vis["head"].pc):]:
          terms.append(repr(c))
        for i in s.trace[since:]:
          e = b.events[i]
          for k_, x in e.data.items():
            if k_ in ("value", "args", "kwargs", "recv", "rhs", "index", "base"):
              terms.append(repr(x))
        blob = " ".join(terms)
        for a, name in head_syms.items():
          if repr(Poly.atom(a)) in blob or repr(a) in blob:
            probs.append("`%s` is read in an iteration before it is (re)assigned: its value comes from the previous artifact" % name)
    ctx.record(R, where, "nothing but the accumulator is carried between artifacts", not probs, "; ".join(sorted(set(probs))) or
               "loop-carried set is a subset of {%s}" % wv)
  ctx.extra["individual_checks"] = n_ind


def rule_cache(ctx):
  R = "R-C17-CACHE"
  c10.cache_rule(ctx, R, "BatchDL", "table_size")
  c10.cache_rule(ctx, R, "BatchDLOfDifferences", "max_diff")
  repo = ctx.repo
  f = repo.func("ec_util", "EcCurve.BatchMultiplyG")
  w = sym.Walker(repo, f)
  w.run()
  stores = [e for e in w.events if e.kind == "store" and ast.unparse(e.data["target"].value) == "self._cache"]
  probs = []
  if not stores:
    probs.append("no memo store")
  for e in stores:
    k = as_poly(e.data["index"])
    v = as_poly(e.data["value"])
    if v != sym.mk("mcall", SELF, P("lit", "Multiply"), sym.mk("attr", SELF, "g"), k):
      probs.append("cache entry for key k is not Multiply(g, k)")
    if not any(f_[0] == "cmp" and f_[1] == "NotIn" and as_poly(f_[2]) == k and as_poly(f_[3]) == sym.mk("attr", SELF, "_cache") for f_ in e.facts):
      probs.append("cache entry overwritten although present")
  ctx.record(R, f.where, "_cache[k] = Multiply(g, k)", not probs, "; ".join(sorted(set(probs))) or "memo content is a pure function of its key")
  # hits from a (possibly larger, older) table are re-verified: C02 release rule on BatchDL covers every store


def rule_byvalue(ctx):
  R = "R-C17-BYVALUE"
  repo = ctx.repo
  pr = c01.Prover(ctx)
  ok = pr.batchgcd()
  for r in ctx.results:
    if r.rule == "R-C01-CERT":
      r.rule = R
  # partitions: filter by curve id over the factory items, mapped back by the same index (C16-ONCE shape) - re-derive here
  probs = []
  n = 0
  for b in T.bodies(repo):
    for info in b.result_loops():
      for vis in info["visits"]:
        cov = c16.loop_covers(vis["iter"], b.artifacts)
        if cov is None:
          continue
        a = cov.as_atom()
        if a is not None and a.kind == "filter":
          n += 1
          K = T.partition_key(a, b.artifacts)
          if K is None or T.partition_key_source(K, b.artifacts) is None:
            probs.append("%s: partition is not `curve_type == curve id` with the id ranging over the factory's keys or the batch's curve types" % b.where())
  ctx.record(R, "check bodies", "per-curve partitions are disjoint filters mapped back by index", not probs and n >= 4, "; ".join(sorted(set(probs))) or
             "%d partitioned result loops: filter on curve_type == key of the factory, results indexed by the partition's own enumeration" % n)
