"""C18 - checks are total on well-formed batches (empty batch / empty partition / null curves)."""
from __future__ import annotations
import ast
from pcstatic import sym, abseval
from pcstatic.abseval import A, C, EMPTY, UNK, Evaluator, Definite
from pcstatic.core import Incomplete
from pcstatic.loader import norm, Cls
from pcstatic.poly import Poly, Atom, P
from pcstatic.sym import Const, Seq, as_poly
from . import template as T

META = {
    "level": "other",
    "trusted_base": ["Python ast parser", "Python list/dict/range semantics on empty containers",
                     "pcstatic abstract evaluator (domain: EMPTY / constant / list of known length / object / unknown)"],
    "assumptions": ["only *definite* exceptions are reported: an exception on the empty batch that depends on unknown values is not claimed absent"],
    "explanation": ("Interprocedural constant propagation of the abstract input 'empty batch' through all three entry points and "
                    "all registered Check methods, executing per-curve loops definitely over the literal CURVE_FACTORY table (so every "
                    "per-curve body is also evaluated on an empty partition); nullness/dominance analysis of every value drawn from "
                    "CURVE_FACTORY; non-empty-value invariant of the issuer index map."),
}


def curve_table(repo):
  """Literal entries of ec_util.CURVE_FACTORY in order: [(key text, 'curve'|'none')]."""
  m = repo.mod("ec_util")
  node = m.consts.get("CURVE_FACTORY")
  if not isinstance(node, ast.Dict):
    raise Incomplete("ec_util.CURVE_FACTORY is not a dict literal", "ec_util")
  out = []
  for k, v in zip(node.keys, node.values):
    if k is None:
      raise Incomplete("CURVE_FACTORY uses ** expansion", "ec_util")
    if isinstance(v, ast.Constant) and v.value is None:
      out.append((ast.unparse(k), "none", v))
    elif isinstance(v, ast.Call) and ast.unparse(v.func) == "EcCurve":
      out.append((ast.unparse(k), "curve", v))
    else:
      raise Incomplete("CURVE_FACTORY value %s is neither None nor EcCurve(...)" % ast.unparse(v)[:40], "ec_util")
  return out


def const_tables(repo):
  ent = curve_table(repo)
  items = [(UNK, A("obj", "EcCurve")) if kind == "curve" else (UNK, C(None)) for _, kind, _ in ent]
  return {"ec_util.CURVE_FACTORY": {"items": items, "values": [(v,) for _, v in items], "keys": [(UNK,) for _ in items]}}


def run(ctx):
  repo = ctx.repo
  rule_empty(ctx)
  rule_null(ctx)
  rule_nonempty_dict(ctx)
  rule_bool(ctx)
  rule_window(ctx)
  ctx.expect("R-C18-WINDOW", 1, "one windowed lattice call")
  ctx.expect("R-C18-EMPTY", 24 + 3, "24 Check bodies + 3 entry points")
  ctx.expect("R-C18-NULL", 7, "seven draws from CURVE_FACTORY")
  ctx.expect("R-C18-BOOL", 24, "24 Check bodies")


def rule_empty(ctx):
  R = "R-C18-EMPTY"
  repo = ctx.repo
  tables = const_tables(repo)
  results = {}
  for c, f in T.check_bodies(repo):
    ev = Evaluator(repo, tables)
    try:
      r = ev.call_func(f, [EMPTY], {}, A("obj", c.name))
    except Definite as d:
      ctx.violation(R, f.where, "Check(empty batch)", "definite exception: " + d.chain, chain=d.chain)
      results[c.name] = None
      continue
    results[c.name] = r
    good = r.k == "const" and r.v is False
    if good:
      ctx.ok(R, f.where, "Check(empty batch)", "returns the constant False; per-curve bodies evaluated on an empty partition (%d calls followed, %d merely possible exceptions noted)" % (ev.calls, len(ev.possible)),
             possible=ev.possible[:5])
    elif r.k == "const":
      ctx.violation(R, f.where, "Check(empty batch)", "returns %r instead of False on an empty batch" % (r.v,))
    else:
      ctx.incomplete(R, f.where, "Check(empty batch)", "abstract result %r is not a constant" % (r,))
  # entry points: _CheckArtifacts(EMPTY, registry, 0)
  reg = T.registry(repo)
  groups = {"CheckAllRSA": ("_ACTIVE_RSA_SINGLE_CHECKS", "_ACTIVE_RSA_AGGREGATE_CHECKS"),
            "CheckAllEC": ("_ACTIVE_EC_SINGLE_CHECKS", "_ACTIVE_EC_AGGREGATE_CHECKS"),
            "CheckAllECDSASigs": ("_ACTIVE_ECDSA_SIG_CHECKS",)}
  ca = repo.func("paranoid", "_CheckArtifacts")
  for ep, tups in groups.items():
    classes = []
    for t in tups:
      if t not in reg:
        raise Incomplete("registry %s vanished" % t, "paranoid")
      classes += reg[t]
    t2 = dict(tables)
    t2["__registry__"] = {"items": [(UNK, A("obj", c.name)) for c in classes]}
    ev = Evaluator(repo, t2)
    f = repo.func("paranoid", ep)
    try:
      r = ev.call_func(ca, [EMPTY, A("tableiter", ("__registry__", "items")), C(0)], {})
    except Definite as d:
      ctx.violation(R, f.where, "entry point(empty batch)", "definite exception: " + d.chain, chain=d.chain)
      continue
    good = r.k == "const" and r.v is False
    if good:
      ctx.ok(R, f.where, "entry point(empty batch)", "_CheckArtifacts over %d registered checks returns False, no definite exception" % len(classes))
    elif r.k == "const":
      ctx.violation(R, f.where, "entry point(empty batch)", "returns %r on an empty batch" % (r.v,))
    else:
      ctx.incomplete(R, f.where, "entry point(empty batch)", "abstract result %r is not a constant" % (r,))
  # BatchGCD / helper level (shared with C03)
  for mod, fn, args, want in (("rsa_util", "BatchGCD", [EMPTY], "empty"), ("ntheory_util", "FastProduct", [EMPTY], 1)):
    f = repo.func(mod, fn)
    ev = Evaluator(repo, tables)
    try:
      r = ev.call_func(f, args, {})
    except Definite as d:
      ctx.violation(R, f.where, "%s(empty)" % fn, "definite exception: " + d.chain)
      continue
    if want == "empty":
      ctx.record(R, f.where, "%s(empty)" % fn, True if r.k == "empty" else (None if r.k == "unk" else False), "returns %r" % (r,))
    else:
      ctx.record(R, f.where, "%s(empty)" % fn, True if (r.k == "const" and r.v == want) else (None if r.k == "unk" else False), "returns %r" % (r,))


# ------------------------------------------------------------------ NULL
def from_factory(p):
  """Is value p drawn from CURVE_FACTORY (get / items / subscript)? -> 'get'|'idx'|None"""
  a = p.as_atom() if isinstance(p, Poly) else None
  if a is None:
    return None
  ref = P("ref", "ec_util.CURVE_FACTORY")
  if a.kind == "get" and a.args[0] == ref:
    return "get"
  if a.kind == "idx" and a.args[0] == ref:
    return "idx"
  return None


def none_tested(p, facts):
  for f in facts:
    if f[0] == "cmp" and f[1] in ("IsNot", "NotEq") and isinstance(f[3], Const) and f[3].v is None and as_poly(f[2]) == p:
      return True
    if f[0] == "truthy" and as_poly(f[1]) == p:
      return True
  return False


def rule_null(ctx):
  R = "R-C18-NULL"
  repo = ctx.repo
  n_draw = 0
  mods = [m for m in repo.modules.values() if m.short != "ec_util"]
  for m in mods:
    src = m.src
    if "CURVE_FACTORY" not in src:
      continue
    funcs = list(m.funcs.values()) + [f for c in m.classes.values() for f in c.methods.values()]
    for f in funcs:
      if "CURVE_FACTORY" not in ast.unparse(f.node):
        continue
      w = sym.Walker(repo, f)
      w.track_attr = True
      w.run()
      uses = {}
      for e in w.events:
        base = None
        if e.kind == "attr":
          base = as_poly(e.data["base"])
        elif e.kind == "call" and e.data["name"].startswith("meth:") and e.data["recv"] is not None:
          base = as_poly(e.data["recv"])
          if e.data["name"] in ("meth:get", "meth:items", "meth:keys", "meth:values"):
            continue
        if base is None:
          continue
        how = from_factory(base)
        if how is None:
          continue
        ok = none_tested(base, e.facts)
        key = norm(e.node)
        prev = uses.get(key)
        uses[key] = (ok if prev is None else (prev[0] and ok), how)
      draws = set()
      for n in ast.walk(f.node):
        if isinstance(n, ast.Attribute) and n.attr == "CURVE_FACTORY":
          draws.add(n.lineno)
        elif isinstance(n, ast.Name) and n.id == "CURVE_FACTORY":
          draws.add(n.lineno)
      n_draw += len(draws)
      if not uses:
        ctx.ok(R, f.where, "draw", "curve value is drawn but never dereferenced in this function")
      for key, (ok, how) in uses.items():
        ctx.record(R, f.where, key, ok, "dereference dominated by an `is None` test with non-fall-through body" if ok else
                   "value drawn from CURVE_FACTORY (%s) is dereferenced without a dominating None test: binary-field / unknown curves map to None" % how)
      # subscripts with keys that are not known members raise KeyError
      for n in ast.walk(f.node):
        if isinstance(n, ast.Subscript) and "CURVE_FACTORY" in ast.unparse(n.value) and not isinstance(n.ctx, ast.Store):
          ok = subscript_key_safe(ctx, repo, f, n)
          ctx.record(R, f.where, norm(n), ok, "subscript key provenance: every caller passes ids enumerated from CURVE_FACTORY.items()" if ok else
                     "CURVE_FACTORY[...] with a key that is not known to be a member (unknown curve ids raise KeyError); use .get(id, None)")
  ctx.extra["factory_draw_sites"] = n_draw


def subscript_key_safe(ctx, repo, f, node):
  """Key is a parameter: every call site in the package must pass a key bound by `for k, v in CURVE_FACTORY.items()`."""
  if not isinstance(node.slice, ast.Name) or node.slice.id not in f.params():
    return False
  pidx = f.params().index(node.slice.id)
  callers = 0
  for g in repo.all_funcs():
    for c in ast.walk(g.node):
      if isinstance(c, ast.Call):
        r = repo.resolve_expr(g.module, c.func)
        if r is f:
          callers += 1
          arg = c.args[pidx] if len(c.args) > pidx else None
          if arg is None:
            for k in c.keywords:
              if k.arg == node.slice.id:
                arg = k.value
          if not isinstance(arg, ast.Name):
            return False
          if not bound_by_factory_items(g.node, arg.id, c):
            return False
  return callers > 0


def bound_by_factory_items(fn, name, call):
  for n in ast.walk(fn):
    if isinstance(n, ast.For) and "CURVE_FACTORY.items()" in ast.unparse(n.iter):
      if isinstance(n.target, ast.Tuple) and isinstance(n.target.elts[0], ast.Name) and n.target.elts[0].id == name:
        inside = any(x is call for x in ast.walk(n))
        reassigned = any(isinstance(x, ast.Name) and x.id == name and isinstance(x.ctx, ast.Store) and x is not n.target.elts[0]
                         for x in ast.walk(n))
        if inside and not reassigned:
          return True
  return False


# ------------------------------------------------------------------ NONEMPTY-DICT
def rule_nonempty_dict(ctx):
  R = "R-C18-NONEMPTY-DICT"
  repo = ctx.repo
  f = repo.func("ecdsa_sig_checks", "_MapIssuerSigIndexes")
  body = f.node.body
  # d = collections.defaultdict(list); only mutation d[k].append(x); returned
  var = None
  for st in body:
    if isinstance(st, ast.Assign) and isinstance(st.value, ast.Call) and ast.unparse(st.value) in ("collections.defaultdict(list)", "defaultdict(list)"):
      var = st.targets[0].id if isinstance(st.targets[0], ast.Name) else None
  ok = var is not None
  why = "" if ok else "index map is not a defaultdict(list)"
  if ok:
    for n in ast.walk(f.node):
      if isinstance(n, ast.Subscript) and isinstance(n.value, ast.Name) and n.value.id == var and isinstance(n.ctx, ast.Store):
        ok = False
        why = "index map entries are assigned directly (could be empty lists)"
      if isinstance(n, ast.Call) and isinstance(n.func, ast.Attribute) and isinstance(n.func.value, ast.Name) and n.func.value.id == var:
        ok = False
        why = "index map mutated by .%s()" % n.func.attr
      if isinstance(n, ast.Subscript) and isinstance(n.value, ast.Name) and n.value.id == var and isinstance(n.ctx, ast.Load):
        pass
    appends = [n for n in ast.walk(f.node) if isinstance(n, ast.Call) and isinstance(n.func, ast.Attribute) and n.func.attr == "append"
               and isinstance(n.func.value, ast.Subscript) and isinstance(n.func.value.value, ast.Name) and n.func.value.value.id == var]
    others = [n for n in ast.walk(f.node) if isinstance(n, ast.Call) and isinstance(n.func, ast.Attribute)
              and isinstance(n.func.value, ast.Subscript) and isinstance(n.func.value.value, ast.Name) and n.func.value.value.id == var
              and n.func.attr != "append"]
    if not appends or others:
      ok = False
      why = "entries are not created exclusively by d[k].append(i)"
    rets = [n for n in ast.walk(f.node) if isinstance(n, ast.Return)]
    if not all(isinstance(r.value, ast.Name) and r.value.id == var for r in rets):
      ok = False
      why = "returns something else than the index map"
  ctx.record(R, f.where, "defaultdict(list) + append only", ok, why or "every value of the issuer index map is a non-empty list")
  # consumers indexing [-1]/[0] of a per-issuer collection must draw it from that map
  for cname in ("CheckCr50U2f", "BiasedBaseCheck"):
    c = repo.cls("ecdsa_sig_checks", cname)
    chk = c.methods.get("Check")
    if chk is None:
      continue
    for n in ast.walk(chk.node):
      if isinstance(n, ast.Subscript) and isinstance(n.slice, ast.UnaryOp) and isinstance(n.slice.op, ast.USub) and isinstance(n.value, ast.Name):
        # var[-1]: var must be list({... for idx in idxs}) with idxs from pks.items(), pks = _MapIssuerSigIndexes(sigs)
        ok2 = nonempty_provenance(chk.node, n.value.id)
        ctx.record(R, chk.where, norm(n), ok2, "indexed collection is built from a non-empty index list of the issuer map" if ok2 else
                   "%s may be empty: it is not derived from a value of _MapIssuerSigIndexes" % n.value.id)


def nonempty_provenance(fn, var):
  """var = list({ f(x) for x in IDXS }) / [f(x) for x in IDXS] where IDXS is the value target of `for _, IDXS in PKS.items()`
  and PKS = _MapIssuerSigIndexes(...)."""
  assign = None
  for n in ast.walk(fn):
    if isinstance(n, ast.Assign) and len(n.targets) == 1 and isinstance(n.targets[0], ast.Name) and n.targets[0].id == var:
      assign = n
  if assign is None:
    return False
  v = assign.value
  if isinstance(v, ast.Call) and isinstance(v.func, ast.Name) and v.func.id in ("list", "sorted", "tuple") and len(v.args) == 1:
    v = v.args[0]
  if not isinstance(v, (ast.SetComp, ast.ListComp)) or len(v.generators) != 1 or v.generators[0].ifs:
    return False
  it = v.generators[0].iter
  if not isinstance(it, ast.Name):
    return False
  idxs = it.id
  for n in ast.walk(fn):
    if isinstance(n, ast.For) and isinstance(n.target, ast.Tuple) and len(n.target.elts) == 2 and isinstance(n.target.elts[1], ast.Name) \
       and n.target.elts[1].id == idxs and isinstance(n.iter, ast.Call) and isinstance(n.iter.func, ast.Attribute) and n.iter.func.attr == "items" \
       and isinstance(n.iter.func.value, ast.Name):
      pks = n.iter.func.value.id
      if any(x is assign for x in ast.walk(n)):
        for a in ast.walk(fn):
          if isinstance(a, ast.Assign) and isinstance(a.targets[0], ast.Name) and a.targets[0].id == pks and isinstance(a.value, ast.Call) \
             and ast.unparse(a.value.func).endswith("_MapIssuerSigIndexes"):
            return True
  return False


# ------------------------------------------------------------------ BOOL
def rule_bool(ctx):
  R = "R-C18-BOOL"
  from . import c16
  for b in T.bodies(ctx.repo):
    wv = c16.weak_var(b)
    probs = []
    if wv is None:
      probs.append("not every path returns the boolean accumulator")
    else:
      for e in b.events:
        if e.kind in ("assign",) and e.data["name"] == wv:
          v = e.data["value"]
          if not (isinstance(v, Const) and isinstance(v.v, bool)):
            probs.append("accumulator assigned a non-boolean: %s" % norm(e.node))
    raises = [e for e in b.events if e.kind == "raise"]
    for e in raises:
      probs.append("Check body raises: %s" % norm(e.node))
    ctx.record(R, b.where(), "bool return", not probs, "; ".join(sorted(set(probs))) or "returns the boolean accumulator `%s` on every path, no raise in the body" % wv)


# ------------------------------------------------------------------ WINDOW (no empty sample reaches the lattice code)
def rule_window(ctx):
  """hidden_number_problem.GetLattice divides by len(a) (COMMON_POSTFIX weight): every window a[lo:hi] handed to
  HiddenNumberProblem must be non-empty, i.e. every window start lies below len(a)."""
  R = "R-C18-WINDOW"
  repo = ctx.repo
  # the callee really divides by the sample size
  g = repo.func("hidden_number_problem", "GetLattice")
  divides = any(isinstance(n, ast.BinOp) and isinstance(n.op, (ast.Div, ast.FloorDiv, ast.Mod)) and "len(a)" in ast.unparse(n.right) for n in ast.walk(g.node))
  for b in T.bodies(repo):
    calls = [e for e in b.events if e.kind == "call" and e.data["name"].endswith("hidden_number_problem:HiddenNumberProblem")]
    if not calls:
      continue
    probs = []
    for e in calls:
      for arg in e.data["args"][:2]:
        a = as_poly(arg).as_atom()
        if a is None or a.kind != "slice":
          continue   # whole list: non-empty because the issuer index list is non-empty (R-C18-NONEMPTY-DICT)
        base, lo, hi, step = a.args
        # lo = s0 + k*st for the loop over range(s0, stop, st)
        found = False
        for info in b.loops():
          for vis in info.get("visits", []):
            it = as_poly(vis["iter"]).as_atom()
            if it is None or it.kind != "range":
              continue
            ar = it.args
            s0, stop, st = (Poly.const(0), ar[0], Poly.const(1)) if len(ar) == 1 else ((ar[0], ar[1], Poly.const(1)) if len(ar) == 2 else ar)
            if (lo - (s0 + vis["k"] * st)).is_zero():
              found = True
              d = stop - sym.mk("len", base)
              di = d.as_int()
              s0i = s0.as_int()
              if s0i is None or s0i < 0:
                probs.append("window start is not known to be >= 0")
              if di is None or di > 0:
                probs.append("window starts range up to %r, which is not bounded by len(%s): a start equal to the length yields an empty window (division by len(a) in GetLattice)"
                             % (stop, "a/b"))
        if not found:
          probs.append("window start %r is not an index of a range loop" % (lo,))
    if divides or probs:
      ctx.record(R, b.where(), "every window handed to HiddenNumberProblem is non-empty", not probs, "; ".join(sorted(set(probs))) or
                 "window starts come from range(0, len(a), size): each start is below len(a)")
