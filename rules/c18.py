"""C18 - checks are total on well-formed batches (empty batch / empty partition / null curves)."""
from __future__ import annotations
import ast
from pcstatic import sym, abseval
from pcstatic.abseval import A, C, EMPTY, UNK, Evaluator, Definite
from pcstatic.core import Incomplete
from pcstatic.loader import norm, Cls
from pcstatic.poly import Poly, Atom, P
from pcstatic.sym import Const, Seq, as_poly
from . import template as T

META = {
    "level": "other",
    "trusted_base": ["Python ast parser", "Python list/dict/range semantics on empty containers",
                     "pcstatic abstract evaluator (domain: EMPTY / constant / list of known length / object / unknown)"],
    "assumptions": ["only *definite* exceptions are reported: an exception on the empty batch that depends on unknown values is not claimed absent"],
    "explanation": ("Interprocedural constant propagation of the abstract input 'empty batch' through all three entry points and "
                    "all registered Check methods, executing per-curve loops definitely over the literal CURVE_FACTORY table (so every "
                    "per-curve body is also evaluated on an empty partition); nullness/dominance analysis of every value drawn from "
                    "CURVE_FACTORY; non-empty-value invariant of the issuer index map."),
}


def curve_table(repo):
  """Literal entries of ec_util.CURVE_FACTORY in order: [(key text, 'curve'|'none')]."""
  m = repo.mod("ec_util")
  node = m.consts.get("CURVE_FACTORY")
  if not isinstance(node, ast.Dict):
    raise Incomplete("ec_util.CURVE_FACTORY is not a dict literal", "ec_util")
  out = []
  for k, v in zip(node.keys, node.values):
    if k is None:
      raise Incomplete("CURVE_FACTORY uses ** expansion", "ec_util")
    if isinstance(v, ast.Constant) and v.value is None:
      out.append((ast.unparse(k), "none", v))
    elif isinstance(v, ast.Call) and ast.unparse(v.func) == "EcCurve":
      out.append((ast.unparse(k), "curve", v))
    else:
      raise Incomplete("CURVE_FACTORY value %s is neither None nor EcCurve(...)" % ast.unparse(v)[:40], "ec_util")
  return out


def const_tables(repo):
  ent = curve_table(repo)
  items = [(UNK, A("obj", "EcCurve")) if kind == "curve" else (UNK, C(None)) for _, kind, _ in ent]
  return {"ec_util.CURVE_FACTORY": {"items": items, "values": [(v,) for _, v in items], "keys": [(UNK,) for _ in items]}}


def run(ctx):
  repo = ctx.repo
  rule_empty(ctx)
  rule_null(ctx)
  rule_optional_args(ctx)
  rule_optional_results(ctx)
  rule_nonempty_dict(ctx)
  rule_bool(ctx)
  rule_window(ctx)
  # results are indexed by the position of the artifact in the list that was searched: lists of different length raise IndexError (shared with C02)
  rule_invert(ctx)
  rule_attrs(ctx)
  ctx.expect("R-C18-ATTRS", 30, "classes of the check, key and number-theory modules")
  rule_defined(ctx)
  ctx.expect("R-C18-DEFINED", 150, "every function of the check, key and number-theory modules")
  ctx.expect("R-C18-INVERT", 5, "affine Add and Double + BatchInverse inputs + lattice row inverses")
  rule_shift(ctx)
  rule_intpow(ctx)
  rule_next(ctx)
  rule_sanity(ctx)
  ctx.expect("R-C18-SANITY", 1, "Cr50U2fSubProblem")
  # an all-zero Jacobian triple makes JacobianToAffine raise ValueError: doubling must send 2-torsion points (y = 0) and infinity to INFINITY_JACOBIAN,
  # and the batched conversions must treat z = 0 (shared with C11)
  from . import c11
  ctx.borrow(c11.rule_dispatch, "R-C18-JACOBIAN", lambda r: "Jacobian" in r.where)
  ctx.expect("R-C18-JACOBIAN", 3, "Jacobian doubling / addition / conversion dispatch")
  ctx.expect("R-C18-INTPOW", 7, "six documented differences + the 2-adic square root")
  ctx.expect("R-C18-SHIFT", 2, "TransformOrderLen and the comb offsets")
  from . import c02
  ctx.borrow(c02.rule_align, "R-C18-ALIGN")
  # gcds[i] is read for every artifact i: BatchGCD must return one entry per input value on every path (shared with C03)
  from . import c03
  ctx.borrow(c03.rule_dedup, "R-C18-ALIGN")
  # a modular inverse of a lattice coordinate is only taken when that coordinate is non-zero modulo n (shared with C08): gmpy2.invert raises otherwise
  from . import c10
  ctx.borrow(c10.rule_lookup, "R-C18-ALIGN")          # self._table[x] only for x in the table (KeyError otherwise)
  from . import c08
  ctx.borrow(c08.rule_extract, "R-C18-INVERT", lambda r: r.where.startswith("hidden_number_problem:"))
  # sigs[idx] with idx from the issuer map: the map must be built over the very list it indexes (the per-curve sub-batch), else IndexError on mixed batches
  ctx.borrow(c08.rule_group, "R-C18-ALIGN", lambda r: r.where.startswith("ecdsa_sig_checks:"))
  # a second AttachFactors on the same key re-reads the recorded set: reader and writer agree on the format (base-16 strings of a literal set), else ValueError
  from . import c01
  ctx.borrow(c01.rule_merge, "R-C18-ALIGN")
  ctx.expect("R-C18-ALIGN", 14, "four Check bodies consuming a batched search + BatchGCD one result per input + index maps of the two per-curve ECDSA checks")
  ctx.expect("R-C18-WINDOW", 1, "one windowed lattice call")
  ctx.expect("R-C18-EMPTY", 24 + 3, "24 Check bodies + 3 entry points")
  ctx.expect("R-C18-NULL", 14, "seven draws from CURVE_FACTORY + optional constructor arguments + two consumers of InverseSqrt2exp")
  ctx.expect("R-C18-BOOL", 24, "24 Check bodies")


def rule_empty(ctx):
  R = "R-C18-EMPTY"
  repo = ctx.repo
  tables = const_tables(repo)
  results = {}
  for c, f in T.check_bodies(repo):
    ev = Evaluator(repo, tables)
    try:
      r = ev.call_func(f, [EMPTY], {}, A("obj", c.name))
    except Definite as d:
      ctx.violation(R, f.where, "Check(empty batch)", "definite exception: " + d.chain, chain=d.chain)
      results[c.name] = None
      continue
    results[c.name] = r
    good = r.k == "const" and r.v is False
    if good:
      ctx.ok(R, f.where, "Check(empty batch)", "returns the constant False; per-curve bodies evaluated on an empty partition (%d calls followed, %d merely possible exceptions noted)" % (ev.calls, len(ev.possible)),
             possible=ev.possible[:5])
    elif r.k == "const":
      ctx.violation(R, f.where, "Check(empty batch)", "returns %r instead of False on an empty batch" % (r.v,))
    else:
      ctx.incomplete(R, f.where, "Check(empty batch)", "abstract result %r is not a constant" % (r,))
  # entry points: _CheckArtifacts(EMPTY, registry, 0)
  reg = T.registry(repo)
  groups = {"CheckAllRSA": ("_ACTIVE_RSA_SINGLE_CHECKS", "_ACTIVE_RSA_AGGREGATE_CHECKS"),
            "CheckAllEC": ("_ACTIVE_EC_SINGLE_CHECKS", "_ACTIVE_EC_AGGREGATE_CHECKS"),
            "CheckAllECDSASigs": ("_ACTIVE_ECDSA_SIG_CHECKS",)}
  ca = repo.func("paranoid", "_CheckArtifacts")
  for ep, tups in groups.items():
    classes = []
    for t in tups:
      if t not in reg:
        raise Incomplete("registry %s vanished" % t, "paranoid")
      classes += reg[t]
    t2 = dict(tables)
    t2["__registry__"] = {"items": [(UNK, A("obj", c.name)) for c in classes]}
    ev = Evaluator(repo, t2)
    f = repo.func("paranoid", ep)
    try:
      r = ev.call_func(ca, [EMPTY, A("tableiter", ("__registry__", "items")), C(0)], {})
    except Definite as d:
      ctx.violation(R, f.where, "entry point(empty batch)", "definite exception: " + d.chain, chain=d.chain)
      continue
    good = r.k == "const" and r.v is False
    if good:
      ctx.ok(R, f.where, "entry point(empty batch)", "_CheckArtifacts over %d registered checks returns False, no definite exception" % len(classes))
    elif r.k == "const":
      ctx.violation(R, f.where, "entry point(empty batch)", "returns %r on an empty batch" % (r.v,))
    else:
      ctx.incomplete(R, f.where, "entry point(empty batch)", "abstract result %r is not a constant" % (r,))
  # BatchGCD / helper level (shared with C03)
  for mod, fn, args, want in (("rsa_util", "BatchGCD", [EMPTY], "empty"), ("ntheory_util", "FastProduct", [EMPTY], 1)):
    f = repo.func(mod, fn)
    ev = Evaluator(repo, tables)
    try:
      r = ev.call_func(f, args, {})
    except Definite as d:
      ctx.violation(R, f.where, "%s(empty)" % fn, "definite exception: " + d.chain)
      continue
    if want == "empty":
      ctx.record(R, f.where, "%s(empty)" % fn, True if r.k == "empty" else (None if r.k == "unk" else False), "returns %r" % (r,))
    else:
      ctx.record(R, f.where, "%s(empty)" % fn, True if (r.k == "const" and r.v == want) else (None if r.k == "unk" else False), "returns %r" % (r,))


# ------------------------------------------------------------------ NULL
def from_factory(p):
  """Is value p drawn from CURVE_FACTORY (get / items / subscript)? -> 'get'|'idx'|None"""
  a = p.as_atom() if isinstance(p, Poly) else None
  if a is None:
    return None
  ref = P("ref", "ec_util.CURVE_FACTORY")
  if a.kind == "get" and a.args[0] == ref:
    return "get"
  if a.kind == "idx" and a.args[0] == ref:
    return "idx"
  return None


def none_tested(p, facts):
  for f in facts:
    if f[0] == "cmp" and f[1] in ("IsNot", "NotEq") and isinstance(f[3], Const) and f[3].v is None and as_poly(f[2]) == p:
      return True
    if f[0] == "truthy" and as_poly(f[1]) == p:
      return True
  return False


def rule_null(ctx):
  R = "R-C18-NULL"
  repo = ctx.repo
  n_draw = 0
  mods = [m for m in repo.modules.values() if m.short != "ec_util"]
  for m in mods:
    src = m.src
    if "CURVE_FACTORY" not in src:
      continue
    funcs = list(m.funcs.values()) + [f for c in m.classes.values() for f in c.methods.values()]
    for f in funcs:
      if "CURVE_FACTORY" not in ast.unparse(f.node):
        continue
      w = sym.Walker(repo, f)
      w.track_attr = True
      w.run()
      uses = {}
      for e in w.events:
        base = None
        if e.kind == "attr":
          base = as_poly(e.data["base"])
        elif e.kind == "call" and e.data["name"].startswith("meth:") and e.data["recv"] is not None:
          base = as_poly(e.data["recv"])
          if e.data["name"] in ("meth:get", "meth:items", "meth:keys", "meth:values"):
            continue
        if base is None:
          continue
        how = from_factory(base)
        if how is None:
          continue
        ok = none_tested(base, e.facts)
        key = norm(e.node)
        prev = uses.get(key)
        uses[key] = (ok if prev is None else (prev[0] and ok), how)
      draws = set()
      for n in ast.walk(f.node):
        if isinstance(n, ast.Attribute) and n.attr == "CURVE_FACTORY":
          draws.add(n.lineno)
        elif isinstance(n, ast.Name) and n.id == "CURVE_FACTORY":
          draws.add(n.lineno)
      n_draw += len(draws)
      if not uses:
        ctx.ok(R, f.where, "draw", "curve value is drawn but never dereferenced in this function")
      for key, (ok, how) in uses.items():
        ctx.record(R, f.where, key, ok, "dereference dominated by an `is None` test with non-fall-through body" if ok else
                   "value drawn from CURVE_FACTORY (%s) is dereferenced without a dominating None test: binary-field / unknown curves map to None" % how)
      # subscripts with keys that are not known members raise KeyError
      for n in ast.walk(f.node):
        if isinstance(n, ast.Subscript) and "CURVE_FACTORY" in ast.unparse(n.value) and not isinstance(n.ctx, ast.Store):
          ok = subscript_key_safe(ctx, repo, f, n)
          ctx.record(R, f.where, norm(n), ok, "subscript key provenance: every caller passes ids enumerated from CURVE_FACTORY.items()" if ok else
                     "CURVE_FACTORY[...] with a key that is not known to be a member (unknown curve ids raise KeyError); use .get(id, None)")
  ctx.extra["factory_draw_sites"] = n_draw


def subscript_key_safe(ctx, repo, f, node):
  """Key is a parameter: every call site in the package must pass a key bound by `for k, v in CURVE_FACTORY.items()`."""
  if not isinstance(node.slice, ast.Name) or node.slice.id not in f.params():
    return False
  pidx = f.params().index(node.slice.id)
  callers = 0
  for g in repo.all_funcs():
    for c in ast.walk(g.node):
      if isinstance(c, ast.Call):
        r = repo.resolve_expr(g.module, c.func)
        if r is f:
          callers += 1
          arg = c.args[pidx] if len(c.args) > pidx else None
          if arg is None:
            for k in c.keywords:
              if k.arg == node.slice.id:
                arg = k.value
          if not isinstance(arg, ast.Name):
            return False
          if not bound_by_factory_items(g.node, arg.id, c):
            return False
  return callers > 0


def bound_by_factory_items(fn, name, call):
  for n in ast.walk(fn):
    if isinstance(n, ast.For) and "CURVE_FACTORY.items()" in ast.unparse(n.iter):
      if isinstance(n.target, ast.Tuple) and isinstance(n.target.elts[0], ast.Name) and n.target.elts[0].id == name:
        inside = any(x is call for x in ast.walk(n))
        reassigned = any(isinstance(x, ast.Name) and x.id == name and isinstance(x.ctx, ast.Store) and x is not n.target.elts[0]
                         for x in ast.walk(n))
        if inside and not reassigned:
          return True
  return False


# ------------------------------------------------------------------ NONEMPTY-DICT
def rule_nonempty_dict(ctx):
  R = "R-C18-NONEMPTY-DICT"
  repo = ctx.repo
  f = repo.func("ecdsa_sig_checks", "_MapIssuerSigIndexes")
  # d = collections.defaultdict(list); only mutation d[k].append(x); returned (decided on values, shared with R-C02-SANITISE)
  from . import c02 as _c02
  mp = _c02.issuer_map_problems(repo)
  ok = not mp
  why = "; ".join(sorted(set(mp)))
  ctx.record(R, f.where, "defaultdict(list) + append only", ok, why or "every value of the issuer index map is a non-empty list")
  # consumers indexing [-1]/[0] of a per-issuer collection must draw it from that map
  for cname in ("CheckCr50U2f", "BiasedBaseCheck"):
    c = repo.cls("ecdsa_sig_checks", cname)
    chk = c.methods.get("Check")
    if chk is None:
      continue
    for n in ast.walk(chk.node):
      if isinstance(n, ast.Subscript) and isinstance(n.slice, ast.UnaryOp) and isinstance(n.slice.op, ast.USub) and isinstance(n.value, ast.Name):
        # var[-1]: var must be list({... for idx in idxs}) with idxs from pks.items(), pks = _MapIssuerSigIndexes(sigs)
        ok2 = nonempty_provenance(chk.node, n.value.id)
        ctx.record(R, chk.where, norm(n), ok2, "indexed collection is built from a non-empty index list of the issuer map" if ok2 else
                   "%s may be empty: it is not derived from a value of _MapIssuerSigIndexes" % n.value.id)


def nonempty_provenance(fn, var):
  """var = list({ f(x) for x in IDXS }) / [f(x) for x in IDXS] where IDXS is the value target of `for _, IDXS in PKS.items()`
  and PKS = _MapIssuerSigIndexes(...)."""
  assign = None
  for n in ast.walk(fn):
    if isinstance(n, ast.Assign) and len(n.targets) == 1 and isinstance(n.targets[0], ast.Name) and n.targets[0].id == var:
      assign = n
  if assign is None:
    return False
  v = assign.value
  if isinstance(v, ast.Call) and isinstance(v.func, ast.Name) and v.func.id in ("list", "sorted", "tuple") and len(v.args) == 1:
    v = v.args[0]
  if not isinstance(v, (ast.SetComp, ast.ListComp)) or len(v.generators) != 1 or v.generators[0].ifs:
    return False
  it = v.generators[0].iter
  if not isinstance(it, ast.Name):
    return False
  idxs = it.id
  for n in ast.walk(fn):
    over_items = isinstance(n, ast.For) and isinstance(n.target, ast.Tuple) and len(n.target.elts) == 2 and isinstance(n.target.elts[1], ast.Name) \
        and n.target.elts[1].id == idxs and isinstance(n.iter, ast.Call) and isinstance(n.iter.func, ast.Attribute) and n.iter.func.attr == "items" \
        and isinstance(n.iter.func.value, ast.Name)
    over_values = isinstance(n, ast.For) and isinstance(n.target, ast.Name) and n.target.id == idxs and isinstance(n.iter, ast.Call) \
        and isinstance(n.iter.func, ast.Attribute) and n.iter.func.attr == "values" and isinstance(n.iter.func.value, ast.Name)
    if over_items or over_values:
      pks = n.iter.func.value.id
      if any(x is assign for x in ast.walk(n)):
        for a in ast.walk(fn):
          if isinstance(a, ast.Assign) and isinstance(a.targets[0], ast.Name) and a.targets[0].id == pks and isinstance(a.value, ast.Call) \
             and ast.unparse(a.value.func).endswith("_MapIssuerSigIndexes"):
            return True
  return False


# ------------------------------------------------------------------ BOOL
def rule_bool(ctx):
  R = "R-C18-BOOL"
  from . import c16
  for b in T.bodies(ctx.repo):
    wv = c16.weak_var(b)
    probs = []
    if wv is None:
      probs.append("not every path returns the boolean accumulator")
    else:
      for e in b.events:
        if e.kind in ("assign",) and e.data["name"] == wv:
          v = e.data["value"]
          if not boolean_valued(v):
            probs.append("accumulator assigned a non-boolean: %s" % norm(e.node))
    raises = [e for e in b.events if e.kind == "raise"]
    for e in raises:
      probs.append("Check body raises: %s" % norm(e.node))
    ctx.record(R, b.where(), "bool return", not probs, "; ".join(sorted(set(probs))) or "returns the boolean accumulator `%s` on every path, no raise in the body" % wv)


# ------------------------------------------------------------------ WINDOW (no empty sample reaches the lattice code)
def rule_window(ctx):
  """hidden_number_problem.GetLattice divides by len(a) (COMMON_POSTFIX weight): every window a[lo:hi] handed to
  HiddenNumberProblem must be non-empty, i.e. every window start lies below len(a)."""
  R = "R-C18-WINDOW"
  repo = ctx.repo
  # the callee really divides by the sample size
  g = repo.func("hidden_number_problem", "GetLattice")
  divides = any(isinstance(n, ast.BinOp) and isinstance(n.op, (ast.Div, ast.FloorDiv, ast.Mod)) and "len(a)" in ast.unparse(n.right) for n in ast.walk(g.node))
  for b in T.bodies(repo):
    calls = [e for e in b.events if e.kind == "call" and e.data["name"].endswith("hidden_number_problem:HiddenNumberProblem")]
    if not calls:
      continue
    probs = []
    for e in calls:
      for arg in e.data["args"][:2]:
        a = as_poly(arg).as_atom()
        if a is None or a.kind != "slice":
          continue   # whole list: non-empty because the issuer index list is non-empty (R-C18-NONEMPTY-DICT)
        base, lo, hi, step = a.args
        # lo = s0 + k*st for the loop over range(s0, stop, st)
        found = False
        for info in b.loops():
          for vis in info.get("visits", []):
            it = as_poly(vis["iter"]).as_atom()
            if it is None or it.kind != "range":
              continue
            ar = it.args
            s0, stop, st = (Poly.const(0), ar[0], Poly.const(1)) if len(ar) == 1 else ((ar[0], ar[1], Poly.const(1)) if len(ar) == 2 else ar)
            if (lo - (s0 + vis["k"] * st)).is_zero():
              found = True
              from pcstatic import wtable as _wt
              d = _wt.fold_len(stop - sym.mk("len", base))          # len of a comprehension is the len of what it runs over (a and b built over the same values)
              di = d.as_int()
              s0i = s0.as_int()
              if s0i is None or s0i < 0:
                probs.append("window start is not known to be >= 0")
              if di is None or di > 0:
                probs.append("window starts range up to %r, which is not bounded by len(%s): a start equal to the length yields an empty window (division by len(a) in GetLattice)"
                             % (stop, "a/b"))
        if not found:
          probs.append("window start %r is not an index of a range loop" % (lo,))
    if divides or probs:
      ctx.record(R, b.where(), "every window handed to HiddenNumberProblem is non-empty", not probs, "; ".join(sorted(set(probs))) or
                 "window starts come from range(0, len(a), size): each start is below len(a)")


# ------------------------------------------------------------------ INVERT: no modular inversion of a value that may be 0 modulo the prime
def check_seeds(repo, ec_methods):
  """(method, param, reason) for every EcCurve method that a Check body calls with points read straight from the artifacts."""
  seeds = []
  for b in T.bodies(repo):
    fn = b.func.node
    has_pp = lambda e: any(isinstance(x, ast.Call) and ((isinstance(x.func, ast.Attribute) and x.func.attr == "PublicPoint") or
                                                         (isinstance(x.func, ast.Name) and x.func.id == "PublicPoint")) for x in ast.walk(e))
    Tn = set()
    for _ in range(4):
      for n in ast.walk(fn):
        if isinstance(n, ast.Assign):
          if has_pp(n.value) or any(isinstance(x, ast.Name) and x.id in Tn for x in ast.walk(n.value)):
            for t in n.targets:
              for x in ast.walk(t):
                if isinstance(x, ast.Name):
                  Tn.add(x.id)
        elif isinstance(n, ast.Call) and isinstance(n.func, ast.Attribute) and n.func.attr in ("append", "extend", "insert", "add") and isinstance(n.func.value, ast.Name):
          if any(has_pp(a_) or any(isinstance(x, ast.Name) and x.id in Tn for x in ast.walk(a_)) for a_ in n.args):
            Tn.add(n.func.value.id)
    for n in ast.walk(fn):
      if isinstance(n, ast.Call) and isinstance(n.func, ast.Attribute) and n.func.attr in ec_methods and not (isinstance(n.func.value, ast.Name) and n.func.value.id in ("util", "ec_util")):
        ps = [a.arg for a in ec_methods[n.func.attr].node.args.args if a.arg != "self"]
        for i, a in enumerate(n.args):
          if i < len(ps) and (has_pp(a) or any(isinstance(x, ast.Name) and x.id in Tn for x in ast.walk(a))):
            seeds.append((n.func.attr, ps[i], "%s line %d: coordinates of the artifact, unvalidated" % (b.where(), n.lineno)))
  return seeds


def rule_invert(ctx):
  R = "R-C18-INVERT"
  repo = ctx.repo
  from pcstatic import taint
  cls = repo.cls("ec_util", "EcCurve")
  ct = taint.ClassTaint(cls)
  seeds = check_seeds(repo, cls.methods)
  if len(seeds) < 3:
    raise Incomplete("fewer than three Check bodies hand artifact points to EcCurve (found %d)" % len(seeds), "ec checks")
  tainted = ct.run(seeds)
  ctx.extra["raw_point_methods"] = {m: sorted(ps) for m, ps in sorted(tainted.items())}
  MODP = sym.mk("attr", P("param", "self"), "mod")
  n_sites = 0
  for m in sorted(tainted):
    f = cls.methods[m]
    sites = [n for n in ast.walk(f.node) if isinstance(n, ast.Call) and isinstance(n.func, ast.Attribute) and n.func.attr == "invert"]
    if not sites:
      continue
    Tl = ct.local.get(m, set())
    raw_sites = [n for n in sites if n.args and ct.expr(n.args[0], Tl, {"mod"})]
    if not raw_sites:
      continue
    w = sym.Walker(repo, f)
    w.run()
    for site in raw_sites:
      n_sites += 1
      evs = [e for e in w.events if e.kind == "call" and e.node is site]
      if not evs:
        ctx.incomplete(R, f.where, norm(site), "inversion site not reached by the walker")
        continue
      bad = None
      for e in evs:
        args = e.data["args"]
        d, M = as_poly(args[0]), as_poly(args[1])
        if M != MODP:
          continue
        if not nonzero_mod(d, M, e.facts) and not canonical_z(cls, d, e.facts):
          bad = e
      chain = ct.chain(m, sorted(tainted[m])[0])
      ctx.record(R, f.where, norm(site), bad is None, ("operand is tested non-zero modulo self.mod on every path" if bad is None else
                 "raises ZeroDivisionError when the operand is a non-zero multiple of the prime or 0: no path condition makes %r non-zero modulo self.mod, and "
                 "unreduced artifact coordinates reach this function: %s" % (as_poly(bad.data["args"][0]), " ; ".join(chain))))
  ctx.extra["raw_inversion_sites"] = n_sites
  # BatchInverse skips only entries that are 0 or None *as integers* and multiplies everything else into one product: an entry that is a non-zero
  # multiple of the prime makes the shared inversion fail.  Its callers must therefore hand it canonical residues, never raw coordinate arithmetic.
  bi = cls.methods.get("BatchInverse")
  if bi is not None:
    bad = []
    n_calls = 0
    for m in sorted(tainted):
      fm = cls.methods[m]
      Tl = ct.local.get(m, set())
      for call in ast.walk(fm.node):
        if not (isinstance(call, ast.Call) and isinstance(call.func, ast.Attribute) and call.func.attr == "BatchInverse" and call.args):
          continue
        n_calls += 1
        arg = call.args[0]
        exprs = []
        if isinstance(arg, ast.Name):
          # what the list holds when it is handed over: bindings and element stores that precede the call in the source
          for n_ in ast.walk(fm.node):
            if isinstance(n_, ast.Assign) and getattr(n_, "lineno", 0) < call.lineno:
              for t in n_.targets:
                r = t
                while isinstance(r, ast.Subscript):
                  r = r.value
                if isinstance(r, ast.Name) and r.id == arg.id:
                  exprs.append(n_.value)
        else:
          exprs.append(arg)
        # taint of those expressions, with the list itself taken as clean (its later, post-inversion contents do not count)
        T2 = set(Tl) - ({arg.id} if isinstance(arg, ast.Name) else set())
        for ex in exprs:
          if ct.expr(ex, T2, {"mod"}):
            bad.append("%s line %d: `%s`" % (m, getattr(ex, "lineno", call.lineno), norm(ex)[:60]))
    chain = ct.chain(bad[0].split(" ")[0], sorted(tainted[bad[0].split(" ")[0]])[0]) if bad else []
    ctx.record(R, bi.where, "entries handed to BatchInverse are reduced modulo the prime", not bad,
               "%d call sites in methods that see artifact coordinates: every denominator is reduced modulo self.mod (or a Jacobian z)" % n_calls if not bad else
               "unreduced artifact coordinates are put into the list whose product is inverted (a non-zero multiple of the prime is not skipped by `if v:`): %s ; reached through %s" %
               ("; ".join(bad[:3]), " ; ".join(chain)))

def nonzero_mod(d, M, facts):
  for fc in facts:
    e = None
    if fc[0] == "cmp" and fc[1] == "NotEq" and not isinstance(fc[2], Seq) and not isinstance(fc[3], Seq) and as_poly(fc[3]).is_zero():
      e = as_poly(fc[2])
    elif fc[0] == "cmp" and fc[1] == "NotEq" and not isinstance(fc[2], Seq) and not isinstance(fc[3], Seq) and as_poly(fc[2]).is_zero():
      e = as_poly(fc[3])
    elif fc[0] == "truthy" and not isinstance(fc[1], Seq):
      e = as_poly(fc[1])
    if e is None:
      continue
    a = e.as_atom()
    if a is None or a.kind != "mod" or as_poly(a.args[1]) != M:
      continue
    inner = as_poly(a.args[0])
    for c in (1, -1, 2, -2, 3, -3):
      if (d - inner * c).is_zero():
        return True
  return False


def canonical_z(cls, d, facts):
  """d is the z-coordinate of a Jacobian parameter, tested != 0 as an integer: enough because every Jacobian triple built in EcCurve has a
  z that is a literal, reduced modulo the prime, or copied from a parameter's own z (checked here on all 3-tuples of the class)."""
  a = d.as_atom()
  if a is None or a.kind != "idx" or as_poly(a.args[1]).as_int() != 2 or as_poly(a.args[0]).as_atom() is None or as_poly(a.args[0]).as_atom().kind != "param":
    return False
  if not any(fc[0] == "cmp" and fc[1] == "NotEq" and not isinstance(fc[2], Seq) and as_poly(fc[2]) == d and not isinstance(fc[3], Seq) and as_poly(fc[3]).is_zero() for fc in facts):
    return False
  from pcstatic.taint import ClassTaint
  for m, f in cls.methods.items():
    zparams = set()
    for n in ast.walk(f.node):
      if isinstance(n, ast.Assign) and len(n.targets) == 1 and isinstance(n.targets[0], ast.Tuple) and len(n.targets[0].elts) == 3 and isinstance(n.value, ast.Name):
        z = n.targets[0].elts[2]
        if isinstance(z, ast.Name):
          zparams.add(z.id)
    for r in ast.walk(f.node):
      n = r.value if isinstance(r, ast.Return) else None
      if isinstance(n, ast.Tuple) and len(n.elts) == 3:
        z = n.elts[2]
        ok = isinstance(z, ast.Constant) or (isinstance(z, ast.Name) and (z.id in zparams or ClassTaint._always_reduced(f.node, z.id))) or \
            (isinstance(z, ast.BinOp) and isinstance(z.op, ast.Mod))
        if not ok:
          return False
  return True


def boolean_valued(v):
  """bool constants, comparisons / boolean operators (condition trees) and bool()/any()/all()/isinstance() results."""
  if isinstance(v, Const):
    return isinstance(v.v, bool)
  if isinstance(v, tuple):
    return True
  if isinstance(v, Seq):
    return False
  a = as_poly(v).as_atom()
  if a is None:
    return False
  if a.kind in ("bool", "any", "all", "isinstance", "not"):
    return True
  if a.kind == "ite" and len(a.args) == 3:
    return boolean_valued(a.args[1]) and boolean_valued(a.args[2])
  return False


# ------------------------------------------------------------------ SHIFT: no negative shift count from two independent runtime quantities
def rule_shift(ctx):
  """`x >> e` / `x << e` raises ValueError for e < 0.  Counts that are a difference of two independent runtime quantities (hash length minus order
  length) must be guarded by a comparison that makes them non-negative on the path, or be the index of a range loop that stays >= 0.
  Counts `atom - constant` (bit_length() - 64, psize - 1) are bounded below by the property's own hypotheses and are not judged."""
  R = "R-C18-SHIFT"
  repo = ctx.repo
  from .c12 import canon_le
  n_sites = 0
  for fn in repo.all_funcs(include_examples=False):
    if fn.where.startswith("randomness_tests.") or fn.module.short.endswith("_test"):
      continue
    if not any(isinstance(x, (ast.LShift, ast.RShift)) for x in ast.walk(fn.node)):
      continue
    w = sym.Walker(repo, fn)
    try:
      w.run()
    except Incomplete:
      continue
    # values of range-loop variables that are non-negative by construction
    safe = []
    for info in w.loop_info.values():
      for vis in info["visits"]:
        if vis["iter"] is None or isinstance(vis["iter"], (Seq, Const, tuple)):
          continue
        ra = as_poly(vis["iter"]).as_atom()
        if ra is None or ra.kind != "range":
          continue
        k = as_poly(vis["k"])
        a = ra.args
        if len(a) == 3 and as_poly(a[2]).as_int() == -1 and as_poly(a[1]).as_int() is not None and as_poly(a[1]).as_int() >= -1:
          safe.append(as_poly(a[0]) - k)
        elif len(a) == 1:
          safe.append(k)
        elif len(a) >= 2 and as_poly(a[0]).as_int() is not None and as_poly(a[0]).as_int() >= 0 and (len(a) == 2 or (as_poly(a[2]).as_int() or 0) > 0):
          safe.append(as_poly(a[0]) + k * (as_poly(a[2]) if len(a) == 3 else 1))
    seen = {}
    for e in w.events:
      vals = [e.data.get(k_) for k_ in ("value", "rhs")] + (list(e.data.get("args", [])) if e.kind == "call" else [])
      for v in vals:
        if not isinstance(v, Poly):
          continue
        for at in v.all_atoms():
          if at.kind not in ("shr", "shl"):
            continue
          c = as_poly(at.args[1])
          tops = [(mono, co) for mono, co in c.t.items() if mono]
          if len(tops) < 2 or not (any(co > 0 for m_, co in tops) and any(co < 0 for m_, co in tops)):
            continue
          key = (getattr(e.node, "lineno", 0), repr(c))
          proved = any((c - s_).is_zero() for s_ in safe)
          if not proved:
            for fc in e.facts:
              cl = canon_le(fc) if fc[0] == "cmp" and fc[1] in ("Lt", "LtE", "Gt", "GtE") else None
              if cl is not None and (cl[0] + (c - const_of(c))).is_zero() and cl[1] - const_of(c) <= 0:
                proved = True        # -(c - c0) <= b  =>  c >= c0 - b, which is >= 0 when b - c0 <= 0
          if not proved:
            # ceiling idiom: t * ((x + t - 1) // t) - x >= 0 by the floor lemma (x // t) * t >= x - t + 1
            from .c10 import apply_floor_lemma, provably_nonneg
            LB, used = apply_floor_lemma(c, set())
            if LB is not None and provably_nonneg(LB, set()):
              proved = True
          seen[key] = seen.get(key, True) and proved
    for (line, ctext), ok in sorted(seen.items()):
      n_sites += 1
      ctx.record(R, fn.where, "shift count %s (line %d)" % (ctext[:80], line), ok, "guarded non-negative on every path that shifts" if ok else
                 "the count is a difference of two runtime quantities and no path condition keeps it >= 0: a negative count raises ValueError")
  ctx.extra["difference_shift_sites"] = n_sites


def const_of(p):
  c = p.t.get((), 0)
  return int(c)


# ------------------------------------------------------------------ INTPOW (b ** e with e < 0 is a float: integer-only consumers raise)
def rule_intpow(ctx):
  """`b ** (x - c)` with an integer base is an int only for x >= c; below, it is a float and gmpy2.isqrt / `//` on big integers / shifts raise TypeError
  or lose precision.  Where the path carries a lower bound g on x (a size gate `if x < g: return`), the gate must cover the constant: g >= c.
  Exponents without any gate on the path are bounded by the property's own hypotheses and are not judged."""
  R = "R-C18-INTPOW"
  repo = ctx.repo
  from .c12 import canon_le
  n_sites = 0
  for fn in repo.all_funcs(include_examples=False):
    if fn.where.startswith("randomness_tests.") or fn.module.short.endswith("_test"):
      continue
    if not any(isinstance(x, (ast.Pow, ast.LShift)) for x in ast.walk(fn.node)):
      continue
    w = sym.Walker(repo, fn)
    try:
      w.run()
    except Incomplete:
      continue
    seen = {}
    for e in w.events:
      vals = [e.data.get(k_) for k_ in ("value", "rhs")] + (list(e.data.get("args", [])) if e.kind == "call" else [])
      flat = []
      for v in vals:
        if isinstance(v, Seq):
          flat += [x for x in v.items if isinstance(x, Poly)]
        elif isinstance(v, Poly):
          flat.append(v)
      # a comprehension over a literal tuple stands for its instances: [2 ** (x - d) for d in (100, 128)]
      for v in list(flat):
        for at in v.all_atoms():
          if at.kind == "map" and len(at.args) == 3 and isinstance(at.args[0], Poly) and isinstance(at.args[2], Poly) and at.args[2].as_atom() is not None \
             and at.args[2].as_atom().kind == "seq":
            for i_ in range(len(at.args[2].as_atom().args)):        # the bound variable of a map atom is the position in its source
              flat.append(sym.rebuild(at.args[0].deep_subst(at.args[1], Poly.const(i_))))
      # an element of a literal tuple of constants stands for each constant: 2 ** (x - (100, 128)[k])
      for v in list(flat):
        for at in v.all_atoms():
          sa = at.args[0].as_atom() if at.kind == "idx" and len(at.args) == 2 and isinstance(at.args[0], Poly) else None
          if sa is not None and sa.kind == "seq" and sa.args and all(isinstance(x_, Poly) and x_.as_int() is not None for x_ in sa.args) and as_poly(at.args[1]).as_int() is None:
            for x_ in sa.args:
              flat.append(sym.rebuild(v.deep_subst(at, x_)))
      for v in flat:
        for at in v.all_atoms():
          if at.kind != "pow" or len(at.args) != 2 or (as_poly(at.args[0]).as_int() or 0) < 2:
            continue
          c = as_poly(at.args[1])
          c0 = const_of(c)
          tops = [(mono, co) for mono, co in c.t.items() if mono]
          if c0 >= 0 or len(tops) != 1 or tops[0][1] != 1:
            continue
          x = c - c0
          gates = []
          for fc in e.facts:
            cl = canon_le(fc) if fc[0] == "cmp" and fc[1] in ("Lt", "LtE", "Gt", "GtE") else None
            if cl is not None and (cl[0] + x).is_zero():
              gates.append(-cl[1])          # -x <= b   <=>   x >= -b
          if not gates:
            continue
          key = (repr(x), -c0)
          ok = max(gates) >= -c0
          prev = seen.get(key)
          seen[key] = (ok and (prev[0] if prev else True), max(gates) if prev is None else min(prev[1], max(gates)), getattr(e.node, "lineno", 0))
    for (xt, cst), (ok, g, line) in sorted(seen.items()):
      n_sites += 1
      ctx.record(R, fn.where, "exponent %s - %d" % (xt[:60], cst), ok, "the size gate (>= %d) keeps the exponent non-negative" % g if ok else
                 "the path only guarantees %s >= %d: for values in [%d, %d) the power is a float (2 ** -k) and the integer square root / floor division that consumes it raises TypeError" % (xt[:60], g, g, cst))
  ctx.extra["gated_power_sites"] = n_sites


# ------------------------------------------------------------------ NULL (an optional result consumed without a test)
def rule_optional_results(ctx):
  """ntheory_util.InverseSqrt2exp(n, k) answers None exactly when there is no inverse square root: for k >= 3 iff n % 8 != 1 (R-C19-HENSEL).  A caller
  that hands the result on without testing it (rsa_util.FactorHighAndLowBitsEqual passes it straight to Inverse2exp, which does arithmetic on it) must
  therefore know n % 8 == 1 and k >= 3 at the call: any other modulus (8 | n, say) raises TypeError there."""
  R = "R-C18-NULL"
  repo = ctx.repo
  from pcstatic import termeval
  target = P("lit", "ntheory_util:InverseSqrt2exp")
  n_sites = 0
  for fn in repo.all_funcs(include_examples=False):
    if fn.module.short.endswith("_test") or "InverseSqrt2exp" not in ast.unparse(fn.node) or fn.where.endswith(":InverseSqrt2exp"):
      continue
    w = sym.Walker(repo, fn)
    try:
      w.run()
    except Incomplete:
      continue
    seen = {}
    for e in w.events:
      if e.kind != "call" or not isinstance(e.data.get("value"), Poly):
        continue
      va = e.data["value"].as_atom()
      if va is None or va.kind != "call" or va.args[0] != target or len(va.args) < 3:
        continue
      v = e.data["value"]
      # consumers: later events on a path through this call that mention the result inside a larger term and do not know it is not None
      probs = []
      tested = False
      for e2 in w.events:
        if e2 is e or e2.kind not in ("call", "return", "store", "augassign", "setattr"):
          continue
        vals = [e2.data.get(k_) for k_ in ("value", "rhs", "index")] + list(e2.data.get("args", []) if e2.kind == "call" else [])
        used = False
        for x in vals:
          if isinstance(x, Seq):
            x = as_poly(x)
          if isinstance(x, Poly) and x != v and any(t_ == va for t_ in x.all_atoms()):
            used = True
          if e2.kind == "call" and isinstance(x, Poly) and x == v and x is not e2.data.get("value"):
            used = True               # handed to another function as an argument
        if e2.kind == "call" and isinstance(e2.data.get("value"), Poly) and e2.data["value"] == v:
          continue
        if not used:
          continue
        knows = any((fc[0] == "cmp" and fc[1] in ("IsNot", "NotEq") and isinstance(fc[2], Poly) and fc[2] == v and isinstance(fc[3], Const) and fc[3].v is None) or
                    (fc[0] == "truthy" and isinstance(fc[1], Poly) and fc[1] == v) for fc in e2.facts)
        if knows:
          tested = True
          continue
        nn, kk = va.args[1], va.args[2]
        res1 = any(fc[0] == "cmp" and fc[1] == "Eq" and isinstance(fc[2], Poly) and isinstance(fc[3], Poly) and fc[2] == sym.mk("mod", nn, Poly.const(8)) and fc[3].as_int() == 1
                   for fc in e2.facts)
        # k >= 3 from the lower bound the path has on bit_length(n)
        kok = False
        bl = sym.mk("bitlen", nn)
        lows = [fc[3].as_int() + (1 if fc[1] == "Gt" else 0) for fc in e2.facts if fc[0] == "cmp" and fc[1] in ("GtE", "Gt") and isinstance(fc[2], Poly) and fc[2] == bl and
                isinstance(fc[3], Poly) and fc[3].as_int() is not None]
        if kk.as_int() is not None:
          kok = kk.as_int() >= 3
        elif lows and bl.as_atom() is not None:
          try:
            ks = [termeval.ev(kk, {bl.as_atom(): b_}) for b_ in range(max(lows), max(lows) + 130)]
            kok = all(isinstance(x_, int) and x_ >= 3 for x_ in ks) and all(b_ >= a_ for a_, b_ in zip(ks, ks[1:]))
          except (termeval.Unknown, termeval.Raises):
            kok = False
        if not (res1 and kok):
          probs.append("the result of InverseSqrt2exp(%s, %s) is consumed by `%s` untested on a path that %s: None (no inverse square root) raises TypeError there" % (
              repr(nn)[:30], repr(kk)[:40], norm(e2.node)[:60] if e2.node is not None else e2.kind,
              "does not know n % 8 == 1" if not res1 else "does not know k >= 3"))
      key = norm(e.node)[:70] if e.node is not None else "call"
      prev = seen.get(key)
      if prev is None or (not prev and probs):
        seen[key] = sorted(set(probs))
    for key, probs in sorted(seen.items()):
      n_sites += 1
      ctx.record(R, fn.where, key, not probs, "; ".join(probs[:2]) or "the result is tested for None, or the call is made only with n % 8 == 1 and k >= 3 (where a root exists)")
  if n_sites == 0:
    ctx.incomplete(R, "ntheory_util:InverseSqrt2exp", "call sites", "no call site of InverseSqrt2exp found")


# ------------------------------------------------------------------ NEXT (next() on an iterator that may be exhausted raises StopIteration)
def rule_next(ctx):
  """`next(it)` without a default raises StopIteration when the iterator is empty.  In code reachable from the checks every such call must have a
  default, or iterate something that cannot be empty (itertools.count / cycle / repeat)."""
  R = "R-C18-NEXT"
  repo = ctx.repo
  n_sites = n_fn = 0
  for fn in repo.all_funcs(include_examples=False):
    if fn.where.startswith("randomness_tests.") or fn.module.short.endswith("_test"):
      continue
    n_fn += 1
    for n in ast.walk(fn.node):
      if isinstance(n, ast.Call) and isinstance(n.func, ast.Name) and n.func.id == "next":
        n_sites += 1
        if len(n.args) >= 2 or any(k.arg == "default" for k in n.keywords):
          ctx.ok(R, fn.where, norm(n)[:70], "has a default")
          continue
        src = n.args[0] if n.args else None
        endless = isinstance(src, ast.Call) and ast.unparse(src.func) in ("itertools.count", "itertools.cycle", "itertools.repeat")
        ctx.record(R, fn.where, norm(n)[:70], endless, "endless iterator" if endless else
                   "next() without a default: StopIteration escapes when no element satisfies the generator's filter (empty iterator)")
  ctx.ok(R, "package", "scan", "%d functions scanned, %d next() calls" % (n_fn, n_sites))


# ------------------------------------------------------------------ SANITY (Cr50U2fGuesses raises ArithmeticError when the two derived keys differ)
def rule_sanity(ctx):
  """cr50_u2f_weakness.Cr50U2fGuesses derives the key twice from a pair (k1, k2) and raises ArithmeticError("Sanity check failed") when the two values differ.
  They agree exactly when k1 * a + k2 * b == w (mod p) for the pair that is used: every pair Cr50U2fSubProblem yields must have passed that test itself
  (not its negation, not the signed value whose absolute value is yielded)."""
  R = "R-C18-SANITY"
  repo = ctx.repo
  f = repo.func("cr50_u2f_weakness", "Cr50U2fSubProblem")
  w = sym.Walker(repo, f)
  w.run()
  a, b_, wv, p = [P("param", x) for x in f.params()[:4]]
  ys = [e for e in w.events if e.kind == "yield"]
  probs = []
  if not ys:
    ctx.incomplete(R, f.where, "yielded pairs satisfy the relation", "no yield found")
    return
  for e in ys:
    v = e.data["value"]
    if not (isinstance(v, Seq) and len(v.items) == 2 and all(isinstance(x, Poly) for x in v.items)):
      probs.append("a yield is not a pair")
      continue
    k1, k2 = v.items
    rel = k1 * a + k2 * b_ - wv
    ok = any(fc[0] == "cmp" and fc[1] == "Eq" and isinstance(fc[2], Poly) and isinstance(fc[3], Poly) and fc[3].is_zero() and fc[2].as_atom() is not None and
             fc[2].as_atom().kind == "mod" and as_poly(fc[2].as_atom().args[1]) == p and (as_poly(fc[2].as_atom().args[0]) - rel).is_zero() for fc in e.facts)
    if not ok:
      probs.append("a pair is yielded without k1 * a + k2 * b - w == 0 (mod p) having been tested on that very pair: the consumer's sanity check can fail and raise")
  ctx.record(R, f.where, "yielded pairs satisfy the relation", not probs, "; ".join(sorted(set(probs))) or "%d yield site(s), each dominated by the relation on the yielded values" % len(ys))


# ---------------------------------------------------------------------------------------------------------------- definite assignment
# reads the path-insensitive analysis cannot justify, each confirmed by reading the code (one named variable per entry)
DEFINED_EXEMPT = {
    ("ec_util", "EcCurve.BatchMultiplyG", "res"):
        "(the read in the final `return res`) bound in the first pass of `for i in range(steps - 1, -1, -1)`; the loop has at least one pass because steps = ceil(bit_length(n) / 8) >= 1 for every "
        "curve order n > 0 (the nine orders are pinned by R-C11-CURVES)",
}


def defined_scope(short):
  """which property a module's functions are reported under"""
  if short == "randomness_tests.rng":
    return "C20"
  if short in ("randomness_tests.random_test_suite",):
    return "C13"
  if short.startswith("randomness_tests."):
    return "C12"
  return "C18"


def unresolved_names(m):
  """[(name, line of the scope that reads it)]: names a function (or a lambda / comprehension inside it) reads as globals although the module binds no such
  name and the builtins have none - the read raises NameError.  Scoping comes from the compiler's own symbol tables (symtable), not from a re-implementation."""
  import symtable, builtins
  try:
    top = symtable.symtable(m.src, m.short + ".py", "exec")
  except SyntaxError:
    return []
  if any(isinstance(st, ast.ImportFrom) and any(a.name == "*" for a in st.names) for st in ast.walk(m.tree)):
    return []          # a star import can bind anything
  bound = set()
  for s_ in top.get_symbols():
    if s_.is_assigned() or s_.is_imported() or s_.is_namespace() or s_.is_parameter():
      bound.add(s_.get_name())
  def scopes(t):
    for c in t.get_children():
      yield c
      yield from scopes(c)
  for sc in scopes(top):
    for s_ in sc.get_symbols():
      if s_.is_declared_global() and s_.is_assigned():
        bound.add(s_.get_name())
  dunder = {"__name__", "__file__", "__doc__", "__package__", "__spec__", "__loader__", "__builtins__", "__debug__", "__class__", "__annotations__", "__dict__", "__qualname__", "__module__"}
  out = []
  for sc in scopes(top):
    if sc.get_type() == "class":
      continue
    for s_ in sc.get_symbols():
      nm = s_.get_name()
      if s_.is_referenced() and s_.is_global() and nm not in bound and not hasattr(builtins, nm) and nm not in dunder:
        out.append((nm, sc.get_lineno()))
  return out


def rule_defined(ctx, R="R-C18-DEFINED", scope="C18"):
  """'returns a boolean, without raising': a local variable read on a path that has not bound it raises UnboundLocalError.  Definite-assignment
  analysis (pcstatic.defassign) of every library function - a 'must be bound' dataflow over if / for / while / try / with, with for-else over non-empty
  literals, first-pass initialisation (`if i == start: x = ...; else: use x`) and repeated identical guards recognised."""
  from pcstatic import defassign
  repo = ctx.repo
  n = 0
  for m in sorted(repo.modules.values(), key=lambda m_: m_.short):
    if m.short.startswith("data.") or defined_scope(m.short) != scope:
      continue
    unresolved = unresolved_names(m)
    for qual, fn in defassign.functions(m.tree):
      n += 1
      reps = defassign.analyse(fn)
      bad = []
      for name, sl in unresolved:
        if fn.lineno <= sl <= (fn.end_lineno or fn.lineno):
          uses = [x.lineno for x in ast.walk(fn) if isinstance(x, ast.Name) and x.id == name and isinstance(x.ctx, ast.Load)]
          if uses:
            bad.append("`%s` at line %d: read as a global, but the module binds no such name (no assignment, import, def or class) and it is no builtin: NameError" % (name, min(uses)))
      for name, line, why in reps:
        if (m.short, qual, name) in DEFINED_EXEMPT and any(isinstance(st_, ast.Return) and st_.lineno <= line <= (st_.end_lineno or st_.lineno) for st_ in fn.body):
          continue          # the exemption covers the read in the function's final `return` only, not reads inside the loop
        bad.append("`%s` at line %d: %s" % (name, line, why))
      ctx.record(R, "%s:%s" % (m.short, qual), "locals bound before use", not bad, "; ".join(bad) or
                 ("every read of a local is dominated by a binding" + ("" if not any((m.short, qual, nm) in DEFINED_EXEMPT for nm, _, _ in reps) else
                  " (confirmed by reading: " + "; ".join("%s - %s" % (nm, DEFINED_EXEMPT[(m.short, qual, nm)]) for nm, _, _ in reps if (m.short, qual, nm) in DEFINED_EXEMPT) + ")")))
  return n


# ---------------------------------------------------------------------------------------------------------------- attributes exist when read
def rule_attrs(ctx, R="R-C18-ATTRS", scope="C18"):
  """`self.x` read in a method raises AttributeError unless x is a method / class attribute (own or inherited) or was bound by the constructor.  For every
  class of the library: the attributes read through `self` are bound on every path to a normal exit of `__init__` (own or inherited; definite assignment,
  a binding in only one branch does not count), in the class body, or - for attributes only ever read after a store in the same method - not at all."""
  from pcstatic import defassign
  repo = ctx.repo
  n = 0
  for m in sorted(repo.modules.values(), key=lambda m_: m_.short):
    if m.short.startswith("data.") or defined_scope(m.short) != scope:
      continue
    for cname, c in sorted(m.classes.items()):
      n += 1
      chain = repo.mro(c)
      known, opaque = set(), False
      for k in chain:
        if isinstance(k, str):
          if k.split(".")[-1] not in ("object", "ABC", "Generic", "Protocol"):
            opaque = True          # a base class outside the repository: its attributes are not visible
          continue
        for st in k.node.body:
          if isinstance(st, (ast.FunctionDef, ast.AsyncFunctionDef, ast.ClassDef)):
            known.add(st.name)
          elif isinstance(st, (ast.Assign, ast.AnnAssign, ast.AugAssign)):
            for t in (st.targets if isinstance(st, ast.Assign) else [st.target]):
              for x in ast.walk(t):
                if isinstance(x, ast.Name):
                  known.add(x.id)
        init = k.methods.get("__init__")
        if init is not None:
          known |= defassign.attrs_bound_by(init.node)          # bound on every path to a normal exit of the constructor
      bad = []
      if not opaque:
        for mname, meth in sorted(c.methods.items()):
          if not meth.node.args.args or any(isinstance(d, ast.Name) and d.id in ("staticmethod", "classmethod") for d in meth.node.decorator_list):
            continue
          selfname = meth.node.args.args[0].arg
          stored_here = {x.attr for x in ast.walk(meth.node) if isinstance(x, ast.Attribute) and isinstance(x.ctx, ast.Store) and isinstance(x.value, ast.Name) and x.value.id == selfname}
          for x in ast.walk(meth.node):
            if isinstance(x, ast.Attribute) and isinstance(x.ctx, ast.Load) and isinstance(x.value, ast.Name) and x.value.id == selfname:
              if x.attr in known or x.attr.startswith("__") or (mname != "__init__" and x.attr in stored_here and False):
                continue
              if mname == "__init__" and x.attr in stored_here:
                # read inside the constructor after its own store: order is checked by position
                first = min(y.lineno for y in ast.walk(meth.node) if isinstance(y, ast.Attribute) and isinstance(y.ctx, ast.Store) and y.attr == x.attr and isinstance(y.value, ast.Name) and y.value.id == selfname)
                if first < x.lineno:
                  continue
              bad.append("self.%s read in %s (line %d) is bound neither by the constructor's top level nor by the class" % (x.attr, mname, x.lineno))
      ctx.record(R, "%s:%s" % (m.short, cname), "attributes read through self exist", not bad, "; ".join(sorted(set(bad))[:4]) or
                 ("base class outside the repository: not decided" if opaque else "%d attributes / methods known from the class, its bases and __init__" % len(known)))
  return n


def rule_optional_args(ctx):
  """A constructor parameter that defaults to None and is kept in an attribute the methods dereference (`self._storage.GetUnseededRands(..)`) must be
  replaced by a real object when it is None: the stored value is `param or Default()` (or an equivalent conditional), never the bare parameter."""
  R = "R-C18-NULL"
  repo = ctx.repo
  n = 0
  for m in sorted(repo.modules.values(), key=lambda m_: m_.short):
    if m.short.startswith("data.") or defined_scope(m.short) != "C18":
      continue
    for cname, c in sorted(m.classes.items()):
      init = c.methods.get("__init__")
      if init is None:
        continue
      opt = [p_ for p_ in init.params() if isinstance(init.default_of(p_), ast.Constant) and init.default_of(p_).value is None]
      if not opt:
        continue
      selfname = init.node.args.args[0].arg
      deref = set()
      for meth in c.methods.values():
        sn = meth.node.args.args[0].arg if meth.node.args.args else None
        for x in ast.walk(meth.node):
          if isinstance(x, ast.Attribute) and isinstance(x.value, ast.Attribute) and isinstance(x.value.value, ast.Name) and x.value.value.id == sn:
            deref.add(x.value.attr)
      w = sym.Walker(repo, init)
      w.run()
      for e in w.events:
        if e.kind != "setattr" or e.data["attr"] not in deref:
          continue
        v = e.data["value"]
        mentions = [p_ for p_ in opt if ("param('%s')" % p_) in repr(v)]
        if not mentions:
          continue
        n += 1
        safe = False
        if isinstance(v, tuple) and v and v[0] == "or" and len(v[1]) >= 2:
          last = v[1][-1]
          safe = isinstance(last, tuple) and last[0] == "truthy" and isinstance(last[1], Poly) and last[1].as_atom() is not None and last[1].as_atom().kind in ("call", "extcall") and not any(("param('%s')" % p_) in repr(last) for p_ in opt)
        elif isinstance(v, Poly) and v.as_atom() is not None and v.as_atom().kind == "ite":
          a_ = v.as_atom()
          cnd = sym.ITE_CONDS.get(as_poly(a_.args[0]).as_atom().args[0]) if as_poly(a_.args[0]).as_atom() is not None else None
          # `p if p is not None else D()` / `D() if p is None else p`
          txt = repr(cnd)
          safe = cnd is not None and any(("param('%s')" % p_) in txt for p_ in mentions) and any(isinstance(x_, Poly) and x_.as_atom() is not None and x_.as_atom().kind in ("call", "extcall") for x_ in (as_poly(a_.args[1]), as_poly(a_.args[2])))
        elif isinstance(v, Poly) and not any(v == P("param", p_) for p_ in mentions):
          # rebound before the store (if p is None: p = D())
          safe = any(fc[0] == "cmp" and fc[1] in ("IsNot", "NotEq") and isinstance(fc[2], Poly) and any(fc[2] == P("param", p_) for p_ in mentions) for fc in e.state.facts) or "param(" not in repr(v)
        if isinstance(v, Poly) and any(v == P("param", p_) for p_ in mentions):
          safe = any(fc[0] == "cmp" and fc[1] in ("IsNot", "NotEq") and isinstance(fc[2], Poly) and fc[2] == v and isinstance(fc[3], Const) and fc[3].v is None for fc in e.state.facts) or \
              any(fc[0] == "truthy" and isinstance(fc[1], Poly) and fc[1] == v for fc in e.state.facts)
        ctx.record(R, "%s:%s.__init__" % (m.short, cname), "self.%s from optional %s" % (e.data["attr"], "/".join(mentions)), safe,
                   "a default object replaces None" if safe else "self.%s may be None (stored value %r) although methods dereference it" % (e.data["attr"], v))
  return n
