"""C01 - every factor recorded for an RSA modulus really divides it (certificates at release sites)."""
from __future__ import annotations
import ast
from pcstatic import sym, algebra
from pcstatic.core import Incomplete
from pcstatic.loader import norm, Func
from pcstatic.poly import Poly, Atom, P
from pcstatic.sym import Const, Seq, as_poly
from . import template as T

META = {
    "level": "proof",
    "trusted_base": ["Python ast parser", "documented semantics of gmpy2.gcd/isqrt/is_square/mpz and Python integers",
                     "pcstatic symbolic walker + polynomial normal form (no solver)",
                     "protobuf field semantics"],
    "assumptions": ["gmpy2 behaves as documented", "util.Bytes2Int is a pure function of its argument"],
    "explanation": ("Every value that can reach util.AttachFactors is traced back symbolically; each release site must carry a "
                    "machine-checked divisibility certificate (gcd with n, exact-division of a divisor, product == n under the "
                    "dominating guards, or a callee summary proved the same way) for the modulus of the same key."),
}


def lit(s):
  return P("lit", s)


# ------------------------------------------------------------------ axioms (summaries proved in this run)
class Prover:
  def __init__(self, ctx):
    self.ctx = ctx
    self.repo = ctx.repo
    self.summaries = {}      # where -> dict(kind, ok, returns[])
    self.batchgcd_ok = None

  # ---- element-wise summary of BatchGCD: result[i] | values[i]
  def batchgcd(self):
    if self.batchgcd_ok is not None:
      return self.batchgcd_ok
    f = self.repo.func("rsa_util", "BatchGCD")
    w = sym.Walker(self.repo, f)
    w.run()
    values = P("param", f.params()[0])
    rets = [e for e in w.events if e.kind == "return"]
    ok = bool(rets)
    why = ""
    self.batchgcd_trivial = []   # shortcut returns ([] or [1] * len(values)): divisibility holds trivially
    n_main = 0
    for e in rets:
      raw = e.data["value"]
      v = as_poly(raw)
      a = v.as_atom()
      if self.trivial_return(raw, values):
        self.batchgcd_trivial.append(e)
        continue
      n_main += 1
      good = False
      if a is not None and a.kind == "map" and a.args[2] == values:
        elt, bv, src = a.args
        x = sym.mk("idx", values, Poly.atom(bv))        # values[i]
        ea = elt.as_atom()
        # elt == D[x] with D = {K: gcd(K, _) for ...}
        if ea is not None and ea.kind == "idx" and ea.args[1] == x:
          d = ea.args[0].as_atom()
          if d is not None and d.kind == "dictof":
            m = d.args[0].as_atom()
            if m is not None and m.kind == "map":
              kv = m.args[0].as_atom()
              if kv is not None and kv.kind == "seq" and len(kv.args) == 2:
                K, V = kv.args
                va = V.as_atom()
                if va is not None and va.kind == "gcd" and any(arg == K for arg in va.args):
                  good = True
                else:
                  why = "dict value is not gcd(key, _)"
              else:
                why = "dict comprehension shape"
        else:
          why = "result is not a lookup keyed by values[i]"
      else:
        why = "result is not a comprehension over the parameter `values`"
      ok = ok and good
    if ok and n_main == 0:
      ok, why = False, "no return computes gcds"
    self.batchgcd_ok = ok
    self.ctx.record("R-C01-CERT", f.where, "return [D[v] for v in values], D = {v: gcd(v, r)}", ok,
                    "element-wise: result[i] = gcd(values[i], _) divides values[i]; same length and order as the input" if ok
                    else "BatchGCD result is not element-wise gcd(values[i], _): " + why)
    return ok

  @staticmethod
  def trivial_return(raw, values):
    """[] or [1] * len(values): every entry is 1, one per input value."""
    if isinstance(raw, sym.Seq) and not raw.items:
      return True
    a = as_poly(raw).as_atom()
    if a is not None and a.kind == "listrep" and len(a.args) == 2:
      s0 = a.args[0].as_atom() if isinstance(a.args[0], Poly) else None
      if s0 is not None and s0.kind == "seq" and len(s0.args) == 1:
        x = s0.args[0]
        one = isinstance(x, Poly) and x.as_int() == 1     # gmpy.mpz(1) folds to 1
        return bool(one) and a.args[1] == sym.mk("len", values)
    return False

  def extra_div(self, e, n, facts):
    """Axioms from proved summaries."""
    a = e.as_atom() if isinstance(e, Poly) else None
    if a is not None and a.kind == "idx":
      c = a.args[0].as_atom()
      if c is not None and c.kind == "call" and c.args[0] == lit("rsa_util:BatchGCD") and len(c.args) >= 2:
        if self.batchgcd():
          vi = sym.mk("idx", c.args[1], a.args[1])
          if algebra.normalise(vi, facts) == algebra.normalise(n, facts):
            return "BatchGCD summary: gcds[i] | values[i]"
    return None

  def divides(self, e, n, facts, depth=0):
    w = algebra.divides(e, n, facts)
    if w:
      return w
    w = self.extra_div(e, n, facts)
    if w:
      return w
    a = e.as_atom() if isinstance(e, Poly) else None
    if a is not None and a.kind == "fdiv" and depth < 3 and algebra.normalise(a.args[0], facts) == algebra.normalise(n, facts):
      w = self.divides(a.args[1], n, facts, depth + 1)
      if w:
        return "n // d with d | n [%s]" % w
    return None

  # ---- certificate of a factor sequence
  def certify(self, value, n, facts, need_proper=True):
    """-> (ok, text, gcd_based_elements)"""
    if isinstance(value, Const) and value.v is None:
      return True, "no factors (None)", []
    if isinstance(value, Seq):
      els = [as_poly(x) for x in value.items]
    else:
      p = as_poly(value)
      a = p.as_atom()
      if a is not None and a.kind == "seq":
        els = list(a.args)
      elif a is not None and a.kind == "call":
        return self.certify_call(a, n, flag=False)
      elif a is not None and a.kind == "idx" and a.args[1].as_int() == 1 and a.args[0].as_atom() is not None \
          and a.args[0].as_atom().kind == "call":
        return self.certify_call(a.args[0].as_atom(), n, flag=True)
      else:
        return False, "value %r has no traceable origin" % (p,), []
    if not els:
      return True, "no factors (empty)", []
    ws = [self.divides(e, n, facts) for e in els]
    if all(ws):
      gcdb = [e for e, w in zip(els, ws) if w.startswith("gcd(") or w.startswith("BatchGCD")]
      return True, "each element divides n: " + "; ".join(ws), gcdb
    if len(els) == 2:
      w = algebra.prove_zero(els[0] * els[1] - n, facts)
      if w:
        return True, "product of the two elements == n (%s)" % w, []
    bad = [repr(e)[:80] for e, w in zip(els, ws) if not w]
    return False, "no divisibility certificate for %s" % bad, []

  def certify_call(self, a, n, flag):
    name = a.args[0]
    la = name.as_atom()
    target = la.args[0] if la is not None else None
    if not isinstance(target, str) or ":" not in target:
      return False, "opaque callee", []
    mod, fn = target.split(":")
    try:
      f = self.repo.func(mod, fn)
    except Incomplete:
      return False, "callee %s not found" % target, []
    s = self.summary(f)
    if not s["ok"]:
      return False, "callee %s has an uncertified return" % target, []
    if s["flag"] != flag:
      return False, "callee %s returns %s, used as %s" % (target, "(flag, factors)" if s["flag"] else "factors",
                                                           "(flag, factors)" if flag else "factors"), []
    pos = s["npos"]
    if len(a.args) <= 1 + pos or a.args[1 + pos] != n:
      return False, "callee %s is not applied to this key's modulus" % target, []
    return True, "callee summary %s (all returns certified for its parameter n)" % target, []

  # ---- function summary
  def summary(self, f: Func):
    if f.where in self.summaries:
      return self.summaries[f.where]
    s = {"ok": True, "flag": None, "npos": 0, "returns": []}
    self.summaries[f.where] = s   # recursion guard
    params = f.params()
    if "n" in params:
      s["npos"] = params.index("n")
    n = P("param", params[s["npos"]])
    w = sym.Walker(self.repo, f, unroll_const_loops=True)
    w.run()
    if w.unmodelled:
      self.ctx.incomplete("R-C01-CERT", f.where, "unmodelled", "; ".join(sorted(set(w.unmodelled))))
    rets = [e for e in w.events if e.kind == "return"]
    seen = {}
    flags = set()
    for e in rets:
      v = e.data["value"]
      is_flag = isinstance(v, Seq) and len(v.items) == 2 and (
          (isinstance(v.items[0], Const) and isinstance(v.items[0].v, bool)) or isinstance(v.items[0], tuple))
      flags.add(is_flag)
      fv = v.items[1] if is_flag else v
      ok, text, gcdb = self.certify(fv, n, e.facts)
      proper_ok = True
      ptext = ""
      for g in gcdb:
        ga = g.as_atom()
        if ga is not None and ga.kind == "gcd":
          lo = algebra.known_lt(Poly.const(1), g, e.facts)
          hi = algebra.known_lt(g, n, e.facts)
          if not (lo and hi):
            proper_ok = False
            ptext = "gcd result released without the guard 1 < g < n (%s)" % ("lower" if not lo else "upper")
      key = norm(e.node) if e.node is not None else "implicit return None"
      prev = seen.get(key)
      entry = {"construct": key, "ok": ok, "text": text, "proper": proper_ok, "ptext": ptext}
      # one return statement may serve several paths (`return weak, factors` after an if-chain): the worst path speaks for the statement, and a path
      # that releases factors speaks before one that releases none
      if prev is None or (prev["ok"] and not ok) or (prev["proper"] and not proper_ok) or \
         (prev["ok"] and prev["proper"] and "no factors" in prev["text"] and "no factors" not in text):
        seen[key] = entry
    if len(flags) > 1:
      s["ok"] = False
      self.ctx.violation("R-C01-CERT", f.where, "return-shape", "function mixes (flag, factors) and plain returns")
    s["flag"] = flags.pop() if len(flags) == 1 else False
    for key, en in seen.items():
      if "no factors" in en["text"]:
        self.ctx.ok("R-C01-CERT", f.where, key, en["text"])
      else:
        self.ctx.record("R-C01-CERT", f.where, key, en["ok"], en["text"], invariants=list(w.invariants.values()))
        if en["ok"] and "gcd" in en["text"]:
          self.ctx.record("R-C01-PROPER", f.where, key, en["proper"], en["ptext"] or "released under 1 < g < n: proper divisor")
      if not en["ok"]:
        s["ok"] = False
    s["returns"] = list(seen.values())
    return s


def run(ctx):
  repo = ctx.repo
  pr = Prover(ctx)
  bodies = T.bodies(repo)
  cm = repo.mod("consts")
  names = {}
  for k in ("INFO_NAME_N_FACTORS", "INFO_NAME_NM1_FACTORS"):
    node = cm.consts.get(k)
    if not (isinstance(node, ast.Constant) and isinstance(node.value, str)):
      raise Incomplete("consts.%s is not a string literal" % k, "consts")
    names[node.value] = k
  if len(names) != 2:
    ctx.violation("R-C01-SINK", "consts", "info names", "N_FACTORS and N-1_FACTORS record names collide")
  n_sinks = 0
  sink_funcs = set()
  for b in bodies:
    where = b.where()
    att = b.calls(T.ATTACH_FACTORS)
    per_node = {}
    for e in att:
      n_sinks += 1
      args = e.data["args"]
      res = check_sink(pr, b, e, names)
      prev = per_node.get(id(e.node))
      if prev is None or (prev[0] and not res[0]):
        per_node[id(e.node)] = (res[0], res[1], e)
    for ok, text, e in per_node.values():
      sink_funcs.add(where)
      ctx.record("R-C01-SINK", where, norm(e.node), ok, text)
    rule_weak(ctx, b)
  # any AttachFactors call outside Check bodies (other than the helper itself)?
  for fn in repo.all_funcs(include_examples=False):
    if fn.cls is not None and fn.name == "Check" and T.is_check_class(repo, fn.cls):
      continue
    for n in ast.walk(fn.node):
      if isinstance(n, ast.Call) and isinstance(n.func, ast.Attribute) and n.func.attr == "AttachFactors":
        ctx.violation("R-C01-SINK", fn.where, norm(n), "factors attached outside a Check body: no certificate can be associated")
  rule_merge(ctx)
  rule_gcd_proper(ctx, bodies)
  # "the key is marked weak": Check bodies set entry.result = True (above); SetTestResult turns that into test_info.weak
  from . import c16
  ctx.borrow(c16.rule_mono, "R-C01-WEAK", lambda r: r.construct == "weak-flag")
  # every recorded value divides n (or n - 1): a record is looked up by exactly its own name and updated in place (N_FACTORS and N-1_FACTORS never mix)
  ctx.borrow(c16.rule_mono, "R-C01-MERGE", lambda r: r.construct == "attach-info" or (r.construct == "lookup-by-name" and r.where.endswith("GetAttachedInfo")))
  ctx.expect("R-C01-SINK", 12, "12 AttachFactors sites")
  ctx.expect("R-C01-CERT", 14, "11 factor-producing returns + inline sites + BatchGCD")
  ctx.expect("R-C01-PROPER", 5, "four gcd-based helpers + CheckGCD")
  ctx.expect("R-C01-WEAK", 13, "12 attaching Check bodies + SetTestResult summary")
  ctx.extra["summaries"] = {k: {"ok": v["ok"], "flag": v["flag"], "returns": v["returns"]} for k, v in pr.summaries.items()}


def modulus_of(K):
  return sym.mk("call", lit("util:Bytes2Int"), sym.mk("attr", sym.mk("attr", K, "rsa_info"), "n"))


def check_sink(pr, b, e, names):
  args = e.data["args"]
  if len(args) < 3:
    return False, "AttachFactors called with keyword/short argument list (not modelled)"
  tinfo, name, X = args[0], args[1], args[2]
  K = T.is_attr_of(as_poly(tinfo), "test_info")
  if K is None:
    return False, "target is not <key>.test_info"
  ka = K.as_atom()
  if ka is None or ka.kind != "idx":
    return False, "target key %r is not an element of the batch" % (K,)
  if not (isinstance(name, Const) and name.v in names):
    return False, "record name %r is not N_FACTORS / N-1_FACTORS" % (name,)
  M = modulus_of(K)
  if names[name.v] == "INFO_NAME_NM1_FACTORS":
    M = M - 1
  facts = e.facts
  ok, text, gcdb = pr.certify(X, M, facts)
  if not ok:
    return False, "%s (modulus of the key whose test_info is written: %r)" % (text, M)
  # properness for inline gcd sinks (CheckGCD): g != 1 (g = n is the property's own exception)
  for g in gcdb:
    if not (algebra.known_ne(g, Poly.const(1), facts) or algebra.known_lt(Poly.const(1), g, facts)):
      if names[name.v] == "INFO_NAME_N_FACTORS":
        return False, "gcd value attached without the guard g != 1"
  return True, "%s; record %s on the same key" % (text, name.v)


def rule_weak(ctx, b):
  R = "R-C01-WEAK"
  where = b.where()
  probs = []
  n = 0
  for info in b.result_loops():
    for kind, val, s, since, visit in info["body_paths"]:
      evs = b.path_events(s, since)
      att = [e for e in evs if e.kind == "call" and e.data["name"] == T.ATTACH_FACTORS]
      if not att:
        continue
      n += 1
      sets = [e for e in evs if e.kind == "call" and e.data["name"] == T.SET_RESULT]
      if len(sets) != 1:
        probs.append("attaching path does not record exactly one entry")
        continue
      entry = as_poly(sets[0].data["args"][1])
      if not any(e.kind == "setattr" and e.data["attr"] == "result" and as_poly(e.data["base"]) == entry
                 and isinstance(e.data["value"], Const) and e.data["value"].v is True for e in evs):
        probs.append("factors attached but the entry stays negative (key not marked weak)")
      for a in att:
        if as_poly(a.data["args"][0]) != as_poly(sets[0].data["args"][0]):
          probs.append("factors attached to a different key than the one whose entry is recorded")
  # attach outside result loops
  inloop = set()
  for info in b.result_loops():
    for kind, val, s, since, visit in info["body_paths"]:
      for e in b.path_events(s, since):
        inloop.add(id(e.node))
  for e in b.calls(T.ATTACH_FACTORS):
    if id(e.node) not in inloop:
      probs.append("AttachFactors outside the per-key result loop")
  if n or probs:
    ctx.record(R, where, "attach=>weak", not probs, "; ".join(sorted(set(probs))) or
               "%d attaching iteration path(s): result=True on the recorded entry of the same key" % n)


def rule_merge(ctx):
  R = "R-C01-MERGE"
  repo = ctx.repo
  f = repo.func("util", "AttachFactors")
  w = sym.Walker(repo, f)
  w.run()
  ti, nm, fac = [P("param", x) for x in f.params()[:3]]
  calls = [e for e in w.events if e.kind == "call" and e.data["name"] == "repo:util:AttachInfo"]
  probs = []
  if not calls:
    probs.append("AttachFactors does not store through AttachInfo")
  old = sym.mk("call", lit("util:GetAttachedFactors"), ti, nm)
  saw_truthy = False
  for e in calls:
    a = e.data["args"]
    if len(a) < 3 or as_poly(a[0]) != ti or as_poly(a[1]) != nm:
      probs.append("stored under a different test_info / info name than requested")
      continue
    val = as_poly(a[2])
    atoms = val.all_atoms()
    has_new = any(x == fac.as_atom() for x in atoms)
    has_old = any(x == old.as_atom() for x in atoms)
    if not has_new:
      probs.append("stored set does not contain the new factors")
    truthy = any(f_[0] == "truthy" and as_poly(f_[1]) == old for f_ in e.facts)
    if truthy:
      saw_truthy = True
      if not has_old:
        probs.append("existing factors are dropped when new ones are attached (overwrite instead of union)")
      else:
        # the collection that is serialised must be the UNION of the two sets (a.union(b), a | b), not a difference / intersection that merely mentions both
        is_union = False
        for x in atoms:
          inside = {y for arg in x.args if isinstance(arg, Poly) for y in arg.all_atoms()}
          both = fac.as_atom() in inside and old.as_atom() in inside
          if x.kind in ("pm", "mcall") and len(x.args) >= 3 and repr(x.args[1]) == "lit('union')" and both:
            is_union = True
          if x.kind == "bor" and both:
            is_union = True
        if not is_union:
          probs.append("the stored set is not the union of the new and the recorded factors (recorded factors can disappear)")
    if "lit(\"'x'\")" not in repr(val) and "'x'" not in repr(val):
      probs.append("factors are not serialised as lower-case hex (reader parses base 16)")
  if calls and not saw_truthy:
    probs.append("no path handles an existing factor set")
  g = repo.func("util", "GetAttachedFactors")
  src = ast.unparse(g.node)
  if "16)" not in src or "literal_eval" not in src:
    probs.append("reader does not parse a literal set of base-16 strings")
  ctx.record(R, f.where, "merge+radix", not probs, "; ".join(sorted(set(probs))) or
             "new set = factors U old_set, written as hex strings, read back with int(_, 16)")


def rule_gcd_proper(ctx, bodies):
  """CheckGCD attaches [g, n // g] with g = gcd(n, product of the other moduli).  g divides n and is != 1 on the attaching path, but it can equal n
  (every prime of n shared with some other key).  The property wants a proper divisor among the recorded values unless n divides another single
  modulus, so on the g == n path a proper gcd(n, other modulus) must be recorded too, or an exhaustive search over the batch must have found none."""
  R = "R-C01-PROPER"
  for b in bodies:
    if b.where() != "rsa_aggregate_checks:CheckGCD.Check":
      continue
    w = b.w
    probs = []
    n_paths = 0
    for e in b.calls(T.ATTACH_FACTORS):
      val = e.data["args"][2] if len(e.data["args"]) > 2 else None
      key = as_poly(e.data["args"][0])
      K = T.is_attr_of(key, "test_info")
      n = modulus_of(K) if K is not None else None
      if not isinstance(val, Seq) or n is None:
        probs.append("recorded value is not a literal list of factors of the key's modulus")
        continue
      n_paths += 1
      items = [as_poly(x) for x in val.items if not isinstance(x, (Seq, Const, tuple))]
      proper = False
      for x in items:
        ne1 = algebra.known_ne(x, Poly.const(1), e.facts) or algebra.known_lt(Poly.const(1), x, e.facts)
        nen = algebra.known_ne(x, n, e.facts) or algebra.known_lt(x, n, e.facts)
        a = x.as_atom()
        divides = a is not None and (a.kind == "gcd" and any(as_poly(y) == n for y in a.args) or (a.kind == "idx" and "BatchGCD" in repr(a.args[0])))
        if divides and ne1 and nen:
          proper = True
      if proper:
        continue
      # no proper divisor on this path: acceptable only after an exhaustive search over the batch (every single modulus tried, none splits n)
      searched = False
      for info in w.loop_info.values():
        for vis in info["visits"]:
          if isinstance(vis["iter"], Seq) or vis["iter"] is None:
            continue
          it = as_poly(vis["iter"]).as_atom()
          if it is None or it.kind != "map" or as_poly(it.args[2]) != b.artifacts:
            continue
          elem = sym.mk("idx", as_poly(vis["iter"]), as_poly(vis["k"]))
          g = sym.mk("gcd", n, elem)
          paths = [bp for bp in info["body_paths"] if bp[4] is vis]
          brk = [bp for bp in paths if bp[0] == "break"]
          fal = [bp for bp in paths if bp[0] in ("fall", "continue")]
          ok_b = bool(brk) and all(algebra.known_lt(Poly.const(1), g, bp[2].facts) and algebra.known_lt(g, n, bp[2].facts) for bp in brk)
          # the loop must sit on this sink's path: its exit facts (none) precede the sink; approximate by containment of the loop's pre facts
          on_path = all(any(repr(f1) == repr(f2) for f2 in e.facts) for f1 in vis["pre"].facts)
          found_here = algebra.known_lt(Poly.const(1), g, e.facts) and algebra.known_lt(g, n, e.facts)
          if found_here:
            probs.append("a proper divisor gcd(n, other modulus) was found on this path but is not among the recorded values")
          elif ok_b and fal and on_path and not any(bp[0] == "return" for bp in paths):
            searched = True
      if not searched:
        probs.append("the recorded pair {g, n // g} can be {n, 1} (every prime of n shared with other keys): no proper divisor is recorded although n need not "
                     "divide a single other modulus, and no search over the single moduli precedes it")
    if n_paths or probs:
      ctx.record(R, b.where(), "a proper divisor is recorded unless no single modulus splits n", not probs, "; ".join(sorted(set(probs))) or
                 "%d attaching paths: g != n, or a proper gcd(n, other modulus) is added, or an exhaustive search over the batch found none" % n_paths)
