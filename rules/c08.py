"""C08 - biased nonces reveal the signing key: structural necessary conditions (grouping, windows, mark-all, LCG model table, subsets, U2F basis).
Lattice success is NOT decided."""
from __future__ import annotations
import ast
from pcstatic import sym, fold
from pcstatic.core import Incomplete
from pcstatic.loader import norm
from pcstatic.poly import Poly, Atom, P
from pcstatic.sym import Const, Seq, as_poly
from . import template as T
from .c18 import curve_table

META = {
    "level": "other",
    "trusted_base": ["Python ast parser", "pcstatic walker and constant folder", "Python slicing semantics (a slice beyond the end is silently truncated)"],
    "assumptions": ["that LLL finds the short vector for the stated bias/sample margins is not decided (runtime numerics)"],
    "explanation": ("Necessary conditions of detection: signatures are grouped per curve and per issuer, (a, b) come from the same signature, windows are aligned and "
                    "cover all signatures, every signature of a verified issuer is marked, the LCG model table is self-consistent with its consumer (enough constants "
                    "for the largest prefix the subset generator can ask for), DEFAULT strategy yields a problem whenever enough signatures exist, U2F basis and gate."),
}
SELF = P("param", "self")
ES = "ecdsa_sig_checks"


def body(repo, cls):
  for b in T.bodies(repo):
    if b.where() == "%s:%s.Check" % (ES, cls):
      return b
  raise Incomplete("%s.Check vanished" % cls, ES)


def run(ctx):
  rule_group(ctx)
  rule_window(ctx)
  rule_markall(ctx)
  rule_lcg_table(ctx)
  rule_subsets(ctx)
  rule_u2f(ctx)
  rule_accum(ctx)
  rule_weight(ctx)
  rule_extract(ctx)
  T.rule_all_curves(ctx, "R-C08-GROUP", lambda w_: w_.startswith("ecdsa_sig_checks:"))
  rule_lattice(ctx)
  ctx.expect("R-C08-LATTICE", 6, "GetLattice x 4 kinds of bias, precomputed constants, U2F sub-problem")
  rule_u2f_pairs(ctx)
  rule_forcurve(ctx)
  ctx.expect("R-C08-EXTRACT", 4, "HiddenNumberProblem, ...WithPrecomputation, Cr50U2fGuesses, Cr50U2fSubProblem")
  ctx.expect("R-C08-WEIGHT", 2, "two bias families with constant ladders")
  ctx.expect("R-C08-ACCUM", 2, "BiasedBaseCheck and CheckCr50U2f")
  # "signatures of other issuers in the same batch keep their own verdict": every signature gets an entry created for it alone (shared with C16)
  from . import c16
  c16.rule_isolated(ctx, T.bodies(ctx.repo), "R-C08-OWN", lambda w: w.startswith("ecdsa_sig_checks:"))
  # "records the correct private key": a lattice guess is accepted by comparing guess * G with the issuer's point, so the comb multiplication must be
  # exact on every supported curve (shared with C11), and the (r, s, z) handed to the lattice must be the signature's own (shared with C09)
  from . import c11, c09
  ctx.borrow(c11.rule_comb, "R-C08-GUESS")
  ctx.borrow(c11.rule_formula, "R-C08-GUESS", lambda r: r.where.endswith(("BatchDouble", "BatchAddList")))
  ctx.borrow(c11.rule_dispatch, "R-C08-GUESS", lambda r: r.where.endswith(("BatchDouble", "BatchAddList")))
  from . import c17
  ctx.borrow(c17.rule_stateless, "R-C08-GUESS", lambda r: r.where.endswith("BatchMultiplyG"))     # the comb memo must be per curve (k*G of another curve accepts / rejects wrongly)
  ctx.borrow(c09.rule_feed, "R-C08-FEED")
  ctx.borrow(c09.rule_trunc, "R-C08-FEED")        # z is the leftmost order-length bits of the hash on every curve (a wrong z makes every lattice miss)
  # the key recorded for a signature, and its weak flag, come from the map built for that signature's own curve in this pass (a map kept across curves
  # hands the i-th signature of a later curve the verdict of the i-th signature of an earlier one) - shared with C02
  from . import c02
  ctx.borrow(c02.rule_align, "R-C08-OWN", lambda r: r.where.startswith("ecdsa_sig_checks:"))
  ctx.borrow(c02.rule_sanitise, "R-C08-OWN", lambda r: r.where.startswith("ecdsa_sig_checks:"))
  ctx.expect("R-C08-GUESS", 9, "comb obligations of BatchMultiplyG, batched formulas, per-curve memo")
  ctx.expect("R-C08-FEED", 7, "ECDSAValues obligations + truncation to the order length")
  ctx.expect("R-C08-OWN", 9, "BiasedBaseCheck, CheckCr50U2f, CheckIssuerKey + key / flag alignment rows shared with C02")
  ctx.expect("R-C08-GROUP", 6, "two checks x (partition, issuer grouping, every curve gets its turn)")
  ctx.expect("R-C08-WINDOW", 3, "sizes, aligned slices, accumulation")
  ctx.expect("R-C08-LCG-TABLE", 18, "18 table entries")
  ctx.expect("R-C08-SUBSETS", 5, "strategy flags, two users, regimes, ForCurve wiring")
  ctx.expect("R-C08-U2F", 3, "basis, gate, windows")


def rule_group(ctx):
  R = "R-C08-GROUP"
  repo = ctx.repo
  for cls in ("BiasedBaseCheck", "CheckCr50U2f"):
    b = body(repo, cls)
    # the sub-batch handed to _MapIssuerSigIndexes: the artifacts whose issuer curve type equals the loop's curve id, and the curve object used in that
    # pass of the loop is the factory entry of the same id (values, not names)
    grp = [e for e in b.events if e.kind == "call" and e.data["name"] == "repo:" + ES + ":_MapIssuerSigIndexes" and e.data["args"]]
    okp = bool(grp)
    why = "" if grp else "the signatures are not grouped by issuer with _MapIssuerSigIndexes"
    for e in grp:
      v = as_poly(e.data["args"][0]).as_atom() if isinstance(e.data["args"][0], Poly) else None
      K = None
      if v is not None and v.kind == "map" and len(v.args) == 3 and isinstance(v.args[2], Poly) and v.args[0] == sym.mk("idx", v.args[2], Poly.atom(v.args[1])):
        K = T.partition_key(v.args[2].as_atom(), b.artifacts)
      if K is None:
        okp, why = False, "the grouped sub-batch is not the artifacts filtered by `issuer_key_info.curve_type == <curve id>`"
        continue
      if T.partition_key_source(K, b.artifacts) is None:
        okp, why = False, "the curve id %s does not range over the factory's keys or the batch's curve types: some curve's signatures are never examined" % repr(K)[:80]
    looks = T.factory_lookups([x for e in b.events for x in ([e.data.get("value")] + list(e.data.get("args", []) if e.kind == "call" else []))])
    keys = {repr(T.partition_key(a, b.artifacts)) for e in b.events if isinstance(e.data.get("value"), Poly) for a in e.data["value"].all_atoms() if a.kind == "filter" and T.partition_key(a, b.artifacts) is not None}
    if okp and any(repr(x) not in keys for x in looks):
      okp, why = False, "the curve object is looked up under another id than the one the signatures are filtered by"
    ctx.record(R, b.where(), "per-curve partition by issuer_key_info.curve_type", okp, "every supported curve gets the signatures of that curve only" if okp else why)
    # per issuer: the de-duplicated (r, s, z) set is built from that issuer's index list into the same sub-batch, with the partition's curve
    # set(map(ECDSAValues(sub[idxs[b]].ecdsa_sig_info, CURVE_FACTORY[K]), b, idxs)) - found by value wherever it is bound
    sets = []
    for e in b.events:
      v_ = e.data.get("value") if e.kind == "assign" else None
      if isinstance(v_, Poly):
        for a_ in v_.all_atoms():
          if a_.kind == "set" and "ECDSAValues" in repr(a_)[:4000] and a_ not in sets:
            sets.append(a_)
    oki = bool(sets)
    for v in sets:
      good = False
      m = v.args[0].as_atom() if isinstance(v.args[0], Poly) else None
      if m is not None and m.kind == "map" and len(m.args) == 3 and isinstance(m.args[0], Poly):
        elt, bv, src_ = m.args
        sa = as_poly(src_).as_atom()
        if sa is not None and sa.kind == "idx" and sa.args[0].as_atom() is not None and "_MapIssuerSigIndexes" in repr(sa.args[0]):
          ea = elt.as_atom()
          if ea is not None and ea.kind == "call" and ea.args[0] == P("lit", "ec_util:ECDSAValues"):
            sig = ea.args[1].as_atom()
            cv = ea.args[2].as_atom()
            bvp = Poly.atom(bv) if not isinstance(bv, Poly) else bv
            sub = None
            if sig is not None and sig.kind == "attr" and sig.args[1] == "ecdsa_sig_info":
              el = as_poly(sig.args[0]).as_atom()
              if el is not None and el.kind == "idx" and as_poly(el.args[1]) == sym.mk("idx", as_poly(src_), bvp):
                sub = as_poly(el.args[0]).as_atom()
            K = None
            flt = None
            if sub is not None and sub.kind == "map" and len(sub.args) == 3 and isinstance(sub.args[2], Poly):
              flt = sub.args[2].as_atom()
            elif sub is not None and sub.kind == "filter":
              flt = sub                        # idx(map(idx(F, b), b, F), j) is normalised to idx(F, j)
            if flt is not None:
              K = T.partition_key(flt, b.artifacts)
            # the index lists come from grouping the same sub-batch
            same_sub = flt is not None and repr(Poly.atom(flt)) in repr(sa.args[0])
            if K is not None and same_sub and cv is not None and cv.kind == "idx" and repr(cv.args[0]) == T.FACTORY_REF and as_poly(cv.args[1]) == K:
              good = True
      oki = oki and good
    ctx.record(R, b.where(), "per-issuer (r, s, z) from that issuer's signatures, duplicates removed", oki,
               "unique ECDSAValues(sigs[idx].ecdsa_sig_info, curve) for idx in the issuer's index list" if oki else "the per-issuer value set is built from other signatures / another curve")


def rule_window(ctx):
  """Window sizes, aligned slices, tiling and the early break of BiasedBaseCheck.Check - read off values: the size is what the slice bounds differ by,
  the lists are what is sliced, the curve is the factory entry of the partition's curve id."""
  R = "R-C08-WINDOW"
  repo = ctx.repo
  b = body(repo, "BiasedBaseCheck")
  from .c10 import apply_floor_lemma, provably_nonneg
  from .c12 import canon_le

  def literal_sizes(S):
    """S = idx(seq(24, 48, 120), k) -> [24, 48, 120]"""
    a = S.as_atom()
    if a is None or a.kind != "idx":
      return None
    sq = as_poly(a.args[0]).as_atom()
    if sq is None or sq.kind != "seq":
      return None
    vals = [as_poly(x).as_int() for x in sq.args]
    return vals if all(v is not None for v in vals) else None
  calls = [e for e in b.events if e.kind == "call" and e.data["name"].endswith("hidden_number_problem:HiddenNumberProblem")]
  sizes = None
  oka = bool(calls)
  why = ""
  for e in calls:
    a, b_ = as_poly(e.data["args"][0]).as_atom(), as_poly(e.data["args"][1]).as_atom()
    if a is None or b_ is None or a.kind != "slice" or b_.kind != "slice" or a.args[1:] != b_.args[1:]:
      oka = False
      why = "a and b are sliced with different bounds"
      continue
    base, lo, hi = as_poly(a.args[0]), as_poly(a.args[1]), as_poly(a.args[2])
    S = hi - lo
    sz = literal_sizes(S)
    if sz is None:
      oka = False
      why = "window length %r is not one of a literal list of sizes" % (S,)
      continue
    sizes = sz
    cv = as_poly(e.data["args"][3]).as_atom()
    cvb = as_poly(cv.args[0]).as_atom() if cv is not None and cv.kind == "attr" and cv.args[1] == "n" else None
    okc = cvb is not None and cvb.kind == "idx" and repr(cvb.args[0]) == T.FACTORY_REF and T.partition_key_source(as_poly(cvb.args[1]), b.artifacts) is not None
    if not okc or as_poly(e.data["args"][4]) != sym.mk("attr", SELF, "bias"):
      oka = False
      why = "order / bias argument changed"
    if not (isinstance(e.data["args"][2], Const) and e.data["args"][2].v is None):
      oka = False
      why = "weight is not left to the default selection"
    # the windows tile the sample: starts s0 + k*st over range(s0, stop, st) with s0 = 0, st = size, stop >= len(a)
    tiled = False
    for info in b.loops():
      for vis in info.get("visits", []):
        it = as_poly(vis["iter"]).as_atom() if isinstance(vis["iter"], Poly) else None
        if it is None or it.kind != "range" or len(it.args) != 3:
          continue
        s0, stop, st = [as_poly(x) for x in it.args]
        if not (lo - (s0 + as_poly(vis["k"]) * st)).is_zero():
          continue
        D = stop - sym.mk("len", base)
        LB, used = apply_floor_lemma(D, set())
        reach = LB is not None and (LB.is_zero() or provably_nonneg(LB, {x for x in LB.atoms()}))
        if s0.as_int() == 0 and (st - S).is_zero() and reach:
          tiled = True
        else:
          why = "windows start at %r, advance by %r up to %r: they do not tile all len(a) signatures with stride = size" % (s0, st, stop)
    if not tiled:
      oka = False
      why = why or "window starts are not driven by range(0, >= len(a), size)"
  oks = sizes is not None and {24, 48, 120} <= set(sizes) and list(sizes) == sorted(sizes)
  ctx.record(R, b.where(), "window sizes include 24, 48, 120 (ascending)", oks, "sizes %r" % (sizes,))
  ctx.record(R, b.where(), "aligned windows a[i:i+size], b[i:i+size], stride = size", oka, why or "identical slices of a and b, consecutive windows cover every signature")
  # early break: only under len(list) <= size (in any spelling), for the list that is windowed and the size of the current pass
  brk = [e for e in b.events if e.kind == "break"]
  okb = len(brk) >= 1
  for e in brk:
    good = False
    for fc in e.facts:
      cl = canon_le(fc) if fc[0] == "cmp" and fc[1] in ("Lt", "LtE", "Gt", "GtE") else None
      if cl is None:
        continue
      E, bd = cl            # E <= bd
      lens = [a_ for a_ in E.atoms() if a_.kind == "len"]
      if len(lens) == 1 and bd <= 0:
        S_ = Poly.atom(lens[0]) - E
        if literal_sizes(S_) is not None:
          good = True
    okb = okb and good
  ctx.record(R, b.where(), "early break only when one window already holds everything", okb,
             "break dominated by len(a) <= size (accumulation of the guesses: R-C08-ACCUM)" if okb else "the size loop ends early")
  # lcg branch
  lc = [e for e in b.events if e.kind == "call" and e.data["name"].endswith("hidden_number_problem:HiddenNumberProblemForCurve")]
  okl = bool(lc)
  for e in lc:
    args = e.data["args"]
    def whole(x, comp):
      """the complete list of the issuer's coefficients: the pre-sized list that was filled element-wise, or the comprehension / append loop over all
      signature values taking component `comp` of HiddenNumberParams"""
      a_ = x.as_atom() if isinstance(x, Poly) else None
      if a_ is None:
        return False
      if a_.kind == "listrep":
        return True
      if a_.kind == "map" and len(a_.args) == 3:
        el = as_poly(a_.args[0]).as_atom()
        return el is not None and el.kind == "idx" and as_poly(el.args[1]).as_int() == comp and "HiddenNumberParams" in repr(el.args[0])
      return False
    full = len(args) >= 2 and whole(args[0], 0) and whole(args[1], 1)
    if not (full and T.partition_key_source(as_poly(args[2]), b.artifacts) is not None):
      okl = False
  ctx.record(R, b.where(), "LCG branch: all (a, b) of the issuer with the partition's curve id", okl, "HiddenNumberProblemForCurve(a, b, curve_id, lcg, strategy)" if okl else "LCG search receives other data")


def rule_markall(ctx):
  R = "R-C08-MARKALL"
  repo = ctx.repo
  f = repo.func(ES, "_IssuerDLogs")
  w = sym.Walker(repo, f)
  w.run()
  guesses, pks = [P("param", x) for x in f.params()[:2]]
  probs = []
  outer = [i for i in w.loop_info.values() if not isinstance(i["iter"], Seq) and i["iter"] is not None and "BatchMultiplyG" in repr(as_poly(i["iter"]))
           and not (as_poly(i["iter"]).as_atom() is not None and as_poly(i["iter"]).as_atom().kind == "idx" and as_poly(as_poly(i["iter"]).as_atom().args[0]) == pks)]
  if len(outer) != 1:
    probs.append("no loop over the public keys of the guesses")
  else:
    ol = outer[0]
    inner = [i for i in w.loop_info.values() if i is not ol and any(x is i["node"] for x in ast.walk(ol["node"]))]
    n_in = 0
    for il in inner:
      for vis in il["visits"]:
        if isinstance(vis["iter"], Seq) or vis["iter"] is None:
          continue
        ia = as_poly(vis["iter"]).as_atom()
        if ia is None or ia.kind != "idx" or as_poly(ia.args[0]) != pks:
          continue
        n_in += 1
        gp = as_poly(ia.args[1])                       # the guess's public key
        ga = gp.as_atom()
        oi = as_poly(ga.args[1]) if ga is not None and ga.kind == "idx" else None    # position of the guess
        for kind, val, s_, since, v2 in il["body_paths"]:
          if v2 is not vis:
            continue
          evs = [w.events[x] for x in s_.trace if x >= since]
          st = [e for e in evs if e.kind == "store"]
          elt = sym.mk("idx", as_poly(vis["iter"]), as_poly(vis["k"]))
          if kind != "fall" or len(st) != 1 or as_poly(st[0].data["index"]) != elt or oi is None or as_poly(st[0].data["value"]) != sym.mk("idx", guesses, oi):
            probs.append("not every signature index of the matched issuer is assigned the guess that produced its key")
    if n_in == 0:
      probs.append("the indices pks[guess_pk] of the matched issuer are not iterated")
    n_hit = 0
    for kind, val, s_, since, vis in ol["body_paths"]:
      if kind in ("break", "return"):
        probs.append("the loop over the guesses is left early")
      newf = s_.facts[len(vis["head"].facts):]
      hit = any(fc[0] == "cmp" and fc[1] == "In" and not isinstance(fc[3], Seq) and as_poly(fc[3]) == pks for fc in newf)
      miss = any(fc[0] == "cmp" and fc[1] == "NotIn" and not isinstance(fc[3], Seq) and as_poly(fc[3]) == pks for fc in newf)
      evs = [w.events[x] for x in s_.trace if x >= since]
      if miss and any(e.kind == "store" for e in evs):
        probs.append("a key is assigned for a guess that matches no issuer")
      n_hit += 1 if hit else 0
      if not hit and not miss:
        probs.append("a guess is not looked up among the issuer keys")
    if n_hit != n_in:
      probs.append("a matching guess does not always reach the loop that assigns the issuer's signatures (%d matching paths, %d assignment loops)" % (n_hit, n_in))
  ok = not probs
  ctx.record(R, f.where, "every signature index of the verified issuer is assigned", ok, "guess_pk in pks -> issuer_dlogs[idx] = guesses[i] for every idx in pks[guess_pk]; no early exit" if ok else "; ".join(sorted(set(probs))))
  for cls in ("BiasedBaseCheck", "CheckCr50U2f"):
    b = body(repo, cls)
    calls = b.calls("repo:%s:_IssuerDLogs" % ES)
    # what is verified is the accumulator the guesses were collected in (its value after the issuer loop), possibly through list(..) or a temporary
    acc_names = {e.data["target"].id for e in b.events if e.kind == "mutate" and e.data["method"] in ("update", "add", "extend", "append", "__ior__") and isinstance(e.data.get("target"), ast.Name)}
    acc_names |= {e.data["name"] for e in b.events if e.kind == "augassign" and isinstance(getattr(e.node, "op", None), (ast.BitOr, ast.Add))}
    acc_vals = [as_poly(v_) for li_ in b.w.loop_info.values() for vis_ in li_.get("visits", []) for nm_, v_ in (vis_.get("after_env") or {}).items() if nm_ in acc_names and isinstance(v_, Poly)]

    def is_acc(x):
      if not isinstance(x, Poly):
        return False
      if any(x == a_ for a_ in acc_vals):
        return True
      xa = x.as_atom()
      return xa is not None and xa.kind in ("list", "sorted", "tuple", "extcall") and any(isinstance(y, Poly) and any(y == a_ for a_ in acc_vals) for y in xa.args)
    okc = bool(calls) and all(is_acc(e.data["args"][0]) or "guesses" in ast.unparse(e.node.args[0]) for e in calls) and all(not e.state.tags or len(e.state.tags) == 1 for e in calls)
    ctx.record(R, b.where(), "all accumulated guesses are verified once per partition", okc, "_IssuerDLogs(list(guesses), pks, curve) after the issuer loop" if okc else "verification call changed")


def rule_lcg_table(ctx):
  R = "R-C08-LCG-TABLE"
  repo = ctx.repo
  m = repo.mod("lcg_constants")
  fac = m.consts.get("CONSTANT_FACTORY")
  if not isinstance(fac, ast.List):
    raise Incomplete("CONSTANT_FACTORY is not a literal list", "lcg_constants")
  curves = {k.split(".")[-1]: kind for k, kind, _ in curve_table(repo)}
  needed = ("curve", "lcg", "sample_size", "min_signatures", "sliding_window_size", "constants", "w")
  names = set()
  # sibling agreement: the (c, d) constants of every model were precomputed for one lattice weight; rows of the same kind (normalized or not) share it
  wvals = {}
  for el in fac.elts:
    if isinstance(el, ast.Name) and isinstance(m.consts.get(el.id), ast.Dict):
      dd = {fold.try_fold(k): v for k, v in zip(m.consts[el.id].keys, m.consts[el.id].values)}
      if "w" in dd:
        wvals.setdefault(fold.try_fold(dd.get("normalized")) if "normalized" in dd else None, []).append(fold.try_fold(dd["w"]))
  wmode = {k: max(set(v), key=v.count) for k, v in wvals.items() if len(v) >= 3}
  for el in fac.elts:
    if not isinstance(el, ast.Name) or el.id not in m.consts or not isinstance(m.consts[el.id], ast.Dict):
      ctx.incomplete(R, "lcg_constants:CONSTANT_FACTORY", ast.unparse(el), "entry is not a module-level dict literal")
      continue
    d = m.consts[el.id]
    ent = {}
    for k, v in zip(d.keys, d.values):
      kk = fold.try_fold(k)
      if kk in ("curve", "lcg"):
        ent[kk] = ast.unparse(v)
      else:
        ent[kk] = fold.try_fold(v)
    probs = []
    for k in needed:
      if ent.get(k) is None:
        probs.append("key %r missing or not a literal" % k)
    if not probs:
      ms, sw, ss, cs, w_ = ent["min_signatures"], ent["sliding_window_size"], ent["sample_size"], ent["constants"], ent["w"]
      if not (1 <= ms <= sw <= ss):
        probs.append("need 1 <= min_signatures <= sliding_window_size <= sample_size, got %s, %s, %s" % (ms, sw, ss))
      need = (ss - 1) // max(ms, 1) + 1
      if len(cs) < need:
        probs.append("%d constants, but the subset generator can ask for a prefix of %d ((sample_size-1)//min_signatures + 1): slicing would silently truncate" % (len(cs), need))
      if not all(isinstance(x, tuple) and len(x) == 2 and all(isinstance(y, int) for y in x) for x in cs):
        probs.append("constants are not (c, d) integer pairs")
      if not (isinstance(w_, int) and w_ > 0 and w_ & (w_ - 1) == 0):
        probs.append("w is not a power of two")
      elif ent.get("normalized") in wmode and w_ != wmode[ent.get("normalized")]:
        probs.append("w = %d, while the other %d models of this kind were precomputed for w = 2^%d: the constants do not fit this weight" % (
            w_, len(wvals[ent.get("normalized")]) - 1, wmode[ent.get("normalized")].bit_length() - 1))
      cname = ent["curve"].split(".")[-1]
      if curves.get(cname) != "curve":
        probs.append("curve %s is not a supported prime-field curve of CURVE_FACTORY" % cname)
      if not ent["lcg"].startswith("LcgName."):
        probs.append("lcg is not an LcgName member")
      if (cname, ent["lcg"], ent.get("lcg_size")) in names:
        probs.append("duplicate model")
      names.add((cname, ent["lcg"], ent.get("lcg_size")))
    ctx.record(R, "lcg_constants:" + el.id, "model entry", not probs, "; ".join(probs) or
               "min %s <= window %s <= sample %s, %d constants >= %d needed, w = 2^%d" % (ent["min_signatures"], ent["sliding_window_size"], ent["sample_size"], len(ent["constants"]),
                                                                                       (ent["sample_size"] - 1) // ent["min_signatures"] + 1, ent["w"].bit_length() - 1))


def rule_subsets(ctx):
  R = "R-C08-SUBSETS"
  repo = ctx.repo
  hn = "hidden_number_problem"
  c = repo.cls(hn, "SearchStrategy")
  vals = {k: fold.try_fold(v) for k, v in c.consts.items()}
  fl = fold.Folder({k: v for k, v in vals.items() if isinstance(v, int)})
  dflt = None
  try:
    dflt = fl.fold(c.consts["DEFAULT"]) if "DEFAULT" in c.consts else None
  except fold.NotConst:
    dflt = None
  want = (vals.get("SINGLE") or 0) | (vals.get("SLIDING") or 0) | (vals.get("INCLUDE_KEY") or 0)
  distinct = len({vals.get("SINGLE"), vals.get("SLIDING"), vals.get("INCLUDE_KEY")}) == 3 and all(isinstance(vals.get(k), int) and vals[k] & (vals[k] - 1) == 0 for k in ("SINGLE", "SLIDING", "INCLUDE_KEY"))
  ctx.record(R, hn + ":SearchStrategy", "DEFAULT = SINGLE | SLIDING | INCLUDE_KEY", dflt == want and distinct, "flags %s, DEFAULT %r" % ({k: vals.get(k) for k in ("SINGLE", "SLIDING", "INCLUDE_KEY")}, dflt))
  for cls in ("CheckLCGNonceGMP", "CheckLCGNonceJavaUtilRandom"):
    k = repo.cls(ES, cls)
    src = ast.unparse(k.methods["__init__"].node) if "__init__" in k.methods else ""
    ok = "hnp.SearchStrategy.DEFAULT" in src
    ctx.record(R, "%s:%s" % (ES, cls), "uses SearchStrategy.DEFAULT", ok, "all three strategies enabled" if ok else "strategy changed")
  f = repo.func(hn, "_HiddenNumberProblemSubsets")
  w = sym.Walker(repo, f)
  w.run()
  a, b_, flags = P("param", "a"), P("param", "b"), P("param", "flags")
  na = sym.mk("len", a)
  ys = {}
  for e in w.events:
    if e.kind == "yield":
      ys.setdefault(id(e.node), []).append(e)
  probs = []
  regimes = []          # (facts, loop trip expression or None)
  NONE = P("lit", "None")
  for evs in ys.values():
    for e in evs:
      v = e.data["value"]
      if not (isinstance(v, Seq) and len(v.items) == 4):
        probs.append("a yielded problem is not (a-subset, b-subset, constants, w)")
        continue
      A, B, CS, W_ = [x if isinstance(x, Seq) else as_poly(x) for x in v.items]
      if isinstance(A, Seq) or isinstance(B, Seq) or isinstance(CS, Seq):
        probs.append("a yielded problem is not built from a, b and the model's constants")
        continue
      # the same selection of a and b
      L = None
      Aa, Ba = A.as_atom(), B.as_atom()
      if A == a and B == b_:
        L = na
      elif Aa is not None and Ba is not None and Aa.kind == "slice" and Ba.kind == "slice" and Aa.args[0] == a and Ba.args[0] == b_ and \
          [repr(x) for x in Aa.args[1:]] == [repr(x) for x in Ba.args[1:]] and repr(Aa.args[3]) == repr(NONE):
        lo = Poly.const(0) if repr(Aa.args[1]) == repr(NONE) else as_poly(Aa.args[1])
        L = as_poly(Aa.args[2]) - lo
      elif (A - a).as_atom() is not None and (B - b_).as_atom() is not None and (A - a).as_atom().kind == "seq" and (B - b_).as_atom().kind == "seq" \
          and len((A - a).as_atom().args) == 1 and len((B - b_).as_atom().args) == 1:
        ka, kb = (A - a).as_atom().args[0], (B - b_).as_atom().args[0]
        if as_poly(ka).as_int() == 0 and as_poly(kb).as_int() == 1:
          L = na + 1         # the private key as an extra sample: k = 0 + 1*d
        else:
          probs.append("the key-inclusion sample is not (a, b) = (0, 1)")
      if L is None:
        probs.append("a and b of a yielded problem are not the same selection of signatures (line %d)" % e.node.lineno)
        continue
      ca = CS.as_atom()
      model = None
      if ca is not None and ca.kind == "slice" and repr(ca.args[1]) == repr(NONE) and repr(ca.args[3]) == repr(NONE):
        base = ca.args[0].as_atom()
        if base is not None and base.kind == "idx" and repr(base.args[1]) == repr(P("lit", "'constants'")):
          model = base.args[0]
      if model is None:
        probs.append("the constants of a yielded problem are not a prefix of the model's list")
        continue
      S = sym.mk("idx", model, P("lit", "'sample_size'"))
      NC = as_poly(ca.args[2])
      ok_nc = False
      for at in NC.atoms():
        if at.kind == "fdiv" and as_poly(at.args[1]) == L:
          rest = NC - Poly.atom(at)
          num = as_poly(at.args[0])
          # ceil(S / L) = (S - 1) // L + 1 = (S + L - 1) // L ; anything at least that large is enough
          for want_num, want_rest in ((S - 1, 1), (S + L - 1, 0)):
            d1, d2 = (num - want_num).as_int(), (rest - want_rest).as_int()
            if d1 is not None and d2 is not None and d1 >= 0 and d2 >= 0:
              ok_nc = True
      if not ok_nc:
        probs.append("line %d: %r constants for %r signatures are not provably ceil(sample_size / signatures): the lattice may get fewer samples than the model needs" % (e.node.lineno, NC, L))
      if as_poly(W_) != sym.mk("idx", model, P("lit", "'w'")):
        probs.append("weight of a yielded problem is not the model's w")
      from pcstatic import accum
      trip = None
      chain, straight = accum.enclosing_fors(f.node, e.node, accum.parents(f.node))
      inner = [lp for lp in chain if not any(isinstance(x, ast.Name) and x.id == "CONSTANT_FACTORY" or isinstance(x, ast.Attribute) and x.attr == "CONSTANT_FACTORY" for x in ast.walk(lp.iter))]
      if inner:
        info = [i_ for i_ in w.loop_info.values() if i_["node"] is inner[-1]]
        trip = accum.trip_count(info[0]["visits"][0]["iter"]) if info and info[0]["visits"] else None
      regimes.append((model, e.facts, trip, e.node.lineno))
  if len(ys) < 4:
    probs.append("fewer than four problem shapes are produced (sliding, single, exact, key inclusion)")
  # every model of the curve (and of the requested generator) is tried: the loop over the models is never left early, a model is skipped only for
  # another curve / another generator, and the only refusal is the empty strategy
  sel = []
  ct, lcg = P("param", f.params()[2]), P("param", f.params()[3])
  for li in w.loop_info.values():
    it0 = li["visits"][0]["iter"].as_atom() if li["visits"] and isinstance(li["visits"][0]["iter"], Poly) else None
    if it0 is None or it0.kind != "ref" or "CONSTANT_FACTORY" not in repr(it0):
      continue
    for vis in li["visits"]:
      mdl = sym.mk("idx", as_poly(vis["iter"]), as_poly(vis["k"]))
      mc, ml = sym.mk("idx", mdl, P("lit", "'curve'")), sym.mk("idx", mdl, P("lit", "'lcg'"))

      def is_lcg_set(x):
        return isinstance(x, Seq) and len(x.items) == 2 and sorted(repr(i_) for i_ in x.items) == sorted([repr(ml), repr(Const(None))])
      for kind, val, st_, since, v_ in li["body_paths"]:
        if v_ is not vis:
          continue
        newf = st_.facts[len(vis["head"].facts):]
        if kind not in ("fall", "continue"):
          sel.append("the search over the models is left by %s: later models of the curve are never tried" % kind)
          continue
        same_curve = any(fc[0] == "cmp" and fc[1] == "Eq" and isinstance(fc[2], Poly) and isinstance(fc[3], Poly) and {fc[2], fc[3]} == {mc, ct} for fc in newf)
        other_curve = any(fc[0] == "cmp" and fc[1] == "NotEq" and isinstance(fc[2], Poly) and isinstance(fc[3], Poly) and {fc[2], fc[3]} == {mc, ct} for fc in newf)
        wanted = any(fc[0] == "cmp" and fc[1] == "In" and isinstance(fc[2], Poly) and fc[2] == lcg and is_lcg_set(fc[3]) for fc in newf)
        unwanted = any(fc[0] == "cmp" and fc[1] == "NotIn" and isinstance(fc[2], Poly) and fc[2] == lcg and is_lcg_set(fc[3]) for fc in newf)
        rest = [fc for fc in newf if fc[0] == "cmp" and not ("'curve'" in repr(fc) or "'lcg'" in repr(fc))]
        acts = any(w.events[i_].kind == "yield" for i_ in st_.trace[since:]) or bool(rest)
        if acts and not (same_curve and wanted):
          sel.append("a model is used without checking that it is for this curve and for the requested generator (or any generator when none is requested)")
        if not acts and not (other_curve or (same_curve and unwanted)):
          # the two reasons may be tested together (`if wrong_curve or wrong_generator: continue`): read the path condition itself
          def reason(c_, pol_):
            if not (isinstance(c_, tuple) and c_):
              return False
            if c_[0] == "not":
              return reason(c_[1], not pol_)
            if c_[0] in ("and", "or"):
              disj = (c_[0] == "or") == pol_          # or under True / and under False: a disjunction of the (negated) parts
              parts = [reason(x_, pol_) for x_ in c_[1]]
              return all(parts) if disj else any(parts)
            if c_[0] == "cmp" and len(c_) == 4:
              op = c_[1] if pol_ else {"Eq": "NotEq", "NotEq": "Eq", "In": "NotIn", "NotIn": "In"}.get(c_[1])
              if op == "NotEq" and isinstance(c_[2], Poly) and isinstance(c_[3], Poly) and {c_[2], c_[3]} == {mc, ct}:
                return True
              if op == "NotIn" and isinstance(c_[2], Poly) and c_[2] == lcg and is_lcg_set(c_[3]):
                return True
            return False
          newpc = st_.pc[len(vis["head"].pc):]
          if not any(reason(c_, pol_) for c_, pol_, nd_ in newpc):
            sel.append("a model is skipped although it is for this curve and generator")
    sel.append(None)
  if not sel:
    probs.append("no loop over lcg_constants.CONSTANT_FACTORY")
  probs.extend(x for x in sel if x)
  for e in w.events:
    if e.kind == "raise" and not any(fc[0] == "falsy" and isinstance(fc[1], Poly) and fc[1] == flags for fc in e.state.facts):
      probs.append("line %d refuses a search although strategy flags are set" % e.node.lineno)
  # coverage: with all strategy flags set, some problem is produced whenever len(a) >= min_signatures - 1 (models keep min_signatures <= window: R-C08-LCG-TABLE)
  if regimes and not probs:
    from pcstatic import gridval
    model = regimes[0][0]
    Wn, MS, S = [sym.mk("idx", model, P("lit", "'%s'" % k_)) for k_ in ("sliding_window_size", "min_signatures", "sample_size")]
    full = (vals.get("SINGLE") or 0) | (vals.get("SLIDING") or 0) | (vals.get("INCLUDE_KEY") or 0)
    bad = None
    for ms in (2, 3, 5):
      for wn in (ms, ms + 1, ms + 4):
        for sv in (wn, 2 * wn + 1, 15):
          for n_ in range(0, 3 * wn + 3):
            env = {na.as_atom(): n_, Wn.as_atom(): wn, MS.as_atom(): ms, S.as_atom(): sv, flags.as_atom(): full}
            produced = False
            for mdl, facts, trip, line in regimes:
              okf = True
              for fc in facts:
                if fc[0] != "cmp":
                  continue
                if "CONSTANT_FACTORY" in repr(fc) and any(k_ in repr(fc) for k_ in ("'curve'", "'lcg'")):
                  continue          # model selection, not a regime condition
                try:
                  h = gridval.holds(("cmp", fc[1], subst_band(fc[2], flags, full), subst_band(fc[3], flags, full)), env)
                except Exception:
                  h = None
                if h is False:
                  okf = False
              if okf and trip is not None:
                try:
                  okf = gridval.ev(trip, env) >= 1
                except gridval.Unknown:
                  okf = False
              produced = produced or okf
            if produced != (n_ >= ms - 1) and bad is None:
              bad = "len(a) = %d, min_signatures = %d, window = %d: %s" % (n_, ms, wn, "no problem is produced" if not produced else "a problem is produced from too few signatures")
    if bad:
      probs.append("regimes do not cover len(a) >= min_signatures - 1 exactly: " + bad)
  ctx.record(R, f.where, "at least one problem whenever len(a) >= min_signatures - 1 (DEFAULT flags), each with ceil(sample_size / signatures) constants", not probs,
             "; ".join(sorted(set(probs))[:3]) or "%d problem shapes: identical selections of a and b, constants[:ceil(sample_size / len)], model weight; regimes cover exactly len(a) >= min_signatures - 1" % len(ys))


def subst_band(x, flags, full):
  """band(c, flags) with all strategy bits set evaluates to c & full."""
  if isinstance(x, (Seq, Const)):
    return x
  p = as_poly(x)
  for at in list(p.atoms()):
    if at.kind == "band" and any(as_poly(y) == flags for y in at.args):
      cs = [as_poly(y).as_int() for y in at.args if as_poly(y) != flags]
      if len(cs) == 1 and cs[0] is not None:
        p = p.subst(at, Poly.const(cs[0] & full))
  return p


def rule_u2f(ctx):
  R = "R-C08-U2F"
  repo = ctx.repo
  f = repo.func("cr50_u2f_weakness", "Cr50U2fGuesses")
  w = sym.Walker(repo, f)
  w.run()
  n = P("param", "n")
  # the basis is whatever is handed to the sub-problem as its fifth argument (built by a comprehension or by an append loop)
  basis = [e for e in w.events if e.kind == "call" and e.data["name"].endswith(":Cr50U2fSubProblem") and len(e.data["args"]) >= 5 and isinstance(e.data["args"][4], Poly)]
  ok = bool(basis)
  for e in basis:
    v = as_poly(e.data["args"][4]).as_atom()
    good = False
    if v is not None and v.kind == "map":
      elt, bv, src = v.args
      if src == sym.mk("range", Poly.const(0), sym.mk("bitlen", n), Poly.const(32)):
        j = Poly.atom(bv) * 32
        if elt == sym.mk("shl", Poly.const(0x01010101), j):
          good = True
    ok = ok and good
  ctx.record(R, f.where, "basis 0x01010101 << j, j = 0, 32, ..., bitlen - 32", ok, "one repeated-byte word per 32-bit limb" if ok else "basis changed")
  early = [e for e in w.events if e.kind == "return" and e.node is not None and any(f_[0] == "cmp" and f_[1] == "NotEq" and as_poly(f_[2]) == sym.mk("mod", sym.mk("bitlen", n), Poly.const(32)) for f_ in e.facts)]
  okg = bool(early) and all("set" in repr(as_poly(e.data["value"])) or "emptyset" in repr(as_poly(e.data["value"])) for e in early)
  ctx.record(R, f.where, "orders whose length is not a multiple of 32 are skipped (empty result)", okg, "gate bitlen % 32 != 0 -> no guesses" if okg else "gate changed")
  b = body(repo, "CheckCr50U2f")
  calls = [e for e in b.events if e.kind == "call" and e.data["name"] == "repo:cr50_u2f_weakness:Cr50U2fGuesses"]
  pair = single = False
  for e in calls:
    a = [as_poly(x) for x in e.data["args"]]
    if len(a) != 7:
      continue
    # (r, s, z) triples are components 0, 1, 2 of elements of one list UV: read UV and the two positions off the arguments
    def triple(xs):
      ats = [x.as_atom() for x in xs]
      if any(t is None or t.kind != "idx" or as_poly(t.args[1]).as_int() != i_ for i_, t in enumerate(ats)):
        return None
      els = {repr(t.args[0]) for t in ats}
      el = as_poly(ats[0].args[0]).as_atom()
      if len(els) != 1 or el is None or el.kind != "idx":
        return None
      return as_poly(el.args[0]), as_poly(el.args[1])
    t1 = triple(a[0:3])
    if t1 is None:
      continue
    uv, pos1 = t1
    na = a[6].as_atom()
    cb = as_poly(na.args[0]).as_atom() if na is not None and na.kind == "attr" and na.args[1] == "n" else None
    if not (cb is not None and cb.kind == "idx" and repr(cb.args[0]) == T.FACTORY_REF and T.partition_key_source(as_poly(cb.args[1]), b.artifacts) is not None):
      continue
    t2 = triple(a[3:6])
    if t2 is not None and t2[0] == uv:
      # pair window: loop index k over range(len(uv) - 1), elements k and k + 1
      for info in b.loops():
        for vis in info.get("visits", []):
          ra_ = vis["iter"].as_atom() if isinstance(vis["iter"], Poly) else None
          if ra_ is None or ra_.kind != "range":
            continue
          rr_ = [as_poly(x_) for x_ in ra_.args]
          cnt_ = rr_[0] if len(rr_) == 1 else (rr_[1] - rr_[0] if len(rr_) == 2 or (len(rr_) == 3 and rr_[2].as_int() == 1) else None)
          # any spelling of "one pass per adjacent pair": len(uv) - 1 passes, pass t (0-based) looks at elements t and t + 1
          if cnt_ is not None and (cnt_ - (sym.mk("len", uv) - 1)).is_zero():
            k = as_poly(vis["k"])
            if (pos1 - k).is_zero() and (t2[1] - k - 1).is_zero():
              pair = True
    elif [x.as_int() for x in a[3:6]] == [1, 1, 0] and (pos1.as_int() == -1 or (pos1 - (sym.mk("len", uv) - 1)).is_zero()):
      single = True
  upd = [e for e in b.events if e.kind == "mutate" and e.data["method"] in ("update", "__ior__") and e.data["args"] and "Cr50U2fGuesses" in repr(e.data["args"][0])[:300]]
  okw = pair and single and len({id(e.node) for e in upd}) == 2
  ctx.record(R, b.where(), "sliding pair window plus the single-signature attempt", okw, "every adjacent pair and the last signature alone" if okw else "window structure changed")


# ------------------------------------------------------------------ ACCUM: guesses of all issuers and windows reach _IssuerDLogs
GROWERS = ("update", "add", "extend", "append")


def rule_accum(ctx, R="R-C08-ACCUM"):
  """The candidate keys handed to _IssuerDLogs are the union over every issuer (and every window) of the lattice results: inside the per-issuer loop
  the collection is only ever grown (update / add / |=), never rebound, so what one issuer contributes cannot be lost when the next one is processed;
  and every lattice call's result is one of the things added."""
  repo = ctx.repo
  for b in T.bodies(repo):
    if not b.where().startswith("ecdsa_sig_checks:"):
      continue
    calls = [e for e in b.events if e.kind == "call" and e.data["name"].endswith("ecdsa_sig_checks:_IssuerDLogs")]
    if not calls:
      continue
    w = b.w
    probs = []
    n_loops = 0
    seen = set()
    for e in calls:
      g = e.data["args"][0] if e.data["args"] else None
      if g is None or isinstance(g, Seq):
        probs.append("_IssuerDLogs is not given the collected guesses")
        continue
      ga = as_poly(g).as_atom()
      while ga is not None and ga.kind in ("list", "set", "sorted", "tuple") and ga.args:
        ga = as_poly(ga.args[0]).as_atom()
      gp = Poly.atom(ga) if ga is not None else None
      # the loop whose exit value this is
      hit = None
      for info in w.loop_info.values():
        for vis in info["visits"]:
          for nm, sv in vis["after_env"].items():
            if sv is not None and not isinstance(sv, (Seq, Const, tuple)) and gp is not None and as_poly(sv) == gp:
              hit = (info, vis, nm)
      if hit is None:
        probs.append("the guesses handed to _IssuerDLogs are not collected by a loop over the issuers")
        continue
      info, vis, nm = hit
      if id(vis) in seen:
        continue
      seen.add(id(vis))
      n_loops += 1
      pre = vis["pre_env"].get(nm)
      pa = as_poly(pre).as_atom() if pre is not None and not isinstance(pre, (Seq, Const, tuple)) else None
      empty = (isinstance(pre, Seq) and not pre.items) or (pa is not None and pa.kind in ("set", "setlit", "list", "call") and len([x for x in pa.args if not (isinstance(x, Poly) and x.as_atom() is not None and x.as_atom().kind == "lit")]) == 0)
      for kind, val, s, since, v2 in info["body_paths"]:
        if kind not in ("fall", "continue"):
          probs.append("issuer loop left by %s: later issuers contribute nothing" % kind)
          continue
        head = as_poly(v2["head"].env[nm])
        added = []
        why = grown_from(w, s.env.get(nm), head, nm, added)
        if why:
          probs.append("inside the issuer loop %s: guesses of earlier issuers are discarded" % why)
          continue
        # every lattice result computed on this pass is among the things added
        evs = [w.events[i] for i in s.trace if i >= since]
        for x in evs:
          if x.kind == "call" and ("hidden_number_problem:HiddenNumberProblem" in x.data["name"] or x.data["name"].endswith("Cr50U2fGuesses")):
            if not any(repr(as_poly(x.data["value"])) in repr(as_poly(y)) for y in added if not isinstance(y, Seq)):
              probs.append("a lattice result is computed but not added to the guesses")
    if n_loops == 0 and not probs:
      probs.append("no issuer loop found")
    ctx.record(R, b.where(), "guesses of every issuer and window are accumulated", not probs, "; ".join(sorted(set(probs))) or
               "%d issuer loop(s): the collection is only grown inside the loop and every lattice result is added" % n_loops)


def grown_from(w, cur, head, nm, added, depth=0):
  """'' when cur is head grown by update/add/|= only (following inner loops that themselves only grow it); else a reason."""
  if cur is None or isinstance(cur, (Seq, Const, tuple)):
    return "the collection is rebound"
  p = as_poly(cur)
  if p == head:
    return ""
  a = p.as_atom()
  if a is None:
    return "the collection is rebound"
  if a.kind == "mut" and len(a.args) >= 3 and isinstance(a.args[1], Poly) and a.args[1].as_atom() is not None and a.args[1].as_atom().args[0] in GROWERS:
    added.append(a.args[2])
    return grown_from(w, a.args[0], head, nm, added, depth)
  if a.kind == "bor" and any(as_poly(x) == head for x in a.args):
    added += [x for x in a.args if as_poly(x) != head]
    return ""
  if a.kind == "sym" and depth < 4:
    # exit value of an inner loop?
    for info in w.loop_info.values():
      for vis in info["visits"]:
        sv = vis["after_env"].get(nm)
        hv = vis["head"].env.get(nm)
        if (sv is not None and not isinstance(sv, (Seq, Const, tuple)) and as_poly(sv) == p) or \
           (hv is not None and not isinstance(hv, (Seq, Const, tuple)) and as_poly(hv) == p and as_poly(hv) != head):
          # exit value or loop-head value of an inner loop: grown from the value before that loop if every pass of it only grows the collection
          why = grown_from(w, vis["pre_env"].get(nm), head, nm, added, depth + 1)
          if why:
            return why
          for kind, val, s, since, v2 in info["body_paths"]:
            if v2 is not vis:
              continue
            why = grown_from(w, s.env.get(nm), as_poly(v2["head"].env[nm]), nm, added, depth + 1)
            if why:
              return why
          return ""
  return "the collection is rebound (it is %s at the end of a pass)" % (repr(p)[:80],)


# ------------------------------------------------------------------ WEIGHT (default lattice weight by sample count)
# The experimentally validated ladder of GetLattice (source comments: "chosen based on experiments ... against a large number of biased input sets"): the detection
# guarantee at the stated margin (signatures x biased bits >= 2 x curve size) was established with these weights; e.g. three signatures with a 192-bit bias on a
# 256-bit curve are only solved with w = 2^128.  bias value -> [(first sample count of the class, log2 w)]
WEIGHT_LADDER = {
    "MSB / COMMON_PREFIX": [(1, 128), (4, 64), (9, 48), (14, 32)],
    "GENERALIZED": [(1, 64), (20, 48), (32, 64)],
}


def rule_weight(ctx):
  R = "R-C08-WEIGHT"
  repo = ctx.repo
  f = repo.func("hidden_number_problem", "GetLattice")
  w = sym.Walker(repo, f)
  w.run()
  from pcstatic import regions
  pa, pw, pb = P("param", f.params()[0]), P("param", "w"), P("param", "bias")
  LEN = sym.mk("len", pa)
  bias_vals = {}
  cb = repo.cls("hidden_number_problem", "Bias")
  for k, v in cb.consts.items():
    x = fold.try_fold(v)
    if isinstance(x, int):
      bias_vals[k] = x
  groups = {"MSB / COMMON_PREFIX": [bias_vals.get("MSB"), bias_vals.get("COMMON_PREFIX")], "GENERALIZED": [bias_vals.get("GENERALIZED")]}
  # constant weights chosen under `w is None`: (facts, log2 w)
  choices = []
  for e in w.events:
    if e.kind != "assign" or not isinstance(e.data["value"], Poly) or e.data["value"].as_int() is None:
      continue
    if not any(fc[0] == "cmp" and fc[1] == "Is" and isinstance(fc[2], Poly) and fc[2] == pw and isinstance(fc[3], Const) and fc[3].v is None for fc in e.facts):
      continue
    wi = e.data["value"].as_int()
    if wi <= 0 or wi & (wi - 1):
      continue
    choices.append(([(c_, pol_) for c_, pol_, nd_ in e.state.pc], wi.bit_length() - 1))
  for gname, bvals in groups.items():
    if any(b is None for b in bvals):
      ctx.incomplete(R, f.where, gname, "Bias enum value not found")
      continue
    bad = None
    n_eval = 0
    for bval in bvals:
      for m in range(1, 41):
        val = regions.Valuation({LEN.as_atom(): m, pb.as_atom(): bval, sym.mk("len", P("param", f.params()[1])).as_atom(): m})
        got = []
        for facts, lg in choices:
          okf = True
          for fc, pol in facts:
            if fc[0] == "cmp" and fc[1] in ("Is", "IsNot"):
              continue
            if fc[0] not in ("cmp", "and", "or", "not"):
              continue
            try:
              if regions.eval_cond(fc, val) != pol:
                okf = False
                break
            except regions.Unknown:
              continue
          if okf:
            got.append(lg)
        want = [lg for start, lg in WEIGHT_LADDER[gname] if start <= m][-1]
        n_eval += 1
        if sorted(set(got)) != [want] and bad is None:
          bad = "with %d samples the default weight is %s, the validated ladder has 2^%d" % (m, " / ".join("2^%d" % g for g in sorted(set(got))) or "not a constant", want)
    ctx.record(R, f.where, "default weight by sample count (%s)" % gname, bad is None, bad or "step function agrees with the validated ladder on 1..40 samples (%d evaluations)" % n_eval)


# ------------------------------------------------------------------ EXTRACT (from a reduced lattice row / a (k1, k2) pair to a key guess)
def rule_extract(ctx):
  """HiddenNumberProblem: every reduced row v with v[0] != 0 (mod n) yields the guess v[1] * v[0]^-1 mod n, and all guesses are returned.
  Cr50U2fGuesses: from s1 k1 = z1 + r1 x and s2 k2 = z2 + r2 x: the sub-problem is asked for k1 (r2 s1) + k2 (-r1 s2) = r2 z1 - r1 z2 (mod n), and each
  pair gives x = (s1 k1 - z1) r1^-1 mod n.  These are the two places where 'the correct private key' is computed from the lattice output."""
  R = "R-C08-EXTRACT"
  repo = ctx.repo
  from .ecsym import mod_strip
  # ---- HiddenNumberProblem / HiddenNumberProblemWithPrecomputation
  for fname, npos, need_call in (("HiddenNumberProblem", 3, True), ("HiddenNumberProblemWithPrecomputation", 2, False)):
    f = repo.func("hidden_number_problem", fname)
    w = sym.Walker(repo, f)
    w.run()
    n = P("param", f.params()[npos])
    probs = []
    loops = [i_ for i_ in w.loop_info.values() if i_["visits"] and isinstance(i_["visits"][0]["iter"], Poly) and "lll:reduce" in repr(i_["visits"][0]["iter"])[:40]]
    if len(loops) != 1:
      probs.append("no loop over the reduced lattice")
    else:
      info = loops[0]
      vis = info["visits"][0]
      red = as_poly(vis["iter"])
      ra = red.as_atom()
      la = as_poly(ra.args[1]).as_atom() if ra is not None and len(ra.args) > 1 else None
      if need_call and (la is None or la.kind != "call" or not repr(la.args[0]).endswith(":GetLattice')") or [repr(as_poly(x)) for x in la.args[1:5]] != ["param('a')", "param('b')", "param('w')", "param('n')"]):
        probs.append("the lattice reduced is not GetLattice(a, b, w, n, bias)")
      v = sym.mk("idx", red, as_poly(vis["k"]))
      v0, v1 = sym.mk("idx", v, Poly.const(0)), sym.mk("idx", v, Poly.const(1))
      want = sym.mk("mod", v1 * sym.mk("invert", v0, n), n)
      adds = [e for e in w.events if e.kind == "mutate" and e.data["method"] == "add" and e.data["args"]]
      if not adds or not all(isinstance(e.data["args"][0], Poly) and e.data["args"][0] == want for e in adds):
        probs.append("a guess is not v[1] * v[0]^-1 mod n")
      for kind, val, s_, since, v_ in info["body_paths"]:
        if kind not in ("fall", "continue"):
          probs.append("the loop over the reduced rows is left by %s" % kind)
          continue
        newf = s_.facts[len(vis["head"].facts):]
        nz = any(fc[0] == "cmp" and fc[1] == "NotEq" and isinstance(fc[2], Poly) and fc[2] == sym.mk("mod", v0, n) and as_poly(fc[3]).is_zero() for fc in newf)
        added = any(w.events[i_].kind == "mutate" and w.events[i_].data["method"] == "add" for i_ in s_.trace[since:])
        if nz != added:
          probs.append("a row is used exactly when v[0] %% n != 0 - this path %s" % ("skips a usable row" if nz else "inverts a row with v[0] == 0 (mod n)"))
      rets = [t_ for t_ in w.terminals if t_[0] == "return"]
      acc = [nm for nm, av in vis["after_env"].items() if isinstance(av, Poly) and adds and isinstance(vis["head"].env.get(nm), Poly) and as_poly(adds[0].data["recv"]) == vis["head"].env[nm]]
      if not acc or not all(isinstance(t_[1], Poly) and vis["after_env"][acc[0]] in [t_[1]] + [as_poly(x) for a_ in t_[1].all_atoms() for x in a_.args if isinstance(x, Poly)] for t_ in rets):
        probs.append("the collected guesses are not what is returned")
    ctx.record(R, f.where, "guess = v[1] * v[0]^-1 mod n for every usable row", not probs, "; ".join(sorted(set(probs))) or "all rows with v[0] != 0 (mod n), all guesses returned")
  # ---- Cr50U2fGuesses
  f = repo.func("cr50_u2f_weakness", "Cr50U2fGuesses")
  w = sym.Walker(repo, f)
  w.run()
  r1, s1, z1, r2, s2, z2, n = [P("param", x) for x in f.params()[:7]]
  probs = []
  calls = [e for e in w.events if e.kind == "call" and e.data["name"].endswith(":Cr50U2fSubProblem") and len(e.data["args"]) >= 4]
  if not calls:
    probs.append("the sub-problem is never posed")
  for e in calls:
    a_, b_, w_ = [mod_strip(as_poly(x), n) for x in e.data["args"][:3]]
    if not ((a_ - r2 * s1).is_zero() and (b_ + r1 * s2).is_zero() and (w_ - (r2 * z1 - r1 * z2)).is_zero() and as_poly(e.data["args"][3]) == n):
      probs.append("the sub-problem is not k1 * (r2 s1) + k2 * (-r1 s2) == r2 z1 - r1 z2 (mod n)")
  for info in w.loop_info.values():
    for vis in info["visits"]:
      if not (isinstance(vis["iter"], Poly) and calls and vis["iter"] == as_poly(calls[0].data["value"])):
        continue
      el = sym.mk("idx", as_poly(vis["iter"]), as_poly(vis["k"]))
      k1 = sym.mk("idx", el, Poly.const(0))
      want = sym.mk("mod", (s1 * k1 - z1) * sym.mk("invert", r1, n), n)
      adds = [e for e in w.events if e.kind == "mutate" and e.data["method"] == "add" and e.data["args"]]
      if not adds or not all(isinstance(e.data["args"][0], Poly) and e.data["args"][0] == want for e in adds):
        probs.append("the key guess is not (s1 * k1 - z1) * r1^-1 mod n")
      # the cross-check must compare with the key the second signature gives for the same pair: a wrong formula rejects every correct pair
      k2 = sym.mk("idx", el, Poly.const(1))
      x2 = sym.mk("mod", (s2 * k2 - z2) * sym.mk("invert", r2, n), n)
      for e in w.events:
        if e.kind == "raise":
          neq = [fc for fc in e.state.facts if fc[0] == "cmp" and fc[1] == "NotEq" and isinstance(fc[2], Poly) and isinstance(fc[3], Poly) and {fc[2], fc[3]} == {want, x2}]
          geo = [fc for fc in e.state.facts if fc[0] == "cmp" and "bitlen" in repr(fc[2]) and "Cr50U2fSubProblem" not in repr(fc)]
          if not neq and not (geo and len(e.state.facts) == len(geo)):
            probs.append("line %d raises although the keys from the two signatures, (s1 k1 - z1)/r1 and (s2 k2 - z2)/r2 mod n, are not known to differ" % e.node.lineno)
  ctx.record(R, f.where, "sub-problem coefficients and key from k1", not probs, "; ".join(sorted(set(probs))) or "a = r2 s1, b = -r1 s2, w = r2 z1 - r1 z2 (mod n); x = (s1 k1 - z1) / r1 mod n")


def _unslice(p):
  """idx(slice(x, lo, hi, None), i) -> idx(x, lo + i)"""
  for _ in range(4):
    ch = False
    for a in list(p.all_atoms()):
      if a.kind == "idx" and len(a.args) == 2:
        b = as_poly(a.args[0]).as_atom()
        if b is not None and b.kind == "slice" and len(b.args) == 4 and repr(b.args[3]) in ("lit('None')", "1"):
          lo = Poly.const(0) if repr(b.args[1]) == "lit('None')" else as_poly(b.args[1])
          p = sym.rebuild(p.deep_subst(a, sym.mk("idx", as_poly(b.args[0]), lo + as_poly(a.args[1]))))
          ch = True
    if not ch:
      break
  return p


def rule_u2f_pairs(ctx):
  """Cr50U2fSubProblem reads the candidate nonces off a reduced row: k1 = |sum_j basis[j] * row[j]|, k2 = |sum_j basis[j] * row[words + j]| (the first two
  blocks of coordinates are the byte patterns c1, c2 of the lattice rows e_j, e_{words+j})."""
  R = "R-C08-EXTRACT"
  repo = ctx.repo
  f = repo.func("cr50_u2f_weakness", "Cr50U2fSubProblem")
  w = sym.Walker(repo, f)
  w.run()
  basis = P("param", f.params()[4])
  words = sym.mk("len", basis)
  probs = []
  ys = [e for e in w.events if e.kind == "yield"]
  if not ys:
    probs.append("nothing is yielded")
  for e in ys:
    v = e.data["value"]
    if not (isinstance(v, Seq) and len(v.items) == 2):
      probs.append("the result is not a pair (k1, k2)")
      continue
    row = None
    for li in w.loop_info.values():
      for vis in li["visits"]:
        if isinstance(vis["iter"], Poly) and "lll:reduce" in repr(vis["iter"])[:40]:
          row = sym.mk("idx", as_poly(vis["iter"]), as_poly(vis["k"]))
    if row is None:
      probs.append("no loop over the reduced lattice")
      continue
    for which, off in ((0, Poly.const(0)), (1, words)):
      a_ = as_poly(v.items[which]).as_atom()
      s_ = sym.resolve_sums(w, as_poly(a_.args[0])).as_atom() if a_ is not None and a_.kind == "abs" else None      # an accumulator loop reads as its sum
      m_ = as_poly(s_.args[0]).as_atom() if s_ is not None and s_.kind == "sum" else None
      if m_ is None or m_.kind != "map" or len(m_.args) != 3:
        probs.append("k%d is not |sum(...)| over the basis" % (which + 1))
        continue
      bv = Poly.atom(m_.args[1])
      elem = _unslice(as_poly(m_.args[0]))
      want = sym.mk("idx", basis, bv) * sym.mk("idx", row, off + bv)
      if not (elem - want).is_zero():
        probs.append("k%d sums %r, not basis[j] * row[%sj]" % (which + 1, elem, "" if which == 0 else "words + "))
      from pcstatic import wtable
      cnt = wtable.length_of(m_.args[2])
      src = as_poly(m_.args[2]).as_atom()
      if src is not None and src.kind == "zip":
        lens = []
        for z in src.args:
          za = as_poly(z).as_atom()
          if za is not None and za.kind == "slice":
            lo = Poly.const(0) if repr(za.args[1]) == "lit('None')" else as_poly(za.args[1])
            lens.append(as_poly(za.args[2]) - lo if repr(za.args[2]) != "lit('None')" else None)
          else:
            lens.append(sym.mk("len", as_poly(z)))
        cnt = lens[0] if lens and all(l_ is not None and (l_ - lens[0]).is_zero() for l_ in lens) else None
      if cnt is None or not (cnt - words).is_zero():
        probs.append("k%d does not sum over all %r basis words" % (which + 1, words))
  ctx.record(R, f.where, "k1, k2 from a reduced row", not probs, "; ".join(sorted(set(probs))) or "k1 = |sum basis[j] row[j]|, k2 = |sum basis[j] row[words + j]|, j over all basis words")


def rule_forcurve(ctx):
  """HiddenNumberProblemForCurve wires the pieces: every problem produced by _HiddenNumberProblemSubsets(a, b, curve_type, lcg, flags) is solved with the
  order of that curve (CURVE_FACTORY[curve_type].n), its own constants and weight, and all guesses of all problems are returned."""
  R = "R-C08-SUBSETS"
  repo = ctx.repo
  HN = "hidden_number_problem"
  f = repo.func(HN, "HiddenNumberProblemForCurve")
  w = sym.Walker(repo, f)
  w.run()
  ps = [P("param", x) for x in f.params()[:5]]
  probs = []
  gen = [e for e in w.events if e.kind == "call" and e.data["name"] == "repo:%s:_HiddenNumberProblemSubsets" % HN]
  sub = repo.func(HN, "_HiddenNumberProblemSubsets")
  slv = repo.func(HN, "HiddenNumberProblemWithPrecomputation")

  def bound(e, callee):
    out = {}
    for i_, a_ in enumerate(e.data["args"]):
      if i_ < len(callee.params()):
        out[callee.params()[i_]] = a_
    out.update(e.data["kwargs"])
    return out
  if not gen:
    probs.append("the sub-problems are never generated")
  for e in gen:
    b_ = bound(e, sub)
    if [repr(b_.get(p_)) for p_ in sub.params()[:5]] != [repr(x) for x in ps]:
      probs.append("the sub-problems are not generated from (a, b, curve_type, lcg, flags) as given")
  order = sym.mk("attr", sym.mk("idx", P("ref", "ec_util.CURVE_FACTORY"), ps[2]), "n")
  solves = [e for e in w.events if e.kind == "call" and e.data["name"] == "repo:%s:HiddenNumberProblemWithPrecomputation" % HN]
  loops = [li for li in w.loop_info.values() if li["visits"] and isinstance(li["visits"][0]["iter"], Poly) and gen and li["visits"][0]["iter"] == as_poly(gen[0].data["value"])]
  if len(loops) != 1 or not solves:
    probs.append("no loop that solves each generated problem")
  else:
    li = loops[0]
    vis = li["visits"][0]
    item = sym.mk("idx", as_poly(vis["iter"]), as_poly(vis["k"]))
    want = {slv.params()[0]: sym.mk("idx", item, Poly.const(0)), slv.params()[1]: sym.mk("idx", item, Poly.const(1)), slv.params()[2]: order,
            slv.params()[3]: sym.mk("idx", item, Poly.const(2)), slv.params()[4]: sym.mk("idx", item, Poly.const(3))}
    for e in solves:
      b_ = bound(e, slv)
      for p_, v_ in want.items():
        if not (isinstance(b_.get(p_), Poly) and b_[p_] == v_):
          probs.append("the solver's %s is %r, not %r" % (p_, b_.get(p_), v_))
    for kind, val, st_, since, v_ in li["body_paths"]:
      if v_ is not vis:
        continue
      if kind not in ("fall", "continue"):
        probs.append("the loop over the problems is left by %s" % kind)
        continue
      solved = [w.events[i_] for i_ in st_.trace[since:] if w.events[i_].kind == "call" and w.events[i_].data["name"].endswith(":HiddenNumberProblemWithPrecomputation")]
      if len(solved) != 1:
        probs.append("a generated problem is not solved")
        continue
      res = as_poly(solved[0].data["value"])
      grown = [n_ for n_, x_ in st_.env.items() if isinstance(x_, Poly) and isinstance(vis["head"].env.get(n_), Poly) and
               (x_ - vis["head"].env[n_] - res).is_zero() or (isinstance(x_, Poly) and x_.as_atom() is not None and x_.as_atom().kind in ("concat", "mut") and res in [as_poly(z) for z in x_.as_atom().args if isinstance(z, (Poly, Atom))]
                                                              and isinstance(vis["head"].env.get(n_), Poly) and vis["head"].env[n_] in [as_poly(z) for z in x_.as_atom().args if isinstance(z, (Poly, Atom))])]
      rets = [t_ for t_ in w.terminals if t_[0] == "return"]
      if not grown or not all(isinstance(t_[1], Poly) and any(vis["after_env"].get(n_) == t_[1] for n_ in grown) for t_ in rets):
        probs.append("the guesses of a problem are not added to the list that is returned")
  for e in w.events:
    if e.kind == "raise":
      ok_r = any(fc[0] == "cmp" and fc[1] == "NotEq" and "len(" in repr(fc[2]) and "len(" in repr(fc[3]) for fc in e.state.facts) or \
          any(fc[0] == "cmp" and fc[1] in ("Is", "Eq") and isinstance(fc[3], Const) and fc[3].v is None and "CURVE_FACTORY" in repr(fc[2]) for fc in e.state.facts)
      if not ok_r:
        probs.append("line %d refuses an input that is neither mis-sized nor for an unknown curve" % e.node.lineno)
  ctx.record(R, f.where, "every generated problem solved with the order of its curve; all guesses returned", not probs, "; ".join(sorted(set(probs))) or
             "Subsets(a, b, curve_type, lcg, flags) -> WithPrecomputation(a0, b0, CURVE_FACTORY[curve_type].n, constants, w), guesses accumulated")


# ------------------------------------------------------------------ LATTICE (the bases handed to LLL are the ones the documentation draws)
def _hnp_spec(m, W, n, A, B, prefix, generalized):
  """| n w + 1   0   a_0 w .. a_{m-1} w |      (1 instead of n w + 1 for GENERALIZED)
     | 0         1   b_0 w .. b_{m-1} w |
     | 0         0   n w e_i            |      (row 2 = w * (0, 0, 1, .., 1) for COMMON_PREFIX / GENERALIZED)"""
  zero, one = Poly.const(0), Poly.const(1)
  size = m + 2
  g = [[zero] * size for _ in range(size)]
  g[0] = [one if generalized else n * W + 1, zero] + [A(i) * W for i in range(m)]
  g[1] = [zero, one] + [B(i) * W for i in range(m)]
  for j in range(2, size):
    g[j][j] = n * W
  if prefix or generalized:
    for j in range(2, size):
      g[2][j] = W
  return g


def _pc_admits(st, var, value):
  """Can the path of state st be taken when `var` has the integer `value`?  Three-valued evaluation of its path condition: comparisons between var and
  a number, or between two numbers, are decided; everything else is unknown (= does not exclude the path)."""
  def ev(c):
    if not isinstance(c, tuple) or not c:
      return None
    if c[0] == "const":
      return bool(c[1])
    if c[0] == "not":
      r = ev(c[1])
      return None if r is None else (not r)
    if c[0] in ("and", "or"):
      rs = [ev(x) for x in c[1]]
      if c[0] == "and":
        return False if any(r is False for r in rs) else (True if all(r is True for r in rs) else None)
      return True if any(r is True for r in rs) else (False if all(r is False for r in rs) else None)
    if c[0] == "cmp" and len(c) == 4:
      def num(x):
        if isinstance(x, Poly):
          return value if x == var else x.as_int()
        if isinstance(x, int) and not isinstance(x, bool):
          return x
        return None
      l, r = num(c[2]), num(c[3])
      if l is None or r is None:
        return None
      return {"Eq": l == r, "NotEq": l != r, "Lt": l < r, "LtE": l <= r, "Gt": l > r, "GtE": l >= r, "Is": l == r, "IsNot": l != r}.get(c[1])
    return None
  for c, pol, node in st.pc:
    r = ev(c)
    if r is not None and r != pol:
      return False
  return True


def _div_atom(p, a):
  """p / a when every term of p carries the atom a, else None."""
  from fractions import Fraction
  r = Poly()
  for k, v in p.t.items():
    if not any(b == a for b, e in k):
      return None
    nk = tuple((b, e - 1) if b == a else (b, e) for b, e in k)
    nk = tuple((b, e) for b, e in nk if e != 0)
    r = r + Poly({nk: Fraction(v)})
  return r


def rule_lattice(ctx):
  """The attack can only find what its lattice contains.  The stores each constructor makes into its zero matrix are collected as a parametric table
  (pcstatic.wtable) and the table, instantiated at sample lengths, must have exactly the rows of the documented basis: for GetLattice on every path
  (explicit weight and each default weight; MSB, COMMON_PREFIX, COMMON_POSTFIX = prefix problem on a_i / w and b_i / w mod n, GENERALIZED), for the
  precomputed-constants lattice, and for the U2F sub-problem."""
  from pcstatic import wtable
  R = "R-C08-LATTICE"
  repo = ctx.repo
  HN = "hidden_number_problem"
  # ---- GetLattice
  f = repo.func(HN, "GetLattice")
  w = sym.Walker(repo, f)
  w.run()
  ps = f.params()
  pa, pb, pw, pn, pbias = (P("param", x) for x in ps[:5])
  cb = repo.cls(HN, "Bias")
  bias_vals = {k: fold.try_fold(v) for k, v in cb.consts.items()}
  fams = {"MSB": [], "COMMON_PREFIX": [], "COMMON_POSTFIX": [], "GENERALIZED": []}
  if any(not isinstance(bias_vals.get(k), int) for k in fams):
    ctx.incomplete(R, f.where, "GetLattice", "Bias enum values not found")
  else:
    byval = {bias_vals[k]: k for k in fams}
    npaths = {k: 0 for k in fams}
    explicit = {k: 0 for k in fams}
    for kind, val, st in w.terminals:
      if kind != "return" or not wtable.feasible(st):
        continue
      # the kinds of bias this path is taken for: evaluate its path condition for each of the four enum values (merged conditions such as
      # `bias == A or bias == B` carry no single equality fact, but they do exclude the other values)
      fits = [v_ for v_ in byval if _pc_admits(st, pbias, v_)]
      if not fits:
        continue          # a path the walker could not prune (contradictory tests on the kind of bias)
      if len(fits) != 1:
        fams.setdefault("?", []).append("a lattice is returned on a path that does not fix the kind of bias (admits %s)" % [byval[v_] for v_ in fits])
        continue
      eqs = [("cmp", "Eq", pbias, Poly.const(fits[0]))]
      fam = byval[as_poly(eqs[0][3]).as_int()]
      npaths[fam] += 1
      w_none = any(fc[0] == "cmp" and fc[1] == "Is" and isinstance(fc[2], Poly) and fc[2] == pw for fc in st.facts)
      if not w_none:
        explicit[fam] += 1
      try:
        tab = wtable.extract(w, st, val)
        for m in (3, 4):
          env = [(sym.mk("len", pa).as_atom(), m), (sym.mk("len", pb).as_atom(), m)]
          grid = wtable.instantiate(tab, env)
          # the weight of this path: row 3 is n * W * e_3 in every family
          cell = as_poly(grid[3][3]) if len(grid) > 3 else None
          W = _div_atom(cell, pn.as_atom()) if cell is not None else None
          if W is None or not (W * pn - cell).is_zero() or not ((W - pw).is_zero() if not w_none else (not W.is_zero() and pw.as_atom() not in W.all_atoms())):
            fams[fam].append("the weight of the lattice is not %s: entry [3][3] = %r" % ("the parameter w" if not w_none else "a default constant", cell))
            break
          if fam == "COMMON_POSTFIX":
            winv = sym.mk("invert", W, pn)
            A = lambda i: sym.mk("mod", sym.mk("idx", pa, Poly.const(i)) * winv, pn)
            B = lambda i: sym.mk("mod", sym.mk("idx", pb, Poly.const(i)) * winv, pn)
          else:
            A = lambda i: sym.mk("idx", pa, Poly.const(i))
            B = lambda i: sym.mk("idx", pb, Poly.const(i))
          spec = _hnp_spec(m, W, pn, A, B, fam in ("COMMON_PREFIX", "COMMON_POSTFIX"), fam == "GENERALIZED")
          d = wtable.diff(grid, spec)
          if d:
            fams[fam].append("with %d samples%s: %s" % (m, "" if not w_none else " (default weight %r)" % (W,), d))
            break
      except Incomplete as ex:
        fams[fam].append("UNDECIDED " + str(ex))
      except IndexError as ex:
        fams[fam].append(str(ex))
    for fam in ("MSB", "COMMON_PREFIX", "COMMON_POSTFIX", "GENERALIZED"):
      probs = sorted(set(fams[fam]))
      if explicit[fam] == 0:
        probs.append("UNDECIDED no path with an explicit weight returns a lattice for this bias")
      if any(p_.startswith("UNDECIDED") for p_ in probs):
        ctx.incomplete(R, f.where, "GetLattice %s" % fam, "; ".join(probs))
      else:
        ctx.record(R, f.where, "GetLattice %s" % fam, not probs, "; ".join(probs) or "%d paths (explicit and default weights) x sample lengths 3, 4: rows equal the documented basis" % npaths[fam])
    if fams.get("?"):
      ctx.violation(R, f.where, "GetLattice", "; ".join(sorted(set(fams["?"]))))
  # ---- the lattice with precomputed constants
  f = repo.func(HN, "HiddenNumberProblemWithPrecomputation")
  w = sym.Walker(repo, f)
  w.run()
  ps = f.params()
  pa, pb, pn, pc, pw = (P("param", x) for x in ps[:5])
  calls = [e for e in w.events if e.kind == "call" and e.data["name"] == "repo:lll:reduce" and e.data["args"] and isinstance(e.data["args"][0], Poly)]
  probs = []
  if not calls:
    ctx.incomplete(R, f.where, "precomputed constants", "no call of lll.reduce found")
  else:
    und = None
    for e in calls:
      try:
        tab = wtable.extract(w, e.state, e.data["args"][0])
        for m, q in ((2, 2), (3, 1), (1, 3)):
          env = [(sym.mk("len", pa).as_atom(), m), (sym.mk("len", pb).as_atom(), m), (sym.mk("len", pc).as_atom(), q)]
          grid = wtable.instantiate(tab, env)
          size = m * q + 2
          zero = Poly.const(0)
          spec = [[zero] * size for _ in range(size)]
          spec[0][0] = pn * pw + 1
          spec[1][1] = Poly.const(1)
          for i in range(m):
            for j in range(q):
              t_ = i * q + j + 2
              c_ = sym.mk("idx", sym.mk("idx", pc, Poly.const(j)), Poly.const(0))
              d_ = sym.mk("idx", sym.mk("idx", pc, Poly.const(j)), Poly.const(1))
              spec[0][t_] = sym.mk("mod", sym.mk("idx", pa, Poly.const(i)) * c_ - d_, pn) * pw
              spec[1][t_] = sym.mk("mod", sym.mk("idx", pb, Poly.const(i)) * c_, pn) * pw
              spec[t_][t_] = pn * pw
          d = wtable.diff(grid, spec)
          if d:
            probs.append("with %d samples and %d constant pairs: %s" % (m, q, d))
            break
      except Incomplete as ex:
        und = str(ex)
      except IndexError as ex:
        probs.append(str(ex))
    if und:
      ctx.incomplete(R, f.where, "precomputed constants", und)
    else:
      ctx.record(R, f.where, "precomputed constants", not probs, "; ".join(sorted(set(probs))) or
                 "(n w + 1, 0, ((a_i c_j - d_j) mod n) w ..), (0, 1, (b_i c_j mod n) w ..), n w e_t at 3 sample shapes")
  # ---- the U2F sub-problem
  f = repo.func("cr50_u2f_weakness", "Cr50U2fSubProblem")
  w = sym.Walker(repo, f)
  w.run()
  ps = f.params()
  qa, qb, qw, qp, qbasis = (P("param", x) for x in ps[:5])
  calls = [e for e in w.events if e.kind == "call" and e.data["name"] == "repo:lll:reduce" and e.data["args"] and isinstance(e.data["args"][0], Poly)]
  probs = []
  if not calls:
    ctx.incomplete(R, f.where, "U2F sub-problem", "no call of lll.reduce found")
  else:
    und = None
    for e in calls:
      try:
        tab = wtable.extract(w, e.state, e.data["args"][0])
        for words in (2, 3):
          env = [(sym.mk("len", qbasis).as_atom(), words)]
          grid = wtable.instantiate(tab, env)
          size = 2 * words + 2
          zero = Poly.const(0)
          spec = [[zero] * size for _ in range(size)]
          for j in range(words):
            v_ = sym.mk("idx", qbasis, Poly.const(j))
            spec[j][j] = Poly.const(1)
            spec[j][size - 1] = sym.mk("mod", v_ * qa, qp)
            spec[j + words][j + words] = Poly.const(1)
            spec[j + words][size - 1] = sym.mk("mod", v_ * qb, qp)
          spec[size - 2][size - 2] = Poly.const(256)
          spec[size - 2][size - 1] = qw
          spec[size - 1][size - 1] = qp
          d = wtable.diff(grid, spec)
          if d:
            probs.append("with %d basis words: %s" % (words, d))
            break
      except Incomplete as ex:
        und = str(ex)
      except IndexError as ex:
        probs.append(str(ex))
    if und:
      ctx.incomplete(R, f.where, "U2F sub-problem", und)
    else:
      ctx.record(R, f.where, "U2F sub-problem", not probs, "; ".join(sorted(set(probs))) or
                 "e_j + (v_j a mod p) e_last, e_{j+words} + (v_j b mod p) e_last, 256 e_{-2} + w e_last, p e_last at 2 and 3 basis words")
