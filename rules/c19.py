"""C19 - number-theory helpers return only true solutions (Hensel/Newton invariants, rounded division, root release guards)."""
from __future__ import annotations
import ast
from pcstatic import sym, regions, algebra
from pcstatic.core import Incomplete
from pcstatic.loader import norm
from pcstatic.poly import Poly, Atom, P
from pcstatic.sym import Const, Seq, as_poly

META = {
    "level": "proof",
    "trusted_base": ["Python ast parser", "gmpy2.f_mod_2exp(x, t) == x (mod 2^t)", "odd squares are 1 mod 8", "divmod(a, b): a = q*b + r",
                     "2-adic valuation: 2^t | e implies 2^(2t) | e^2", "pcstatic walker + polynomial normal form"],
    "assumptions": ["completeness of the small-root finders (Coppersmith lattices over sympy objects), rank accounting and pivot search of echelon_form, and floating-point accuracy of the numerics are not decided"],
    "explanation": ("Newton/Hensel loops are proved by a declared invariant plus a polynomial step identity and an exponent-growth inequality; the four square roots "
                    "by identities modulo 2^k; DivmodRounded by the divmod axiom; root finders release a value only under the divisibility test on f(root) of the same root."),
}
NT = "ntheory_util"


def walk(repo, mod, name):
  f = repo.func(mod, name)
  w = sym.Walker(repo, f)
  w.run()
  return f, w


def run(ctx):
  rule_hensel(ctx)
  rule_sqrt(ctx)
  rule_divmod(ctx)
  rule_roots(ctx)
  rule_cf(ctx)
  rule_bias(ctx)
  rule_pure(ctx)
  rule_pseudoavg(ctx)
  rule_isqrt_small(ctx)
  rule_sieve(ctx)
  rule_linalg(ctx)
  rule_uniformsum(ctx)
  ctx.expect("R-C19-UNIFORMSUM", 1, "UniformSumCdf")
  ctx.expect("R-C19-LINALG", 6, "back-substitution, solve_right, elimination step, exact division, sweeps, row moves")
  ctx.expect("R-C19-SIEVE", 1, "Sieve")
  ctx.expect("R-C19-PSEUDOAVG", 1, "PseudoAverage")
  # "the product trees equal their definitions", "Fisher combination equals its exact definition" (shared with C03 / C13)
  from . import c03, c13
  ctx.borrow(c03.rule_tree, "R-C19-TREE")
  ctx.borrow(c13.rule_fisher, "R-C19-FISHER")
  ctx.expect("R-C19-TREE", 11, "product tree obligations")
  ctx.expect("R-C19-FISHER", 4, "four cases")
  ctx.expect("R-C19-PURE", 40, "every function of the helper modules")
  ctx.expect("R-C19-BIAS", 2, "statistic + summand count")
  ctx.expect("R-C19-HENSEL", 9, "two loops x (base, identity, exponent, reduction)")
  ctx.expect("R-C19-SQRT", 3, "roots, solvability, small k")
  ctx.expect("R-C19-DIVMOD", 2, "identity + rounding offset")
  ctx.expect("R-C19-ROOTS", 4, "three finders + candidate coverage")
  ctx.expect("R-C19-CF", 2, "recurrence + output")


def linear_le(P_, t, t0, factor, offset):
  """Is P_(t) <= factor*t + offset for all t >= t0, P_ = c*t + d?"""
  ta = t.as_atom()
  c = d = 0
  for mono, co in P_.t.items():
    if mono == ():
      d = co
    elif mono == ((ta, 1),):
      c = co
    else:
      return False
  # (factor - c) * t + (offset - d) >= 0 for t >= t0
  return (factor - c) >= 0 and (factor - c) * t0 + (offset - d) >= 0


def hensel(ctx, fname, kind):
  R = "R-C19-HENSEL"
  repo = ctx.repo
  f, w = walk(repo, NT, fname)
  n, k = P("param", "n"), P("param", "k")
  loops = [i for i in w.loop_info.values() if isinstance(i["node"], ast.While)]
  if len(loops) != 1 or not loops[0].get("visits"):
    ctx.violation(R, f.where, "Newton loop", "expected exactly one while loop")
    return
  info = loops[0]
  vis = info["visits"][0]
  pre, head = vis["pre"], vis["head"]
  # roles, not names: the exponent is the carried variable whose new value is min(k, .); the iterate is the other carried variable
  mods = [nm for nm in info["modified"] if isinstance(head.env.get(nm), Poly) and head.env[nm].as_atom() is not None and head.env[nm].as_atom().kind == "sym"]
  tn = [nm for nm in mods if any(isinstance(bp[2].env.get(nm), Poly) and bp[2].env[nm].as_atom() is not None and bp[2].env[nm].as_atom().kind == "min"
                                 and k in bp[2].env[nm].as_atom().args for bp in info["body_paths"])]
  # the iterate refers to its own previous value; temporaries recomputed in every pass do not
  an = [nm for nm in mods if nm not in tn and any(isinstance(bp[2].env.get(nm), Poly) and head.env[nm].as_atom() in bp[2].env[nm].all_atoms() for bp in info["body_paths"])]
  if len(tn) != 1 or len(an) != 1:
    ctx.violation(R, f.where, "Newton loop", "expected one iterate and one exponent min(k, .) carried by the loop (carried: %s)" % mods)
    return
  AN, TN = an[0], tn[0]
  a0, t0 = pre.env.get(AN), pre.env.get(TN)
  t0i = as_poly(t0).as_int() if t0 is not None else None
  a_h, t_h = as_poly(head.env.get(AN)), as_poly(head.env.get(TN))
  # ---- base
  if kind == "inv":
    # a0 == n mod 2^s, s >= t0, t0 <= 3, n odd  =>  a0*n == n^2 == 1 (mod 2^t0)
    a0p = as_poly(a0)
    aa = a0p.as_atom()
    okb = False
    if aa is not None and aa.kind == "mod" and aa.args[0] == n and t0i is not None and t0i <= 3:
      m_ = aa.args[1].as_int()
      okb = m_ is not None and m_ % (1 << t0i) == 0
    odd = any(f_[0] == "cmp" and f_[1] == "NotEq" and as_poly(f_[2]) == sym.mk("mod", n, Poly.const(2)) and as_poly(f_[3]).is_zero() for f_ in pre.facts)
    ctx.record(R, f.where, "base: a*n == 1 (mod 2^t0)", okb and odd, "a0 = n mod 4, t0 = 2, n odd: a0*n == n^2 == 1 (mod 4)" if okb and odd else
               "start value a0 = %r, t0 = %r does not satisfy a0*n == 1 (mod 2^t0) for every odd n (odd guard: %s)" % (a0, t0, odd))
    growth = (2, 0)
    step_want = lambda a: a * (2 - a * n)
    inv_of = lambda a: a * n - 1
  else:
    a0i = as_poly(a0).as_int() if a0 is not None else None
    guard = any(f_[0] == "cmp" and f_[1] == "Eq" and as_poly(f_[2]) == sym.mk("mod", n, Poly.const(8)) and as_poly(f_[3]).as_int() == 1 for f_ in pre.facts)
    okb = a0i == 1 and t0i == 3 and guard
    ctx.record(R, f.where, "base: a^2*n == 1 (mod 2^t0)", okb, "a0 = 1, t0 = 3 under n == 1 (mod 8)" if okb else
               "start (a0 = %r, t0 = %r) is not justified by the guard n %% 8 == 1 (guard present: %s)" % (a0, t0, guard))
    growth = (2, -2)
    inv_of = lambda a: a * a * n - 1
  # ---- step
  okI = okE = okR = True
  whyI = whyE = whyR = ""
  n_paths = 0
  for kind_, val, s, since, v in info["body_paths"]:
    if kind_ not in ("fall", "continue"):
      okI = False
      whyI = "loop left by %s" % kind_
      continue
    n_paths += 1
    a_e, t_e = as_poly(s.env.get(AN)), as_poly(s.env.get(TN))
    ta = t_e.as_atom()
    if ta is None or ta.kind != "min" or k not in ta.args:
      okE = False
      whyE = "new exponent %r is not min(k, .)" % (t_e,)
    else:
      other = [x for x in ta.args if x != k]
      if len(other) != 1 or not linear_le(other[0], t_h, t0i or 1, growth[0], growth[1]):
        okE = False
        whyE = "new exponent %r can exceed %d*t%+d: the congruence is only known modulo 2^(%d*t%+d)" % (other, growth[0], growth[1], growth[0], growth[1])
    aa = a_e.as_atom()
    if aa is None or aa.kind != "fmod2exp" or aa.args[1] != t_e:
      okR = False
      whyR = "a is not reduced modulo 2^(new t): %r" % (a_e,)
      X = a_e
    else:
      X = aa.args[0]
    if kind == "inv":
      goal = X * n - 1 + inv_of(a_h) ** 2
      if not goal.is_zero():
        okI = False
        whyI = "a'*n - 1 + (a*n - 1)^2 = %r (not zero)" % (goal,)
    else:
      xa = X.as_atom()
      if xa is None or xa.kind != "fdiv" or xa.args[1].as_int() != 2:
        okI = False
        whyI = "step is not an exact halving: %r" % (X,)
      else:
        Y = xa.args[0]
        e = inv_of(a_h)
        goal = Y * Y * n - 4 - e * e * (e - 3)
        if not goal.is_zero():
          okI = False
          whyI = "4(a'^2 n - 1) - e^2 (e - 3) = %r (not zero), e = a^2 n - 1" % (goal,)
        # exactness of the halving: Y = a*(3 - a^2 n) with a, n odd
        if not (Y - a_h * (3 - a_h * a_h * n)).is_zero():
          okI = False
          whyI = "halved quantity is not a*(3 - a^2*n) (evenness argument does not apply)"
  if n_paths == 0:
    okI = False
    whyI = "no loop body path"
  ident = "a'n - 1 = -(an - 1)^2" if kind == "inv" else "4(a'^2 n - 1) = e^2 (e - 3), e = a^2 n - 1"
  ctx.record(R, f.where, "step identity " + ident, okI, whyI or "polynomial identity")
  ctx.record(R, f.where, "exponent growth t' <= %d*t%+d" % growth, okE, whyE or "t' = min(k, %s)" % ("2t" if kind == "inv" else "2t - 2"))
  ctx.record(R, f.where, "reduction modulo 2^t'", okR, whyR or "a' reduced with f_mod_2exp(., t')")
  # loop condition / result
  c = w.cond(info["node"].test, head)
  okc, dc = regions.equivalent_dnf([[(c, True)]], lambda v: v[t_h] < v[k], main=t_h, extra_atoms=[k.as_atom()])
  rets = [e for e in w.events if e.kind == "return" and e.node is not None and not e.state.tags and not isinstance(e.data["value"], Const)]
  after_a = vis["after_env"].get(AN)
  late = [e for e in rets if e.node.lineno > info["node"].lineno]
  okr = bool(rets) and isinstance(after_a, Poly) and all(isinstance(e.data["value"], Poly) and e.data["value"] == after_a for e in late)
  ctx.record(R, f.where, "loop runs while t < k and returns a", bool(okc) and okr, dc if not okc else "exit with t = k, result a")


def rule_hensel(ctx):
  hensel(ctx, "Inverse2exp", "inv")
  hensel(ctx, "InverseSqrt2exp", "sqrt")
  # no-solution predicate of InverseSqrt2exp for k >= 3
  R = "R-C19-HENSEL"
  repo = ctx.repo
  f, w = walk(repo, NT, "InverseSqrt2exp")
  n, k = P("param", "n"), P("param", "k")
  r8 = sym.mk("mod", n, Poly.const(8))
  none_paths = []
  for e in w.events:
    if e.kind == "return" and isinstance(e.data["value"], Const) and e.data["value"].v is None:
      if any(f_[0] == "cmp" and f_[1] == "GtE" and as_poly(f_[2]) == k and as_poly(f_[3]).as_int() == 3 for f_ in e.facts):
        none_paths.append([(c, pol) for c, pol, node in e.state.pc if "mod(param('n')" in repr(c)])
  ok, d = regions.equivalent_dnf(none_paths, lambda v: v[r8] != 1, main=r8) if none_paths else (False, "no `return None` for k >= 3")
  ctx.record(R, f.where, "k >= 3: no solution iff n % 8 != 1", ok, d)
  f, w = walk(repo, NT, "Inverse2exp")
  r2 = sym.mk("mod", n, Poly.const(2))
  none_paths = [[(c, pol) for c, pol, node in e.state.pc] for e in w.events if e.kind == "return" and isinstance(e.data["value"], Const) and e.data["value"].v is None]
  ok, d = regions.equivalent_dnf(none_paths, lambda v: v[r2] == 0, main=r2) if none_paths else (False, "no `return None`")
  ctx.record(R, f.where, "no inverse iff n even", ok, d)


def strip_fmod(p, kexp):
  for _ in range(10):
    tgt = None
    for a in p.all_atoms():
      if a.kind == "fmod2exp" and a.args[1] == kexp:
        tgt = a
    if tgt is None:
      return p
    p = sym.rebuild(p.deep_subst(tgt, tgt.args[0]))
  return p


def rule_sqrt(ctx):
  R = "R-C19-SQRT"
  repo = ctx.repo
  f, w = walk(repo, NT, "Sqrt2exp")
  n, k = P("param", "n"), P("param", "k")
  Mk = sym.mk("pow", Poly.const(2), k)
  Hk = sym.mk("pow", Poly.const(2), k - 1)
  rets = [e for e in w.events if e.kind == "return" and e.node is not None]
  main = [e for e in rets if isinstance(e.data["value"], Seq) and len(e.data["value"].items) == 4]
  ok = bool(main)
  why = ""
  for e in main:
    vals = [strip_fmod(as_poly(x), k) for x in e.data["value"].items]
    r = None
    for v in vals:
      a = v.as_atom()
      if a is not None and a.kind == "call" and a.args[0] == P("lit", NT + ":Inverse2exp"):
        r = v
    if r is None:
      ok = False
      why = "no root r = Inverse2exp(InverseSqrt2exp(n, k), k)"
      continue
    ra = r.as_atom()
    s_ = ra.args[1].as_atom()
    if not (s_ is not None and s_.kind == "call" and s_.args[0] == P("lit", NT + ":InverseSqrt2exp") and s_.args[1] == n and s_.args[2] == k and ra.args[2] == k):
      ok = False
      why = "r is not the inverse (mod 2^k) of the inverse square root of n (mod 2^k)"
    want = {repr(r), repr(Mk - r), repr(Hk - r), repr(Hk + r)}
    got = {repr(v) for v in vals}
    if want != got:
      ok = False
      why = "roots %s are not {r, 2^k - r, 2^(k-1) - r, 2^(k-1) + r}" % sorted(got)
  ctx.record(R, f.where, "four roots r, M - r, H - r, H + r", ok, why or "(M - r)^2 == r^2 and (H +- r)^2 == r^2 (mod 2^k) since 2H = M and H^2 == 0 for k >= 2; r^2 == n because s^2 n == 1")
  empty = [e for e in rets if isinstance(e.data["value"], Seq) and not e.data["value"].items]
  oke = bool(empty) and all(any(f_[0] == "cmp" and f_[1] == "Is" and "InverseSqrt2exp" in repr(as_poly(f_[2])) for f_ in e.facts) for e in empty)
  ctx.record(R, f.where, "no roots iff no inverse square root", oke, "[] exactly when InverseSqrt2exp(n, k) is None" if oke else "empty result is not tied to InverseSqrt2exp returning None")
  small = [e for e in rets if not isinstance(e.data["value"], Seq)]
  oks = False
  smallwhy = ""
  for e in small:
    v = as_poly(e.data["value"]).as_atom()
    if v is not None and v.kind == "map":
      src = v.args[2]
      sa = src.as_atom()
      if sa is not None and sa.kind == "filter" and sa.args[0] == sym.mk("range", Mk):
        x = sym.mk("idx", sym.mk("range", Mk), Poly.atom([a for a in sa.args[1].all_atoms() if a.kind == "bv"][0])) if [a for a in sa.args[1].all_atoms() if a.kind == "bv"] else None
        gate = any(f_[0] == "cmp" and f_[1] == "Lt" and as_poly(f_[2]) == k and as_poly(f_[3]).as_int() == 3 for f_ in e.facts)
        conds = sym.FILTER_CONDS.get(sa.args[1].as_atom().args[0]) if sa.args[1].as_atom() is not None and sa.args[1].as_atom().kind == "cond" else None
        bvs = [a for a in sa.args[1].all_atoms() if a.kind == "bv"] if conds else []
        if gate and conds and len(conds) == 1 and conds[0][0] == "cmp" and conds[0][1] == "Eq" and len(set(bvs)) <= 1:
          # x^2 == n (mod 2^k) for every odd n, reduced or not: (x^2 - n) % M == 0, or both sides reduced modulo M
          L_, R_ = as_poly(conds[0][2]), as_poly(conds[0][3])
          xs = [a for a in (L_ - R_).all_atoms() if a.kind == "bv"]
          xv = Poly.atom(xs[0]) if xs else None
          def reduced(p):
            a = p.as_atom()
            return as_poly(a.args[0]) if a is not None and a.kind == "mod" and len(a.args) == 2 and as_poly(a.args[1]) == Mk else None
          diff = None
          if xv is not None:
            if reduced(L_) is not None and reduced(R_) is not None:
              diff = reduced(L_) - reduced(R_)
            elif reduced(L_) is not None and R_.is_zero():
              diff = reduced(L_)
            elif reduced(R_) is not None and L_.is_zero():
              diff = reduced(R_)
          if diff is not None and ((diff - (xv * xv - n)).is_zero() or (diff + (xv * xv - n)).is_zero()):
            oks = True
          elif xv is not None:
            smallwhy = "the filter `%s` is not x^2 == n (mod 2^k) for unreduced n (n >= 2^k or n < 0 has roots but matches nothing)" % (repr(conds[0])[:90])
  ctx.record(R, f.where, "k < 3: exhaustive search", oks, "all x in range(2^k) with x*x == n (mod 2^k)" if oks else (smallwhy or "small-k branch is not the exhaustive filter over range(2**k)"))
  # argument check: raises for even n / negative k
  raises = [e for e in w.events if e.kind == "raise"]
  okr = bool(raises)
  ctx.record(R, f.where, "even n / negative k rejected", okr, "ValueError before any computation" if okr else "no input validation")


def rule_divmod(ctx):
  R = "R-C19-DIVMOD"
  repo = ctx.repo
  f, w = walk(repo, NT, "DivmodRounded")
  a, b = P("param", "a"), P("param", "b")
  rets = [e for e in w.events if e.kind == "return" and e.node is not None]
  ok = bool(rets)
  why = ""
  okd = False
  for e in rets:
    v = e.data["value"]
    if not (isinstance(v, Seq) and len(v.items) == 2):
      ok = False
      why = "does not return a pair"
      continue
    x, y = as_poly(v.items[0]), as_poly(v.items[1])
    # divmod axiom: mod(A, b) = A - fdiv(A, b) * b
    goal = a - (x * b + y)
    for at in list(goal.all_atoms()):
      if at.kind == "mod" and at.args[1] == b:
        goal = sym.rebuild(goal.deep_subst(at, at.args[0] - sym.mk("fdiv", at.args[0], b) * b))
    if not goal.is_zero():
      ok = False
      why = "a - (x*b + y) = %r (not zero under divmod's identity)" % (goal,)
    # the remainder is mod(A, b) - d with A = a + d: it ranges over [-d, b - d - 1]; nearest-integer rounding needs
    # 2d <= b (never below -b/2) and b <= 2d + 2 (never above b/2).  Decided per residue of b modulo 2.
    okd = True
    whyd = ""
    dterm = None
    for at in y.all_atoms():
      if at.kind == "mod" and at.args[1] == b:
        dterm = at.args[0] - a
        if not (y - (Poly.atom(at) - dterm)).is_zero():
          dterm = None
    if dterm is None or a.as_atom() in dterm.all_atoms():
      okd = None
      whyd = "remainder is not of the form (a + d) mod b - d"
    else:
      from pcstatic import bitwidth
      import math
      q = P("q")
      # shifts are floor divisions by powers of two
      for at in list(dterm.all_atoms()):
        if at.kind == "shr" and at.args[1].as_int() is not None and 0 <= at.args[1].as_int() <= 16:
          dterm = sym.rebuild(dterm.deep_subst(at, sym.mk("fdiv", at.args[0], Poly.const(1 << at.args[1].as_int()))))
      cmod = 2
      for at in dterm.all_atoms():
        if at.kind in ("fdiv", "mod") and at.args[1].as_int():
          cmod = cmod * at.args[1].as_int() // math.gcd(cmod, at.args[1].as_int())
      for r in range(cmod if cmod <= 64 else 2):
        cx = bitwidth.PathCtx(w, [], b, q, cmod if cmod <= 64 else 2, r)
        dd = cx.subst(dterm)
        la = cx.linear_in_q(dd)
        if la is None:
          okd = None
          whyd = "offset %r is not linear in b" % (dterm,)
          break
        cq, k = la          # d = cq*q + k with b = c*q + r, q >= 0 (q >= 1 when r == 0)
        qmin = 1 if r == 0 else 0
        c_ = cx.c
        # 2d <= b  <=>  (c - 2cq) q + (r - 2k) >= 0 ;  b <= 2d + 2  <=>  (2cq - c) q + (2k + 2 - r) >= 0
        lo = (c_ - 2 * cq, r - 2 * k)
        hi = (2 * cq - c_, 2 * k + 2 - r)
        for nm, (c1, c0) in (("remainder can drop below -b/2", lo), ("remainder can exceed b/2", hi)):
          if c1 < 0 or c1 * qmin + c0 < 0:
            okd = False
            qw = qmin if c1 * qmin + c0 < 0 else max(qmin, (-c0) // (-c1) + 1 if c1 < 0 else qmin)
            whyd = "%s: offset d = %s for b = %d*q + %d (e.g. b = %d)" % (nm, "%d*q%+d" % (cq, k), c_, r, c_ * qw + r)
  ctx.record(R, f.where, "a == x*b + y", ok, why or "identity from divmod(a + d, b) = (x, y + d)")
  ctx.record(R, f.where, "nearest-integer rounding: |remainder| <= b/2 for even and odd b", okd, whyd or "offset d satisfies 2d <= b <= 2d + 2 on both residues of b mod 2")


def rule_roots(ctx):
  R = "R-C19-ROOTS"
  repo = ctx.repo
  for fname in ("univariate_modp", "multivariate_modp", "multivariate_modn"):
    f, w = walk(repo, "small_roots", fname)
    rets = [e for e in w.events if e.kind == "return" and e.node is not None and not (isinstance(e.data["value"], Const) and e.data["value"].v is None)]
    probs = []
    if not rets:
      probs.append("never returns a root")
    for e in rets:
      v = as_poly(e.data["value"])
      nmod = None
      good = False
      for f_ in e.facts:
        if f_[0] == "cmp" and f_[1] == "Eq" and isinstance(f_[2], Poly) and as_poly(f_[3]).is_zero():
          m = as_poly(f_[2]).as_atom()
          if m is None or m.kind != "mod":
            continue
          A, B = m.args
          # modp: n % y == 0 with y = f(root) != 0 ; modn: f(roots) % n == 0
          for y, modulus, need_nonzero in ((B, A, True), (A, B, False)):
            ya = y.as_atom()
            if ya is None or ya.kind != "lcall" or ya.args[0] != P("lit", "f"):
              continue
            arg = ya.args[1]
            if arg.as_atom() is not None and arg.as_atom().kind == "star":
              arg = arg.as_atom().args[0]
            if arg != v:
              continue
            if "get_modulus" not in repr(modulus):
              continue
            if need_nonzero and not any(g[0] == "cmp" and g[1] == "NotEq" and as_poly(g[2]) == y and as_poly(g[3]).is_zero() for g in e.facts):
              continue
            if fname.endswith("modn") and need_nonzero:
              continue
            if fname.endswith("modp") and not need_nonzero:
              continue
            good = True
      if not good:
        probs.append("`%s` is not dominated by the verification of f on the returned root (%s)" % (norm(e.node), "y != 0 and n %% y == 0" if fname.endswith("modp") else "f(*roots) %% n == 0"))
    ctx.record(R, f.where, "release guard", not probs, "; ".join(sorted(set(probs))) or "every non-None return is verified on the very root returned")
    if fname == "univariate_modp":
      # "do find the planted root": every candidate with -b < root < b reaches the verification; a pass of the candidate loop that leaves
      # without evaluating f on the candidate must not be selected by a comparison that holds for some root inside the documented range
      from pcstatic import regions
      bpar = P("param", f.params()[1])
      dropped = []
      n_paths = 0
      for info in w.loop_info.values():
        if not any(kind == "return" for kind, _, _, _, _ in info["body_paths"]):
          continue
        for kind, val, s_, since, vis in info["body_paths"]:
          if kind == "return":
            continue
          n_paths += 1
          conds = [(c_, pol) for c_, pol, node in s_.pc[len(vis["head"].pc):]] if hasattr(vis["head"], "pc") else []
          if any("lcall(lit('f')" in repr(c_) for c_, pol in conds):
            continue            # rejected by the verification itself
          cands = set()
          for c_, pol in conds:
            for x in regions.collect([c_])[0] if c_[0] in ("cmp", "and", "or", "not") else []:
              if x != bpar.as_atom():
                cands.add(x)
          for rx in cands:
            for sample in (-9, -5, -1, 0, 1, 5, 9):
              valn = regions.Valuation({rx: sample, bpar.as_atom(): 10})
              try:
                if all(regions.eval_cond(c_, valn) == pol for c_, pol in conds):
                  dropped.append("a candidate root %d (bound 10) leaves the loop untested on the path [%s]" % (sample, " & ".join(("" if pol else "not ") + repr(c_)[:70] for c_, pol in conds)))
                  break
              except regions.Unknown:
                break
      ctx.record(R, f.where, "every candidate in (-b, b) is verified", not dropped and n_paths > 0, dropped[0] if dropped else "no pass of the candidate loop skips the verification of f on a root inside the documented range" if n_paths else "candidate loop not found")


def rule_cf(ctx):
  R = "R-C19-CF"
  repo = ctx.repo
  f, w = walk(repo, NT, "ContinuedFraction")
  loops = [i for i in w.loop_info.values()]
  if len(loops) != 1 or not loops[0].get("visits"):
    ctx.violation(R, f.where, "Euclid loop", "expected one loop")
    return
  info = loops[0]
  vis = info["visits"][0]
  head = vis["head"]
  # roles of the six carried variables, from what they are tested for / replaced by / started with (not from their names)
  carried = [nm for nm in info["modified"] if isinstance(head.env.get(nm), Poly) and head.env[nm].as_atom() is not None and head.env[nm].as_atom().kind == "sym"]
  paths0 = [bp for bp in info["body_paths"] if bp[0] in ("fall", "continue")]
  c0 = w.cond(info["node"].test, head)
  role = {}
  for nm in carried:
    if c0[0] == "truthy" and isinstance(c0[1], Poly) and c0[1] == head.env[nm]:
      role["b"] = nm
  if "b" in role and paths0:
    endv = lambda nm: paths0[0][2].env.get(nm)
    for nm in carried:
      if nm != role["b"] and isinstance(endv(nm), Poly) and endv(nm) == head.env[role["b"]]:
        role["a"] = nm
    rest = [nm for nm in carried if nm not in role.values()]
    for x in rest:
      for y in rest:
        if x != y and isinstance(endv(y), Poly) and endv(y) == head.env[x]:
          px, py = vis["pre"].env.get(x), vis["pre"].env.get(y)
          if px is not None and py is not None and not isinstance(px, (Seq, tuple)) and not isinstance(py, (Seq, tuple)):
            ini = (as_poly(px).as_int(), as_poly(py).as_int())
            if ini == (1, 0):
              role["r"], role["s"] = x, y
            elif ini == (0, 1):
              role["t"], role["u"] = x, y
  if set(role) != {"a", "b", "r", "s", "t", "u"}:
    ctx.violation(R, f.where, "Euclid recurrence", "the six carried quantities (a, b) / (r, s) / (t, u) cannot be identified: %s" % sorted(role.items()))
    ctx.violation(R, f.where, "appends (q, r, t) after the update", "recurrence not identified")
    return
  H = {v: as_poly(head.env.get(role[v])) for v in ("a", "b", "r", "s", "t", "u")}
  ok = True
  why = ""
  oka = True
  for kind, val, s_, since, v in info["body_paths"]:
    if kind not in ("fall", "continue"):
      ok = False
      why = "loop left by %s" % kind
      continue
    q = sym.mk("fdiv", H["a"], H["b"])
    rem = sym.mk("mod", H["a"], H["b"])
    E = {v_: as_poly(s_.env.get(role[v_])) for v_ in ("a", "b", "r", "s", "t", "u")}
    want = {"a": H["b"], "b": rem, "r": H["r"] * q + H["s"], "s": H["r"], "t": H["t"] * q + H["u"], "u": H["t"]}
    for k_ in want:
      if not (E[k_] - want[k_]).is_zero():
        ok = False
        why = "%s' = %r, expected %r" % (k_, E[k_], want[k_])
    evs = [w.events[i] for i in s_.trace[since:]]
    apps = [e for e in evs if e.kind == "mutate" and e.data["method"] == "append"]
    if len(apps) != 1:
      oka = False
    else:
      v_ = apps[0].data["args"][0]
      if not (isinstance(v_, Seq) and [as_poly(x) for x in v_.items] == [q, want["r"], want["t"]]):
        oka = False
  c = w.cond(info["node"].test, head)
  okc = c[0] == "truthy" and as_poly(c[1]) == H["b"]
  init = vis["pre"].env
  oki = [as_poly(init.get(role[x])).as_int() for x in ("r", "s", "t", "u")] == [1, 0, 0, 1]
  ctx.record(R, f.where, "Euclid recurrence", ok and okc and oki, why or ("(a, b) <- (b, a mod b); (r, s) <- (r*q + s, r); (t, u) <- (t*q + u, t) with q = a // b, start (1, 0, 0, 1), while b"
                                                                         if okc and oki else "loop condition / initial convergents changed"))
  ctx.record(R, f.where, "appends (q, r, t) after the update", oka, "one triple (quotient, numerator, denominator) per step" if oka else "appended triple is not (q, r', t')")


# ------------------------------------------------------------------ BIAS: lattice_suite.Bias equals its definition
def rule_bias(ctx):
  R = "R-C19-BIAS"
  repo = ctx.repo
  from pcstatic import accum
  f, w = walk(repo, "randomness_tests.lattice_suite", "Bias")
  sample, n, transforms = [P("param", x) for x in f.params()[:3]]
  par = accum.parents(f.node)
  calls = [e for e in w.events if e.kind == "call" and e.data["name"] == "repo:randomness_tests.util:UniformSumCdf"]
  rets = [t for t in w.terminals if t[0] == "return"]
  if len(calls) != 1 or len(rets) != 1:
    raise Incomplete("Bias: expected one UniformSumCdf call and one return", f.where)
  call = calls[0]
  cnt, x = [as_poly(a) for a in call.data["args"][:2]]
  okr = not isinstance(rets[0][1], Seq) and as_poly(rets[0][1]) == as_poly(call.data["value"])
  # the statistic: x = 2 * T / n with T the accumulated sum
  T = None
  xa = x.as_atom()
  if xa is not None and xa.kind == "tdiv" and as_poly(xa.args[1]) == n:
    half = as_poly(xa.args[0])
    for a in half.atoms():
      if a.kind == "sym" and (half - Poly.atom(a) * 2).is_zero():
        T = Poly.atom(a)
  augs = {}
  for e in w.events:
    if e.kind == "augassign":
      augs.setdefault(e.data["name"], {})[id(e.node)] = e
  inits = {e.data["name"]: e for e in w.events if e.kind == "assign" and not accum.enclosing_fors(f.node, e.node, par)[0]}
  tname = None
  if T is not None:
    for info in w.loop_info.values():
      for vis in info["visits"]:
        for nm, sv in vis["after_env"].items():
          if not isinstance(sv, Seq) and as_poly(sv) == T and not accum.enclosing_fors(f.node, info["node"], par)[0]:
            tname = nm
  if tname is None or tname not in augs:
    ctx.violation(R, f.where, "statistic = 2 * sum / n", "the second argument of UniformSumCdf is not 2 * (accumulated sum) / n")
    return
  sites = list(augs[tname].values())
  ok1, why1 = True, []
  n_terms = Poly.const(0)
  i0 = inits.get(tname)
  if i0 is None or not (isinstance(i0.data["value"], (Const, Poly)) and as_poly(i0.data["value"]).is_zero()):
    ok1 = False
    why1.append("the sum does not start at 0")
  for e in sites:
    if not isinstance(e.node.op, ast.Add):
      ok1 = False
      why1.append("sum updated with a non-additive operator")
      continue
    ex = accum.executions(w, f.node, e.node, par)
    if ex is None:
      ok1 = None if ok1 else ok1
      why1.append("the number of summands depends on control flow")
      continue
    n_terms = n_terms + ex
    # term = min(r, n - r), r = (a*s + b) % n over (s in sample) x ((a, b) in transforms)
    term = as_poly(e.data["rhs"]).as_atom()
    good = False
    if term is not None and term.kind == "min" and len(term.args) == 2:
      for u, v in ((term.args[0], term.args[1]), (term.args[1], term.args[0])):
        ua = u.as_atom()
        if ua is not None and ua.kind == "mod" and as_poly(ua.args[1]) == n and (v - (n - u)).is_zero():
          lin = as_poly(ua.args[0])
          chain, _ = accum.enclosing_fors(f.node, e.node, par)
          ks = {}
          for lp in chain:
            info = [i for i in w.loop_info.values() if i["node"] is lp][0]
            ks[repr(as_poly(info["iter"]))] = as_poly(info["visits"][0]["k"])
          ks_s, ks_t = ks.get(repr(sample)), ks.get(repr(transforms))
          if ks_s is not None and ks_t is not None:
            s_i = sym.mk("idx", sample, ks_s)
            tr = sym.mk("idx", transforms, ks_t)
            want = sym.mk("idx", tr, Poly.const(0)) * s_i + sym.mk("idx", tr, Poly.const(1))
            good = (lin - want).is_zero()
    if not good:
      ok1 = False
      why1.append("summand is not min(r, n - r) with r = (a*s + b) % n for s in sample, (a, b) in transforms")
  ctx.record(R, f.where, "T = sum over sample x transforms of the distance of a*s + b to the nearest multiple of n", ok1, "; ".join(sorted(set(why1))) or
             "starts at 0, one additive update per (s, (a, b)) pair, summand min(r, n - r), r = (a*s + b) %% n; %r summands" % (n_terms,))
  # the count handed to the Irwin-Hall CDF equals the number of summands
  cval = cnt
  ca = cnt.as_atom()
  how = "expression"
  if ca is not None and ca.kind == "sym":
    cname = None
    for info in w.loop_info.values():
      for vis in info["visits"]:
        for nm, sv in vis["after_env"].items():
          if not isinstance(sv, Seq) and as_poly(sv) == cnt and not accum.enclosing_fors(f.node, info["node"], par)[0]:
            cname = nm
    cval = None
    if cname is not None and cname in augs:
      i1 = inits.get(cname)
      tot = as_poly(i1.data["value"]) if i1 is not None and isinstance(i1.data["value"], (Const, Poly)) else None
      for e in augs[cname].values():
        ex = accum.executions(w, f.node, e.node, par)
        step = as_poly(e.data["rhs"]) if not isinstance(e.data["rhs"], Seq) else None
        if tot is None or ex is None or step is None or not isinstance(e.node.op, ast.Add) or any(a.kind in ("sym", "idx") for a in step.all_atoms()):
          tot = None
          break
        tot = tot + ex * step
      cval = tot
      how = "counter `%s`" % cname
  if cval is None or ok1 is None:
    ctx.incomplete(R, f.where, "number of uniform summands", "the first argument of UniformSumCdf could not be resolved to a count")
  else:
    same = (cval - n_terms).is_zero()
    ctx.record(R, f.where, "number of uniform summands", same and okr, ("UniformSumCdf is evaluated for %r summands (%s) = number of terms in T; its value is returned" % (cval, how)) if same and okr else
               ("UniformSumCdf is evaluated for %r summands (%s) but T adds %r terms: the p-value is taken from the wrong Irwin-Hall distribution" % (cval, how, n_terms)
                if not same else "the p-value returned is not the UniformSumCdf value"))


# ------------------------------------------------------------------ PURE: the helpers are functions of their arguments
PURE_MODULES = ("ntheory_util", "linalg_util", "small_roots", "randomness_tests.lattice_suite", "randomness_tests.util")


def rule_pure(ctx):
  """"equal their definitions" for every call history: no helper writes state that outlives the call, except a memo whose key holds every
  input of the stored value (shared machinery with R-C12-PURE)."""
  R = "R-C19-PURE"
  repo = ctx.repo
  from pcstatic import effects
  from . import c12
  wt = ast.parse(c12._WITNESS)
  if len(effects.persistent_writes(wt.body[1], effects.module_vars(wt))) != 4:
    raise Incomplete("effect scanner self-check failed", "pcstatic.effects")
  for ms in PURE_MODULES:
    m = repo.mod(ms)
    mv = effects.module_vars(m.tree)
    for fn in repo.all_funcs(include_examples=False):
      if fn.module is not m:
        continue
      probs = []
      memo = 0
      for node, txt in effects.persistent_writes(fn.node, mv):
        why = c12.memo_sound(repo, fn, node)
        if why is True:
          memo += 1
        else:
          probs.append("line %d: %s%s" % (getattr(node, "lineno", 0), txt, "; " + why if why else ""))
      probs += ["decorator %s may keep state between calls" % d for d in effects.impure_decorators(fn.node)]
      ctx.record(R, fn.where, "no state outlives the call", not probs, "; ".join(probs) if probs else
                 "no global declaration, no write to a module-level container or attribute, no mutable default argument written" + (" (%d sound memo store(s))" % memo if memo else ""))


# ------------------------------------------------------------------ PSEUDOAVG: exhaustive prefix-shift variance minimisation
def rule_pseudoavg(ctx):
  R = "R-C19-PSEUDOAVG"
  repo = ctx.repo
  f, w = walk(repo, "randomness_tests.lattice_suite", "PseudoAverage")
  a, n = [P("param", x) for x in f.params()[:2]]
  srt = sym.mk("sorted", a)
  m = sym.mk("len", srt)
  loops = [i for i in w.loop_info.values() if i["visits"]]
  if len(loops) != 1:
    raise Incomplete("PseudoAverage: expected one scan over the prefixes", f.where)
  info = loops[0]
  vis = info["visits"][0]
  probs = []
  it = as_poly(vis["iter"]).as_atom() if not isinstance(vis["iter"], Seq) and vis["iter"] is not None else None
  whole = it is not None and ((it.kind == "range" and len(it.args) == 1 and ratfun_eq(as_poly(it.args[0]), m)) or Poly.atom(it) == srt or
                             (it.kind == "range" and len(it.args) == 2 and ratfun_eq(as_poly(it.args[1]) - as_poly(it.args[0]), m)) or
                             (it.kind == "enumerate" and len(it.args) == 1 and as_poly(it.args[0]) == srt))
  if not whole:
    probs.append("the scan does not run over all len(a) prefixes")
  k = as_poly(vis["k"])
  j = k + 1
  head, pre = vis["head"].env, vis["pre_env"]
  S = sym.mk("sum", srt)
  # roles: the prefix sum grows by sorted(a)[i]; the best pair starts at (0, 0)
  sxv = None
  paths = [bp for bp in info["body_paths"] if bp[4] is vis]
  for nm in info["modified"]:
    hv = head.get(nm)
    if hv is None or isinstance(hv, (Seq, Const, tuple)):
      continue
    ds = [as_poly(bp[2].env[nm]) - as_poly(hv) for bp in paths if bp[2].env.get(nm) is not None and not isinstance(bp[2].env[nm], (Seq, Const, tuple))]
    if ds and all(d == sym.mk("idx", srt, k) for d in ds) and isinstance(pre.get(nm), (Const, Poly)) and as_poly(pre[nm]).is_zero():
      sxv = nm
  if sxv is None:
    probs.append("no prefix sum of the sorted residues is maintained")
  def strict_less(fcs):
    """(d, best) pairs for which the facts say d < best, and pairs for which they say d >= best (either spelling)"""
    lt, ge = [], []
    for fc in fcs:
      if fc[0] != "cmp" or isinstance(fc[2], Seq) or isinstance(fc[3], Seq) or not isinstance(fc[2], (Poly, int)) or not isinstance(fc[3], (Poly, int)):
        continue
      l_, r_ = as_poly(fc[2]), as_poly(fc[3])
      if fc[1] == "Lt":
        lt.append((l_, r_))
      elif fc[1] == "Gt":
        lt.append((r_, l_))
      elif fc[1] == "GtE":
        ge.append((l_, r_))
      elif fc[1] == "LtE":
        ge.append((r_, l_))
    return lt, ge
  for kind, val, s_, since, v2 in paths:
    if kind not in ("fall", "continue"):
      probs.append("the scan is left by `%s` before every prefix has been tried: the variance change is not unimodal in j, a later prefix can be better" % kind)
  if sxv is not None and not probs:
    SX = as_poly(head[sxv]) + sym.mk("idx", srt, k)       # prefix sum including element i
    # variance change of shifting the first j elements by n, times m / n:  m(2n sx + j n^2) - 2 S j n - j^2 n^2  =  n * diff
    want_n = m * (n * 2 * SX + j * n * n) - S * 2 * j * n - j * j * n * n
    cmpv = None
    bestd = bestj = None
    for kind, val, s_, since, v2 in paths:
      newf = s_.facts[len(vis["head"].facts):]
      lt_, ge_ = strict_less(newf)
      for d, b_ in lt_ + ge_:
        if True:
          if (d * n - want_n).is_zero():
            cmpv = d
            for nm in info["modified"]:
              if head.get(nm) is not None and not isinstance(head[nm], (Seq, Const, tuple)) and as_poly(head[nm]) == b_:
                bestd = nm
    if cmpv is None or bestd is None:
      probs.append("the quantity compared against the running best is not the variance change 2*sx*m + j*(n*m - 2*sum - j*n)")
    else:
      for kind, val, s_, since, v2 in paths:
        newf = s_.facts[len(vis["head"].facts):]
        better = any(d_ == cmpv for d_, b2_ in strict_less(newf)[0])
        nd = as_poly(s_.env[bestd])
        if better and nd != cmpv:
          probs.append("a better prefix does not replace the running best")
        if not better and nd != as_poly(head[bestd]):
          probs.append("the running best changes without an improvement")
      # the tracked prefix length: equals j after an improving pass and is unchanged otherwise
      for nm in info["modified"]:
        if nm in (bestd, sxv) or head.get(nm) is None or isinstance(head[nm], (Seq, Const, tuple)):
          continue
        good = True
        for kind, val, s_, since, v2 in paths:
          newf = s_.facts[len(vis["head"].facts):]
          better = any(d_ == cmpv for d_, b2_ in strict_less(newf)[0])
          cur = s_.env.get(nm)
          if cur is None or isinstance(cur, (Seq, Const, tuple)) or as_poly(cur) != (j if better else as_poly(head[nm])):
            good = False
        if good and (bestj is None or (isinstance(pre.get(nm), (Const, Poly)) and as_poly(pre[nm]).is_zero())):
          bestj = nm          # (the loop variable itself also 'equals j'; the tracked length is the one that starts at 0)
      if not (isinstance(pre.get(bestd), (Const, Poly)) and as_poly(pre[bestd]).is_zero()):
        probs.append("the running best does not start at 0 (no shift)")
      if bestj is None or not (isinstance(pre.get(bestj), (Const, Poly)) and as_poly(pre[bestj]).is_zero()):
        probs.append("the best prefix length is not tracked from 0")
      else:
        rets = [t for t in w.terminals if t[0] == "return" and not isinstance(t[1], (Seq, Const, tuple))]
        J = as_poly(vis["after_env"][bestj])
        want = sym.mk("mod", sym.mk("fdiv", S + n * J + sym.mk("fdiv", m, Poly.const(2)), m), n)
        if not rets or as_poly(rets[0][1]) != want:
          probs.append("the result is not round((sum + n * best_j) / len) mod n")
  ctx.record(R, f.where, "argmin over all prefix shifts of the variance, result = rounded mean of the shifted list mod n", not probs, "; ".join(sorted(set(probs))) or
             "sorted residues; every prefix j = 1..len tried; n * diff = m(2n sx + j n^2) - 2 S j n - (j n)^2 (polynomial identity); strict improvement from (0, 0); mean rounded")


def ratfun_eq(x, y):
  return (x - y).is_zero()


# ------------------------------------------------------------------ SIEVE (Sieve(n) = the primes below n)
def rule_isqrt_small(ctx):
  """InverseSqrt2exp for k < 3 (the Newton iteration needs k >= 3): exhaustive search over range(2**k), a returned exactly under a*a*n == 1 (mod 2^k), None otherwise."""
  R = "R-C19-HENSEL"
  repo = ctx.repo
  f, w = walk(repo, NT, "InverseSqrt2exp")
  n, k = P("param", f.params()[0]), P("param", f.params()[1])
  Mk = sym.mk("pow", Poly.const(2), k)
  fors = [i_ for i_ in w.loop_info.values() if isinstance(i_["node"], ast.For) and i_["visits"]]
  probs = []
  if len(fors) != 1 or not isinstance(fors[0]["visits"][0]["iter"], Poly) or fors[0]["visits"][0]["iter"] != sym.mk("range", Mk):
    probs.append("no exhaustive loop over range(2**k)")
  else:
    info = fors[0]
    vis = info["visits"][0]
    a = as_poly(vis["k"])
    if not any(fc[0] == "cmp" and fc[1] == "Lt" and as_poly(fc[2]) == k and as_poly(fc[3]).as_int() == 3 for fc in vis["head"].facts):
      probs.append("the exhaustive branch is not the k < 3 case")
    saw = False
    for kind, val, s_, since, v_ in info["body_paths"]:
      newf = s_.facts[len(vis["head"].facts):]
      hit = [fc for fc in newf if fc[0] == "cmp" and fc[1] in ("Eq", "NotEq") and isinstance(fc[2], Poly) and fc[2].as_atom() is not None and fc[2].as_atom().kind == "mod"
             and (as_poly(fc[2].as_atom().args[0]) - a * a * n).is_zero() and as_poly(fc[2].as_atom().args[1]) == Mk and as_poly(fc[3]).as_int() == 1]
      if len(hit) != 1:
        probs.append("a pass does not test a*a*n % 2**k == 1")
        continue
      if kind == "return":
        saw = True
        if hit[0][1] != "Eq" or not (isinstance(val, Poly) and val == a):
          probs.append("the returned value is not the a that passed the test")
      elif kind in ("fall", "continue"):
        if hit[0][1] != "NotEq":
          probs.append("the search goes on although the test succeeded")
      else:
        probs.append("the search is left by %s" % kind)
    if not saw:
      probs.append("no solution is ever returned")
    after = [t_ for t_ in w.terminals if t_[0] == "return" and any(fc[0] == "cmp" and fc[1] == "Lt" and as_poly(fc[2]) == k and as_poly(fc[3]).as_int() == 3 for fc in t_[2].facts)
             and not (isinstance(t_[1], Poly))]
    if not any(isinstance(t_[1], Const) and t_[1].v is None for t_ in after):
      probs.append("None is not returned when no a qualifies")
  ctx.record(R, f.where, "k < 3: exhaustive search for a with a*a*n == 1 (mod 2^k)", not probs, "; ".join(sorted(set(probs))) or "first a in range(2^k) passing the congruence, else None")


def _index_filter(w, val):
  """(T, lo, hi) when val is [i for i in range(lo, hi) if T[i]] - as a comprehension over enumerate(T) / range(..), or as a loop that appends the
  index exactly when its flag is set; else None."""
  a = val.as_atom() if isinstance(val, Poly) else None
  if a is None:
    return None
  if a.kind == "map" and len(a.args) == 3:
    elt, bv2, F = as_poly(a.args[0]), Poly.atom(a.args[1]), as_poly(a.args[2])
    fa = F.as_atom()
    if fa is None or fa.kind != "filter" or len(fa.args) != 2:
      return None
    ca = as_poly(fa.args[1]).as_atom()
    conds = sym.FILTER_CONDS.get(ca.args[0]) if ca is not None and ca.kind == "cond" else None
    if not conds or len(conds) != 1 or conds[0][0] != "truthy":
      return None
    flag = as_poly(conds[0][1]).as_atom()
    sa = as_poly(fa.args[0]).as_atom()
    if sa is None or flag is None:
      return None
    item = sym.mk("idx", F, bv2)
    if sa.kind == "enumerate":
      T = as_poly(sa.args[0])
      if not (elt - sym.mk("idx", item, Poly.const(0))).is_zero():
        return None
      # flag is T[bv] or enumerate(T)[bv][1]
      if flag.kind == "idx" and (as_poly(flag.args[0]) == T and as_poly(flag.args[1]).as_atom() is not None and as_poly(flag.args[1]).as_atom().kind == "bv"):
        return T, Poly.const(0), sym.mk("len", T)
      if flag.kind == "idx" and as_poly(flag.args[1]).as_int() == 1:
        inner = as_poly(flag.args[0]).as_atom()
        if inner is not None and inner.kind == "idx" and as_poly(inner.args[0]).as_atom() == sa:
          return T, Poly.const(0), sym.mk("len", T)
      return None
    if sa.kind == "range":
      args = [as_poly(x) for x in sa.args]
      lo, hi = (Poly.const(0), args[0]) if len(args) == 1 else (args[0], args[1])
      if len(args) == 3 and args[2].as_int() != 1:
        return None
      if not (elt - item).is_zero():
        return None
      if flag.kind != "idx":
        return None
      T = as_poly(flag.args[0])
      off = as_poly(flag.args[1])
      bvs = [x for x in off.atoms() if x.kind == "bv"]
      if len(bvs) != 1 or not (off - Poly.atom(bvs[0]) - lo).is_zero():
        return None
      return T, lo, hi
    return None
  if a.kind == "sym":
    for li in w.loop_info.values():
      for vis in li.get("visits", []):
        nm = [n_ for n_, x_ in (vis.get("after_env") or {}).items() if isinstance(x_, Poly) and x_ == val]
        if not nm or not isinstance(li["node"], ast.For):
          continue
        pre = vis["pre_env"].get(nm[0])
        if not (isinstance(pre, Seq) and not pre.items):
          return None
        rg = _range_of(vis)
        k = as_poly(vis["k"])
        T = None
        if rg is not None:
          lo, hi, st_ = rg
          if st_.as_int() != 1:
            return None
          idxv = lo + k
        else:
          ia = as_poly(vis["iter"]).as_atom() if isinstance(vis["iter"], Poly) else None
          if ia is None or ia.kind != "enumerate":
            return None
          T = as_poly(ia.args[0])
          lo, hi, idxv = Poly.const(0), sym.mk("len", T), k
        okp = True
        for kind, v_, st2, since, vv in li["body_paths"]:
          if vv is not vis:
            continue
          if kind not in ("fall", "continue"):
            return None
          apps = [w.events[i_] for i_ in st2.trace[since:] if w.events[i_].kind == "mutate" and w.events[i_].data["method"] == "append"]
          newf = st2.facts[len(vis["head"].facts):]
          tr = [fc for fc in newf if fc[0] == "truthy" and isinstance(fc[1], Poly) and fc[1].as_atom() is not None and fc[1].as_atom().kind == "idx"]
          fl = [fc for fc in newf if fc[0] == "falsy" and isinstance(fc[1], Poly) and fc[1].as_atom() is not None and fc[1].as_atom().kind == "idx"]
          for fc in tr + fl:
            fa_ = fc[1].as_atom()
            ix = as_poly(fa_.args[1])
            base_ = as_poly(fa_.args[0])
            if rg is None and base_.as_atom() is not None and base_.as_atom().kind == "idx":      # enumerate item: (i, flag)
              continue
            if not (ix - idxv).is_zero():
              okp = False
            T = base_ if T is None or rg is not None else T
          if tr and not fl:
            if len(apps) != 1 or not (isinstance(apps[0].data["args"][0], Poly) and (apps[0].data["args"][0] - idxv).is_zero()):
              okp = False
          elif fl and not tr:
            if apps:
              okp = False
          else:
            okp = False
        if okp and T is not None:
          return T, lo, hi
        return None
  return None


def rule_sieve(ctx):
  """Sieve of Eratosthenes, decided on its structure: a table of n True flags; for every i from 2 up to at least isqrt(n) whose flag is still set, every
  multiple j = i*i, i*i + i, ... below n is cleared (start anywhere in [2i, i*i]); the result lists the indices >= 2 whose flag is set.  Then a composite
  m < n has a prime factor i <= isqrt(m) <= isqrt(n) with i*i <= m, so m is cleared; a prime is never a multiple j >= 2i of a smaller i."""
  R = "R-C19-SIEVE"
  repo = ctx.repo
  f, w = walk(repo, NT, "Sieve")
  n = P("param", f.params()[0])
  probs = []
  alloc = [e for e in w.events if e.kind == "assign" and isinstance(e.data["value"], Poly) and e.data["value"] == sym.mk("listrep", P("seq", Poly.const(1)), n)]
  if not alloc:
    probs.append("the flag table is not [True] * n")
  fors = [i_ for i_ in w.loop_info.values() if isinstance(i_["node"], ast.For) and i_["visits"]]
  inner = [i_ for i_ in fors if any(i_["node"] in ast.walk(o["node"]) and o is not i_ for o in fors)]
  outer = [o for o in fors if o not in inner and any(i_["node"] in ast.walk(o["node"]) for i_ in inner)]
  if len(outer) != 1 or len(inner) != 1:
    ctx.incomplete(R, f.where, "sieve of Eratosthenes", "expected one loop over the candidates and one over their multiples")
    return
  ov = outer[0]["visits"][0]
  ra = ov["iter"].as_atom() if isinstance(ov["iter"], Poly) else None
  ivar = None
  if ra is None or ra.kind != "range" or len(ra.args) < 2:
    probs.append("the candidates are not a range")
  else:
    start, stop = as_poly(ra.args[0]), as_poly(ra.args[1])
    step = as_poly(ra.args[2]) if len(ra.args) == 3 else Poly.const(1)
    ivar = start + as_poly(ov["k"]) * step
    if start.as_int() != 2 or step.as_int() != 1:
      probs.append("the candidates do not run over 2, 3, 4, ...")
    if not ((stop - sym.mk("isqrt", n)).as_int() is not None and (stop - sym.mk("isqrt", n)).as_int() >= 1) and stop != n:
      probs.append("the candidates stop at %r: every i <= isqrt(n) must be tried" % (stop,))
  for iv in inner[0]["visits"]:
    ia = iv["iter"].as_atom() if isinstance(iv["iter"], Poly) else None
    if ia is None or ia.kind != "range" or len(ia.args) != 3 or ivar is None:
      probs.append("the multiples are not range(start, n, i)")
      continue
    s0, s1, st = [as_poly(x) for x in ia.args]
    if st != ivar:
      probs.append("the multiples advance by %r, not by the candidate i" % (st,))
    if s1 != n:
      probs.append("the multiples stop at %r, not at n" % (s1,))
    # start is a multiple of i in [2i, i*i]: i*i - start = c*i with 0 <= c <= i - 2
    d = ivar * ivar - s0
    if not (d.is_zero() or (d - ivar * (ivar - 2)).is_zero()):
      probs.append("the first cleared multiple is %r (must be a multiple of i between 2i and i*i)" % (s0,))
    jvar = s0 + as_poly(iv["k"]) * st
    paths = [bp for bp in inner[0]["body_paths"] if bp[4] is iv]
    if not paths or any(bp[0] != "fall" for bp in paths):
      probs.append("the loop over the multiples is left early")
    st_ = [e for e in w.events if e.kind == "store" and isinstance(e.data["value"], Const) and e.data["value"].v is False]
    if not st_ or not all((as_poly(e.data["index"]) - jvar).is_zero() for e in st_):
      probs.append("the cleared entry is not table[j]")
  # the multiples are cleared for every candidate whose flag is set (clearing for all candidates is fine too)
  inner_nodes = {id(x) for x in ast.walk(inner[0]["node"])}
  for kind, val, s_, since, v_ in outer[0]["body_paths"]:
    if kind not in ("fall", "continue"):
      probs.append("the loop over the candidates is left early")
      continue
    entered = any(id(w.events[i_].node) in inner_nodes for i_ in s_.trace[since:] if w.events[i_].node is not None)
    if not entered and ivar is not None:
      th = ov["head"].env
      newf = s_.facts[len(ov["head"].facts):]
      okskip = any(fc[0] == "falsy" and isinstance(fc[1], Poly) and fc[1].as_atom() is not None and fc[1].as_atom().kind == "idx" and (as_poly(fc[1].as_atom().args[1]) - ivar).is_zero()
                   for fc in newf)
      if not okskip:
        probs.append("a candidate's multiples are skipped although its flag is not known to be cleared")
  rets = [t_ for t_ in w.terminals if t_[0] == "return"]
  okr = bool(rets)
  for t_ in rets:
    v_ = t_[1]
    cut = 0
    a_ = v_.as_atom() if isinstance(v_, Poly) else None
    if a_ is not None and a_.kind == "slice" and repr(a_.args[2]) == "lit('None')" and repr(a_.args[3]) in ("lit('None')", "1") and as_poly(a_.args[1]).as_int() is not None:
      cut = as_poly(a_.args[1]).as_int()
      v_ = as_poly(a_.args[0])
    flt = _index_filter(w, v_)
    if flt is None:
      okr = False
      continue
    T_, lo_, hi_ = flt
    # the flags read are those of the sieved table, the indices run to its end, and exactly the indices 0 and 1 are dropped
    tab_ok = any(isinstance(vis_.get("after_env", {}).get(nm_), Poly) and vis_["after_env"][nm_] == T_ for vis_ in outer[0]["visits"] for nm_ in vis_.get("after_env", {}))
    end_ok = (hi_ - n).is_zero() or (hi_ - sym.mk("len", T_)).is_zero()
    if not (tab_ok and end_ok and lo_.as_int() is not None and lo_.as_int() + cut == 2 and (lo_.as_int() == 0 or cut == 0)):
      okr = False
  if not okr:
    probs.append("the result is not the list of indices i >= 2 whose flag is set ([i for i, flag in enumerate(table) if flag][2:])")
  ctx.record(R, f.where, "sieve of Eratosthenes", not probs, "; ".join(sorted(set(probs))) or "candidates 2..isqrt(n), multiples from i*i in steps of i below n, indices >= 2 with the flag set")


# ---------------------------------------------------------------------------------------------------------------- rational linear solver
LA = "linalg_util"


def _rel(fc):
  """('cmp', op, l, r) -> (rel, l - r) with rel in ==, !=, <, <= (Gt / GtE are mirrored); None for other facts."""
  if not (isinstance(fc, tuple) and len(fc) == 4 and fc[0] == "cmp" and isinstance(fc[2], (Poly, int)) and isinstance(fc[3], (Poly, int))):
    return None
  l, r = (Poly.const(x) if isinstance(x, int) else as_poly(x) for x in (fc[2], fc[3]))
  op = fc[1]
  if op in ("Gt", "GtE"):
    l, r = r, l
    op = {"Gt": "Lt", "GtE": "LtE"}[op]
  if op not in ("Eq", "NotEq", "Lt", "LtE"):
    return None
  return {"Eq": "==", "NotEq": "!=", "Lt": "<", "LtE": "<="}[op], l - r


def has_rel(facts, rel, d):
  """Is `d rel 0` among the facts (up to the sign of d for == and !=, and x < y  <=>  x + 1 <= y over the integers)?"""
  for fc in facts:
    x = _rel(fc)
    if x is None:
      continue
    r_, e = x
    if r_ == rel and (e - d).is_zero():
      return True
    if rel in ("==", "!=") and r_ == rel and (e + d).is_zero():
      return True
    if rel == "<" and r_ == "<=" and (e - d - 1).is_zero():
      return True
    if rel == "<=" and r_ == "<" and (e - d + 1).is_zero():
      return True
  return False


def _root(x, names):
  """The parameter (by name) a list value derives from through element stores / in-place mutations, or None."""
  seen = 0
  while seen < 50:
    seen += 1
    a = x.as_atom() if isinstance(x, Poly) else (x if isinstance(x, Atom) else None)
    if a is None:
      return None
    if a.kind in ("upd", "mut"):
      x = a.args[0]
      continue
    if a.kind == "param":
      return a.args[0] if a.args[0] in names else None
    if a.kind == "sym":
      nm = str(a.args[0]).split("#")[0]
      return nm if nm in names else None
    return None
  return None


def _entry(x):
  """(matrix value, row, col) of idx(idx(A, row), col), else None."""
  a = x.as_atom() if isinstance(x, Poly) else (x if isinstance(x, Atom) else None)
  if a is None or a.kind != "idx":
    return None
  r = a.args[0].as_atom() if isinstance(a.args[0], Poly) else (a.args[0] if isinstance(a.args[0], Atom) else None)
  if r is None or r.kind != "idx":
    return None
  return as_poly(r.args[0]), as_poly(r.args[1]), as_poly(a.args[1])


def _enclosing_for(w, node):
  """loop_info of the innermost `for` containing node."""
  best = None
  for li in w.loop_info.values():
    n = li["node"]
    if isinstance(n, ast.For) and any(x is node for x in ast.walk(n)):
      if best is None or any(x is n for x in ast.walk(best["node"])):
        best = li
  return best


def _range_of(visit):
  ra = visit["iter"].as_atom() if isinstance(visit["iter"], Poly) else None
  if ra is None or ra.kind != "range":
    return None
  args = [as_poly(x) for x in ra.args]
  if len(args) == 1:
    return Poly.const(0), args[0], Poly.const(1)
  if len(args) == 2:
    return args[0], args[1], Poly.const(1)
  return args[0], args[1], args[2]


def rule_linalg(ctx):
  """'The rational linear solver returns only vectors that satisfy the original consistent system', decided on the three functions it consists of:
  back-substitution solves row i exactly (a[i][i] x_i + sum_{j>i} a[i][j] x_j = b[i], rows taken bottom-up so that every x_j used is final, a zero pivot gives
  None); solve_right eliminates on the augmented system (a | b), answers only at full column rank and hands the first `rank` rows of both to the
  back-substitution; the elimination applies to b exactly the row operation it applies to a (same pivot, same multiplier, same divisor, same row moves)."""
  R = "R-C19-LINALG"
  repo = ctx.repo
  # ---- back-substitution
  f, w = walk(repo, LA, "upper_triangular_solve")
  pa, pb = f.params()[0], f.params()[1]
  A, B = P("param", pa), P("param", pb)
  sizes = [sym.mk("len", A), sym.mk("len", sym.mk("idx", A, Poly.const(0))), sym.mk("len", B)]
  probs = []
  sts = [e for e in w.events if e.kind == "store"]
  if not sts:
    ctx.incomplete(R, f.where, "back-substitution", "no element store found")
  else:
    for e in sts:
      I = as_poly(e.data["index"])
      va = e.data["value"].as_atom() if isinstance(e.data["value"], Poly) else None
      if va is None or va.kind != "extcall" or len(va.args) not in (3, 4) or "mpq" not in repr(va.args[0]):
        ctx.incomplete(R, f.where, "back-substitution", "the solution entry is not gmpy.mpq(numerator, denominator): %r" % (e.data["value"],))
        return
      N, D = as_poly(va.args[1]), as_poly(va.args[2])
      if not (D - sym.mk("idx", sym.mk("idx", A, I), I)).is_zero():
        probs.append("x[i] is divided by %r, not by the pivot a[i][i]" % (D,))
      bvs = [x for x in N.all_atoms() if x.kind == "bv"]
      okn = False
      for bv in bvs:
        for hi in sizes:
          J = Poly.atom(bv) + I + 1
          elem = sym.mk("idx", sym.mk("idx", A, I), J) * sym.mk("idx", as_poly(e.data["base"]), J)
          exp = sym.mk("idx", B, I) - sym.mk("sum", Poly.atom(Atom("map", elem, bv, sym.mk("range", I + 1, hi))))
          if (N - exp).is_zero():
            okn = True
      if not okn:
        # the same sum accumulated by a loop: acc = 0; for j in range(i+1, n): acc += a[i][j] * x[j]
        rest = sym.mk("idx", B, I) - N
        ra_ = rest.as_atom()
        if ra_ is not None and ra_.kind == "sym":
          for li_ in w.loop_info.values():
            for v_ in li_["visits"]:
              nm = [n_ for n_, x_ in (v_.get("after_env") or {}).items() if isinstance(x_, Poly) and x_ == rest]
              rg_ = _range_of(v_) if isinstance(v_.get("iter"), Poly) else None
              if not nm or rg_ is None:
                continue
              init = v_["pre_env"].get(nm[0])
              headv = v_["head"].env.get(nm[0])
              paths = [bp for bp in li_["body_paths"] if bp[4] is v_]
              J = rg_[0] + as_poly(v_["k"]) * rg_[2]
              elem = sym.mk("idx", sym.mk("idx", A, I), J) * sym.mk("idx", as_poly(e.data["base"]), J)
              if (isinstance(init, (Poly, int)) and as_poly(init).is_zero() and isinstance(headv, Poly) and paths and all(bp[0] == "fall" for bp in paths)
                  and all(isinstance(bp[2].env.get(nm[0]), Poly) and (bp[2].env[nm[0]] - headv - elem).is_zero() for bp in paths)
                  and (rg_[0] - (I + 1)).is_zero() and rg_[2].as_int() == 1 and any((rg_[1] - s_).is_zero() for s_ in sizes)):
                okn = True
      if not bvs and (N - sym.mk("idx", B, I)).is_zero():
        probs.append("the numerator ignores the already solved unknowns")
      elif not okn:
        probs.append("the numerator is %r, not b[i] - sum(a[i][j] * x[j] for j in i+1 .. n-1)" % (N,))
      if not has_rel(e.state.facts, "!=", D):
        probs.append("x[i] is computed although the pivot is not known to be non-zero")
      li = _enclosing_for(w, e.node)
      rg = _range_of(li["visits"][0]) if li and li["visits"] else None
      if rg is None:
        ctx.incomplete(R, f.where, "back-substitution", "the rows are not taken from a range")
        return
      k = as_poly(li["visits"][0]["k"])
      start, stop, step = rg
      if not ((I - (start + k * step)).is_zero() and step.as_int() == -1 and stop.as_int() == -1 and any((start - (s_ - 1)).is_zero() for s_ in sizes)):
        probs.append("the rows are not taken bottom-up from n-1 down to 0 (iteration %r)" % (li["visits"][0]["iter"],))
      # the result is the list the entries are stored into
      v0 = li["visits"][0]
      var = [n_ for n_, v_ in v0["head"].env.items() if isinstance(v_, Poly) and v_ == as_poly(e.data["base"])]
      rets = [t_ for t_ in w.terminals if t_[0] == "return" and not (isinstance(t_[1], Const) and t_[1].v is None)]
      if not rets or not all(any(isinstance(t_[2].env.get(n_), Poly) and t_[1] == t_[2].env.get(n_) for n_ in var) for t_ in rets):
        probs.append("the value returned is not the list of solved unknowns")
    nones = [e for e in w.events if e.kind == "return" and isinstance(e.data["value"], Const) and e.data["value"].v is None and not e.data.get("implicit")]
    for e in nones:
      zero = [fc for fc in e.state.facts if _rel(fc) and _rel(fc)[0] == "==" and (_entry(_rel(fc)[1]) is not None or _entry(-_rel(fc)[1]) is not None)]
      if not zero:
        probs.append("None is returned on a path without a zero pivot")
    ctx.record(R, f.where, "back-substitution", not probs, "; ".join(sorted(set(probs))) or "x[i] = (b[i] - sum_{j>i} a[i][j] x[j]) / a[i][i] for i = n-1 .. 0, None at a zero pivot")
  # ---- solve_right
  f, w = walk(repo, LA, "solve_right")
  pa, pb = f.params()[0], f.params()[1]
  A, B = P("param", pa), P("param", pb)
  nr, nc, nb = sym.mk("len", A), sym.mk("len", sym.mk("idx", A, Poly.const(0))), sym.mk("len", B)
  probs = []
  ech = [e for e in w.events if e.kind == "call" and e.data["name"] == "repo:%s:echelon_form" % LA]
  keys = {repr(e.data["value"]) for e in ech}
  if len(keys) != 1:
    ctx.incomplete(R, f.where, "solve_right", "expected exactly one elimination call")
  else:
    e0 = ech[0]
    args = list(e0.data["args"]) + [e0.data["kwargs"].get(k_) for k_ in ("b",) if k_ in e0.data["kwargs"]]
    if len(args) != 2 or not (isinstance(args[0], Poly) and args[0] == A and isinstance(args[1], Poly) and args[1] == B):
      probs.append("the elimination does not run on the augmented system (a, b): arguments %r" % (args,))
    rank = as_poly(e0.data["value"])
    for e in w.events:
      if e.kind == "raise":
        fs = e.state.facts
        if not (has_rel(fs, "!=", nr - nb) or has_rel(fs, "<", nr - nc)):
          probs.append("line %d rejects a system that is neither mis-sized (len(a) != len(b)) nor under-determined (rows < columns)" % e.node.lineno)
    for t_ in w.terminals:
      if t_[0] != "return":
        continue
      fs = t_[2].facts
      if not has_rel(fs, "==", nr - nb):
        probs.append("an answer is given although len(a) == len(b) is not established")
      if isinstance(t_[1], Const) and t_[1].v is None:
        if not has_rel(fs, "!=", rank - nc):
          probs.append("None is returned although the rank is not known to differ from the number of columns")
        continue
      if not has_rel(fs, "==", rank - nc):
        probs.append("a solution is returned although full column rank is not established")
      ca = t_[1].as_atom() if isinstance(t_[1], Poly) else None
      okc = False
      if ca is not None and ca.kind == "call" and repr(ca.args[0]) == "lit('%s:upper_triangular_solve')" % LA and len(ca.args) == 3:
        okc = True
        for arg, par in ((ca.args[1], A), (ca.args[2], B)):
          sa = arg.as_atom() if isinstance(arg, Poly) else (arg if isinstance(arg, Atom) else None)
          if sa is None or sa.kind != "slice" or as_poly(sa.args[0]) != par:
            okc = False
            continue
          lo, hi, stp = sa.args[1], sa.args[2], sa.args[3]
          if not (repr(lo) in ("lit('None')", "0")) or repr(stp) not in ("lit('None')", "1"):
            okc = False
          if not (isinstance(hi, (Poly, int)) and ((as_poly(hi) - rank).is_zero() or (as_poly(hi) - nc).is_zero())):
            okc = False
      if not okc:
        probs.append("the result is not the back-substitution on the first `rank` rows of a and b: %r" % (t_[1],))
    ctx.record(R, f.where, "solve_right", not probs, "; ".join(sorted(set(probs))) or "elimination on (a, b); None unless rank == columns; back-substitution on a[:rank], b[:rank]")
  # ---- elimination: b follows a
  f, w = walk(repo, LA, "echelon_form")
  pa, pb = f.params()[0], f.params()[1]
  names = {pa, pb}
  elim, divs, zero = [], [], []
  bst = []
  for e in w.events:
    if e.kind != "store":
      continue
    base = as_poly(e.data["base"])
    ba = base.as_atom()
    v = e.data["value"]
    if ba is not None and ba.kind == "idx" and _root(ba.args[0], names) == pa:
      J, K = as_poly(ba.args[1]), as_poly(e.data["index"])
      if isinstance(v, (Poly, int)) and as_poly(v).is_zero():
        zero.append((e, J, K))
      elif isinstance(v, Poly) and v.as_atom() is not None and v.as_atom().kind == "fdiv":
        divs.append((e, J, K, v.as_atom()))
      elif isinstance(v, Poly):
        elim.append((e, J, K, v))
      else:
        ctx.incomplete(R, f.where, "elimination", "unmodelled store into a row of a: %r" % (v,))
        return
    elif _root(base, names) == pb:
      bst.append((e, as_poly(e.data["index"]), v))
    elif _root(base, names) == pa:
      ctx.incomplete(R, f.where, "elimination", "a whole row of a is replaced (line %d)" % e.node.lineno)
      return
  if not elim or not divs:
    ctx.incomplete(R, f.where, "elimination", "elimination step or exact division not found")
    return
  probs, probs_d = [], []
  Is = set()
  for e, J, K, v in elim:
    rows = set()
    for at in v.atoms():
      en = _entry(at)
      if en is not None and (en[2] - K).is_zero() and _root(en[0], names) == pa:
        rows.add(en[1])
    piv = [r_ for r_ in rows if not (r_ - J).is_zero()]
    if len(piv) != 1:
      probs.append("line %d: the new a[j][k] is not a combination of row j and one pivot row: %r" % (e.node.lineno, v))
      continue
    I = piv[0]
    Is.add(I)
    Asym = None
    for at in v.atoms():
      en = _entry(at)
      if en is not None:
        Asym = en[0]
    def a_(r_, c_):
      return sym.mk("idx", sym.mk("idx", Asym, r_), c_)
    if not (v - (a_(I, I) * a_(J, K) - a_(J, I) * a_(I, K))).is_zero():
      probs.append("line %d: the elimination step is %r, not a[i][i]*a[j][k] - a[j][i]*a[i][k]" % (e.node.lineno, v))
    li = _enclosing_for(w, e.node)
    rg = _range_of(li["visits"][0]) if li and li["visits"] else None
    if rg is None or not ((rg[0] - (I + 1)).is_zero() and rg[2].as_int() == 1 and (rg[1] - sym.mk("len", sym.mk("idx", P("param", pa), Poly.const(0)))).is_zero()):
      probs.append("line %d: the eliminated columns are not i+1 .. ncols-1" % e.node.lineno)
    if not any((zJ - J).is_zero() and (zK - I).is_zero() for _, zJ, zK in zero):
      probs.append("line %d: the entry below the pivot, a[j][i], is not cleared" % e.node.lineno)
    # the same row operation on b
    mate = [(eb, Jb, vb) for eb, Jb, vb in bst if isinstance(vb, Poly) and not (vb.as_atom() is not None and vb.as_atom().kind == "fdiv")]
    okb = False
    for eb, Jb, vb in mate:
      Bsym = None
      for at in vb.atoms():
        if at.kind == "idx" and _root(at.args[0], names) == pb:
          Bsym = as_poly(at.args[0])
      if Bsym is None:
        continue
      exp = a_(I, I) * sym.mk("idx", Bsym, J) - a_(J, I) * sym.mk("idx", Bsym, I)
      if (Jb - J).is_zero() and (vb - exp).is_zero():
        okb = True
    if not okb:
      probs.append("line %d: b does not get the same row operation (b[j] = a[i][i]*b[j] - a[j][i]*b[i])" % e.node.lineno)
  for e, J, K, fa in divs:
    num, den = as_poly(fa.args[0]), as_poly(fa.args[1])
    en, dn = _entry(num), _entry(den)
    if en is None or not ((en[1] - J).is_zero() and (en[2] - K).is_zero()):
      probs_d.append("line %d: the divided entry is not the stored one" % e.node.lineno)
    okd = dn is not None and _root(dn[0], names) == pa and (dn[1] - dn[2]).is_zero() and any((dn[1] - (I - 1)).is_zero() for I in Is)
    if not okd:
      probs_d.append("line %d: the divisor is %r, not the previous pivot a[i-1][i-1] (fraction-free elimination divides exactly only by it)" % (e.node.lineno, den))
    elif not has_rel(e.state.facts, "<=", Poly.const(1) - (dn[1] + 1)):
      probs_d.append("line %d: the division by the previous pivot is not restricted to i >= 1" % e.node.lineno)
    li = _enclosing_for(w, e.node)
    rg = _range_of(li["visits"][0]) if li and li["visits"] else None
    if rg is None or not (any((rg[0] - (I + 1)).is_zero() for I in Is) and rg[2].as_int() == 1 and (rg[1] - sym.mk("len", sym.mk("idx", P("param", pa), Poly.const(0)))).is_zero()):
      probs_d.append("line %d: the divided columns are not i+1 .. ncols-1" % e.node.lineno)
    # rows i and above are final (row i is the pivot row of this step): only rows from i+1 on may be divided
    rowfor = [li_ for li_ in w.loop_info.values() if isinstance(li_["node"], ast.For) and li_["visits"] and any(x is e.node for x in ast.walk(li_["node"]))
              and any(at.kind == "sym" and as_poly(li_["visits"][0]["k"]).as_atom() == at for at in J.all_atoms())]
    rgs = [_range_of(li_["visits"][0]) for li_ in rowfor]
    if not rgs or any(r_ is None for r_ in rgs):
      probs_d.append("line %d: the divided rows are not taken from a range" % e.node.lineno)
    else:
      for r_ in rgs:
        off = [(r_[0] - (I + 1)).as_int() for I in Is]
        if not any(o_ is not None and o_ >= 0 for o_ in off) or r_[2].as_int() != 1:
          probs_d.append("line %d: rows up to the pivot row are divided again (rows start at %r; only rows i+1.. are still being reduced)" % (e.node.lineno, r_[0]))
    okb = False
    for eb, Jb, vb in bst:
      fb = vb.as_atom() if isinstance(vb, Poly) else None
      if fb is None or fb.kind != "fdiv":
        continue
      nb_ = as_poly(fb.args[0]).as_atom()
      if nb_ is not None and nb_.kind == "idx" and _root(nb_.args[0], names) == pb and (as_poly(nb_.args[1]) - J).is_zero() and (Jb - J).is_zero() and (as_poly(fb.args[1]) - den).is_zero():
        okb = True
    if not okb:
      probs_d.append("line %d: b[j] is not divided by the same previous pivot" % e.node.lineno)
  # every store into b is one of the two mirrored operations
  for eb, Jb, vb in bst:
    fb = vb.as_atom() if isinstance(vb, Poly) else None
    if fb is not None and fb.kind == "fdiv":
      if not any((as_poly(fb.args[1]) - as_poly(fa.args[1])).is_zero() for _, _, _, fa in divs):
        probs_d.append("line %d: b is divided by something a is not divided by" % eb.node.lineno)
  # reads are modelled against the matrix as it was at the loop head: an entry must not be read after the same iteration has overwritten it
  for li_ in w.loop_info.values():
    for kind_, val_, st_, since_, vis_ in li_["body_paths"]:
      written = []
      for i_ in st_.trace[since_:]:
        ev_ = w.events[i_]
        if ev_.kind != "store":
          continue
        val = ev_.data["value"]
        if isinstance(val, Poly):
          for at in val.all_atoms():
            en = _entry(at)
            if en is not None and _root(en[0], names) == pa:
              for (r_, c_, ln_) in written:
                if (en[1] - r_).is_zero() and (en[2] - c_).is_zero() and ln_ != ev_.node.lineno:
                  probs.append("line %d reads a[%r][%r] after line %d of the same iteration has overwritten it" % (ev_.node.lineno, r_, c_, ln_))
        ba_ = as_poly(ev_.data["base"]).as_atom()
        if ba_ is not None and ba_.kind == "idx" and _root(ba_.args[0], names) == pa:
          written.append((as_poly(ba_.args[1]), as_poly(ev_.data["index"]), ev_.node.lineno))
  ctx.record(R, f.where, "elimination step on (a | b)", not probs, "; ".join(sorted(set(probs))) or "row_j := a[i][i]*row_j - a[j][i]*row_i on a (columns i+1..) and on b, a[j][i] cleared")
  ctx.record(R, f.where, "exact division on (a | b)", not probs_d, "; ".join(sorted(set(probs_d))) or "rows below the pivot divided by the previous pivot a[i-1][i-1], a and b alike, for i >= 1")
  # ---- sweeps: every row below the pivot, every pivot column
  def whiles_around(node):
    out = [li for li in w.loop_info.values() if isinstance(li["node"], ast.While) and any(x is node for x in ast.walk(li["node"]))]
    out.sort(key=lambda li: sum(1 for _ in ast.walk(li["node"])))
    return out
  e0, J0, K0, v0_ = elim[0]
  ws = whiles_around(e0.node)
  probs_s = []
  if len(ws) < 2 or len(Is) != 1 or not ws[0]["visits"] or not ws[1]["visits"]:
    ctx.incomplete(R, f.where, "row and pivot sweeps", "expected the elimination step inside a loop over the rows inside a loop over the pivots")
    return
  I0 = next(iter(Is))
  rowl, pivl = ws[0], ws[1]
  rv = rowl["visits"][0]
  c = w.cond(rowl["node"].test, rv["head"])
  x = _rel(c) if isinstance(c, tuple) and c and c[0] == "cmp" else None
  if x is None or x[0] != "<" or not (x[1].deep_subst(J0.as_atom(), Poly.const(0)) + J0 - x[1]).is_zero() or J0.as_atom() is None:
    ctx.incomplete(R, f.where, "row and pivot sweeps", "the loop over the rows is not `while j < bound`: %r" % (c,))
    return
  Nb = J0 - x[1]
  jn = [n_ for n_, v_ in rv["head"].env.items() if isinstance(v_, Poly) and v_ == J0]
  nn = [n_ for n_, v_ in rv["head"].env.items() if isinstance(v_, Poly) and v_ == Nb]
  if not jn or not nn:
    ctx.incomplete(R, f.where, "row and pivot sweeps", "row index / row bound are not loop variables")
    return
  if not any(isinstance(rv["pre_env"].get(n_), (Poly, int)) and (as_poly(rv["pre_env"][n_]) - (I0 + 1)).is_zero() for n_ in jn):
    probs_s.append("the rows swept start at %r, not at i+1: a[i+1][i] stays non-zero and back-substitution ignores it" % (rv["pre_env"].get(jn[0]),))
  for kind, val, st_, since, vis in rowl["body_paths"]:
    if vis is not rv:
      continue
    if kind not in ("fall", "continue"):
      probs_s.append("the loop over the rows is left early (%s)" % kind)
      continue
    j2, n2 = st_.env.get(jn[0]), st_.env.get(nn[0])
    mv = []
    for i_ in st_.trace[since:]:
      ev_ = w.events[i_]
      if ev_.kind == "mutate" and isinstance(ev_.data["recv"], (Poly, Atom)) and _root(ev_.data["recv"], names) == pa and ev_.data["method"] == "insert":
        sa = ev_.data["args"][1].as_atom() if isinstance(ev_.data["args"][1], Poly) else None
        mv.append((as_poly(sa.args[2]) if sa is not None and sa.kind == "mcall" and len(sa.args) > 2 else None, as_poly(ev_.data["args"][0])))
    if not isinstance(j2, (Poly, int)) or not isinstance(n2, (Poly, int)):
      probs_s.append("row index / bound not tracked")
      continue
    j2, n2 = as_poly(j2), as_poly(n2)
    keep = (j2 - J0 - 1).is_zero() and (n2 - Nb).is_zero() and not mv
    move = (j2 - J0).is_zero() and (n2 - Nb + 1).is_zero() and len(mv) == 1 and mv[0][0] is not None and (mv[0][0] - J0).is_zero() and (mv[0][1] - Nb).is_zero()
    if not (keep or move):
      probs_s.append("an iteration over the rows neither advances to the next row (j+1, same bound) nor moves row j to position `bound` and shrinks the bound: j -> %r, bound -> %r, moves %r"
                     % (j2, n2, mv))
  pv = pivl["visits"][0]
  c = w.cond(pivl["node"].test, pv["head"])
  x = _rel(c) if isinstance(c, tuple) and c and c[0] == "cmp" else None
  A0 = P("param", pa)
  l1, l2 = sym.mk("len", A0), sym.mk("len", sym.mk("idx", A0, Poly.const(0)))
  nmin = [sym.mk("min", l1, l2), sym.mk("min", l2, l1)]
  if x is None or x[0] != "<" or not any((x[1] - (I0 - m_ + 1)).is_zero() for m_ in nmin):
    probs_s.append("the pivots are not swept while i < min(rows, columns) - 1: %r" % (c,))
  inn = [n_ for n_, v_ in pv["head"].env.items() if isinstance(v_, Poly) and v_ == I0]
  if not inn:
    probs_s.append("the pivot index is not a loop variable")
  else:
    if not any(isinstance(pv["pre_env"].get(n_), (Poly, int)) and as_poly(pv["pre_env"][n_]).is_zero() for n_ in inn):
      probs_s.append("the first pivot is not column 0")
    for kind, val, st_, since, vis in pivl["body_paths"]:
      if vis is not pv:
        continue
      i2 = st_.env.get(inn[0])
      if kind not in ("fall", "continue") or not isinstance(i2, (Poly, int)) or not (as_poly(i2) - I0 - 1).is_zero():
        probs_s.append("an iteration over the pivots does not advance to the next column (i -> %r, %s)" % (i2, kind))
  ctx.record(R, f.where, "row and pivot sweeps", not probs_s, "; ".join(sorted(set(probs_s))) or
             "pivots i = 0 .. min(rows, cols) - 2; rows j = i+1 .. bound-1, each either kept (j+1) or moved to the bottom (bound-1)")
  # ---- row moves
  moves = {pa: set(), pb: set()}
  loose = []
  for e in w.events:
    if e.kind != "mutate":
      continue
    rt = _root(as_poly(e.data["recv"]) if isinstance(e.data["recv"], (Poly, Atom)) else None, names) if isinstance(e.data["recv"], (Poly, Atom)) else None
    if rt is None:
      continue
    if e.data["method"] == "insert" and len(e.data["args"]) == 2:
      src = e.data["args"][1]
      sa = src.as_atom() if isinstance(src, Poly) else None
      if sa is not None and sa.kind == "mcall" and repr(sa.args[1]) == "lit('pop')" and _root(sa.args[0], names) == rt:
        moves[rt].add((repr(as_poly(sa.args[2])), repr(as_poly(e.data["args"][0]))))
      else:
        loose.append(e)
    elif e.data["method"] == "pop":
      pass          # counted through the insert that consumes it
    else:
      loose.append(e)
  pops = {pa: set(), pb: set()}
  for e in w.events:
    if e.kind == "mutate" and e.data["method"] == "pop" and isinstance(e.data["recv"], (Poly, Atom)):
      rt = _root(e.data["recv"], names)
      if rt is not None:
        pops[rt].add(repr(as_poly(e.data["args"][0])) if e.data["args"] else "last")
  probs = []
  if loose:
    ctx.incomplete(R, f.where, "row moves on (a | b)", "unmodelled in-place change of a or b at line %d" % loose[0].node.lineno)
    return
  if not moves[pa]:
    ctx.incomplete(R, f.where, "row moves on (a | b)", "no row move found (zero pivots and dependent rows are moved to the bottom)")
    return
  if moves[pa] != moves[pb]:
    probs.append("rows of a are moved (from, to) %s but entries of b %s" % (sorted(moves[pa]), sorted(moves[pb])))
  if pops[pa] != {m[0] for m in moves[pa]} or pops[pb] != {m[0] for m in moves[pb]}:
    probs.append("a row is removed without being re-inserted")
  # a row moved away from a zero pivot stays among the active rows: the rows [0, bound) are the ones still swept and handed to back-substitution, and
  # once dependent rows have been parked behind them (bound < len(a)) `insert(bound, pop(i))` lands *behind* the first parked zero row - an
  # independent equation leaves the window and a zero row enters it.  After the pop the last active position is bound - 1.
  in_rows = {i_ for bp in rowl["body_paths"] for i_ in bp[2].trace[bp[3]:]}
  for idx_, e in enumerate(w.events):
    if e.kind != "mutate" or e.data["method"] != "insert" or len(e.data["args"]) != 2 or idx_ in in_rows:
      continue
    rt = _root(as_poly(e.data["recv"]), names) if isinstance(e.data["recv"], (Poly, Atom)) else None
    sa = e.data["args"][1].as_atom() if isinstance(e.data["args"][1], Poly) else None
    if rt not in (pa, pb) or sa is None or sa.kind != "mcall" or repr(sa.args[1]) != "lit('pop')":
      continue
    Wv = e.state.env.get(nn[0])
    if not isinstance(Wv, (Poly, int)):
      probs.append("the bound of the active rows is not tracked at the zero-pivot move")
      continue
    pos = as_poly(e.data["args"][0])
    if not (pos - (as_poly(Wv) - 1)).is_zero():
      probs.append("a row moved away from a zero pivot is re-inserted at %s with %s active rows: after the pop the last active position is bound - 1; at `bound` the row "
                   "lands behind a parked zero row as soon as a dependent row has been removed, and the solver answers from the wrong equations" % (
                       norm(e.node.args[0]) if e.node is not None and getattr(e.node, "args", None) else repr(pos), nn[0]))
  probs = sorted(set(probs))
  ctx.record(R, f.where, "row moves on (a | b)", not probs, "; ".join(probs) or "every a.insert(pos, a.pop(r)) has its b.insert(pos, b.pop(r)): %d distinct moves" % len(moves[pa]))


# ---------------------------------------------------------------------------------------------------------------- Irwin-Hall distribution
def rule_uniformsum(ctx):
  """'the uniform-sum distribution equals its exact definition within stated tolerance': F(n, x) = 1/n! sum_{k=0}^{floor x} (-1)^k C(n, k) (x - k)^n.
  Decided on the structure of UniformSumCdf: F = 0 for x <= 0; the reflection 1 - F(n, n - x) only for x > n/2; the normal approximation with mean n/2
  and variance n/12; the series with sign (-1)^k carried as sign -> -sign from 1, C(n, k) carried as binom -> binom (n - k) // (k + 1) from 1, summand
  sign * binom / n! * (x - k)^n for k = 0 .. floor(x), started at 0, and the accumulated value returned."""
  from pcstatic import ratfun
  R = "R-C19-UNIFORMSUM"
  repo = ctx.repo
  U = "randomness_tests.util"
  f, w = walk(repo, U, "UniformSumCdf")
  n, x = P("param", f.params()[0]), P("param", f.params()[1])
  probs = []
  rets = [e for e in w.events if e.kind == "return" and e.node is not None]
  kinds = {"zero": 0, "reflect": 0, "normal": 0, "series": 0}
  self_call = "lit('%s:UniformSumCdf')" % U
  for e in rets:
    v = e.data["value"]
    fs = e.state.facts
    if isinstance(v, Const) and v.v == 0 or isinstance(v, Poly) and v.is_zero():
      kinds["zero"] += 1
      if not has_rel(fs, "<=", x):
        probs.append("0 is returned on a path where x <= 0 is not established")
      continue
    vp = as_poly(v) if isinstance(v, (Poly, Const)) else None
    calls = [a_ for a_ in vp.all_atoms() if a_.kind == "call"] if vp is not None else []
    if any(repr(a_.args[0]) == self_call for a_ in calls):
      kinds["reflect"] += 1
      want = P("lit", "1.0") - sym.mk("call", P("lit", "%s:UniformSumCdf" % U), n, n - x)
      want2 = Poly.const(1) - sym.mk("call", P("lit", "%s:UniformSumCdf" % U), n, n - x)
      if not ((vp - want).is_zero() or (vp - want2).is_zero()):
        probs.append("the reflection is %r, not 1 - F(n, n - x)" % (vp,))
      if not (has_rel(fs, "<", n - x * 2) or has_rel(fs, "<", _td19(n, 2) - x)):
        probs.append("the reflection is used on a path where x > n/2 is not established (it would recurse for ever at x <= n/2)")
      continue
    if any(repr(a_.args[0]) == "lit('%s:NormalCdf')" % U for a_ in calls):
      kinds["normal"] += 1
      want = sym.mk("call", P("lit", "%s:NormalCdf" % U), x, sym.mk("tdiv", n, Poly.const(2)), sym.mk("tdiv", n, Poly.const(12)))
      if not (vp - want).is_zero():
        probs.append("the normal approximation is %r, not NormalCdf(x, n/2, n/12)" % (vp,))
      lower = [(_rel(fc)) for fc in fs if _rel(fc) is not None and _rel(fc)[0] in ("<", "<=")]
      if not any((d_ + n).as_int() is not None and (d_ + n).as_int() >= 12 for r_, d_ in lower):
        probs.append("the normal approximation is used without a lower bound on n")
      continue
    kinds["series"] += 1
    loops = [li for li in w.loop_info.values() if li["visits"] and any(isinstance(v_.get("after_env", {}).get(nm), Poly) and v_["after_env"][nm] == vp for v_ in li["visits"] for nm in v_.get("after_env", {}))]
    if len(loops) != 1:
      probs.append("the series value returned is not accumulated by one loop")
      continue
    li = loops[0]
    vis = li["visits"][0]
    k = as_poly(vis["k"])
    rg = _range_of(vis)
    if rg is None or not (rg[0].is_zero() and rg[2].as_int() == 1 and (rg[1] - sym.mk("math.floor", x) - 1).is_zero()):
      probs.append("the series does not run over k = 0 .. floor(x)")
    accn = [nm for nm, av in vis["after_env"].items() if isinstance(av, Poly) and av == vp]
    head = vis["head"].env
    paths = [bp for bp in li["body_paths"] if bp[4] is vis]
    if not paths or any(bp[0] != "fall" for bp in paths):
      probs.append("the series loop is left early")
      continue
    st_ = paths[0][2]
    delta = as_poly(st_.env[accn[0]]) - as_poly(head[accn[0]])
    p0 = vis["pre_env"].get(accn[0])
    if not (isinstance(p0, Const) and p0.v == 0 or isinstance(p0, Poly) and p0.is_zero()):
      probs.append("the series does not start at 0")
    # carried sign and binomial: the loop-carried symbols of the summand
    carried = {nm: head[nm] for nm in vis["after_env"] if isinstance(head.get(nm), Poly) and head[nm].as_atom() is not None and head[nm].as_atom().kind == "sym"
               and head[nm].as_atom() in delta.all_atoms() and nm != accn[0] and head[nm] != k}
    sign = [nm for nm, hv in carried.items() if isinstance(st_.env.get(nm), Poly) and (st_.env[nm] + hv).is_zero()]
    binom = [nm for nm, hv in carried.items() if isinstance(st_.env.get(nm), Poly) and (st_.env[nm] - sym.mk("fdiv", hv * (n - k), k + 1)).is_zero()]
    if len(sign) != 1 or not (isinstance(vis["pre_env"].get(sign[0]), (Poly, int)) and as_poly(vis["pre_env"][sign[0]]).as_int() == 1):
      probs.append("the sign (-1)^k is not carried as s -> -s starting from 1")
    if len(binom) != 1 or not (isinstance(vis["pre_env"].get(binom[0]), (Poly, int)) and as_poly(vis["pre_env"][binom[0]]).as_int() == 1):
      probs.append("the binomial C(n, k) is not carried as b -> b (n - k) // (k + 1) starting from 1")
    if len(sign) == 1 and len(binom) == 1:
      want = sym.mk("tdiv", carried[sign[0]] * carried[binom[0]] * sym.mk("pow", x - k, n), sym.mk("math.factorial", n))
      okt, d_ = ratfun.equal_terms(delta, want)
      if not okt:
        probs.append("the summand is %r, not (-1)^k C(n, k) (x - k)^n / n!" % (delta,))
  for kd in ("zero", "reflect", "series"):
    if kinds[kd] == 0:
      probs.append("no %s branch" % {"zero": "F = 0 for x <= 0", "reflect": "reflection", "series": "series"}[kd])
  ctx.record(R, f.where, "Irwin-Hall CDF", not probs, "; ".join(sorted(set(probs))) or "0 for x <= 0; 1 - F(n, n - x) for x > n/2; NormalCdf(x, n/2, n/12) above a bound on n; else 1/n! sum (-1)^k C(n,k) (x-k)^n, k = 0..floor(x)")


def _td19(a, b):
  return sym.mk("tdiv", as_poly(a), Poly.const(b))
