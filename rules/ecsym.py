"""Helpers for the elliptic-curve rules: congruence stripping, rational functions over Poly, inverse atoms."""
from __future__ import annotations
from fractions import Fraction
from pcstatic import sym
from pcstatic.poly import Poly, Atom, P
from pcstatic.sym import Const, Seq, as_poly


def mod_strip(p, M):
  """Replaces mod(X, M) by X everywhere (valid when the result is only used up to congruence mod M)."""
  if not isinstance(p, Poly):
    return p
  for _ in range(40):
    target = None
    for a in p.all_atoms():
      if a.kind == "mod" and len(a.args) == 2 and a.args[1] == M:
        target = a
        break
    if target is None:
      return p
    p = sym.rebuild(p.deep_subst(target, target.args[0]))
  return p


class Frac:
  """num/den with Poly numerator and denominator (no normalisation; equality by cross-multiplication)."""
  __slots__ = ("n", "d")

  def __init__(self, n, d=None):
    self.n = n if isinstance(n, Poly) else Poly.const(n)
    self.d = Poly.const(1) if d is None else (d if isinstance(d, Poly) else Poly.const(d))

  def _l(self, o):
    return o if isinstance(o, Frac) else Frac(o)

  def __add__(self, o):
    o = self._l(o)
    if self.d == o.d:
      return Frac(self.n + o.n, self.d)
    return Frac(self.n * o.d + o.n * self.d, self.d * o.d)
  __radd__ = __add__

  def __neg__(self):
    return Frac(-self.n, self.d)

  def __sub__(self, o):
    return self + (-self._l(o))

  def __rsub__(self, o):
    return self._l(o) - self

  def __mul__(self, o):
    o = self._l(o)
    return Frac(self.n * o.n, self.d * o.d)
  __rmul__ = __mul__

  def __truediv__(self, o):
    o = self._l(o)
    return Frac(self.n * o.d, self.d * o.n)

  def __pow__(self, e):
    return Frac(self.n ** e, self.d ** e)

  def equals(self, o):
    o = self._l(o)
    return (self.n * o.d - o.n * self.d).is_zero()

  def residual(self, o):
    o = self._l(o)
    return self.n * o.d - o.n * self.d

  def __repr__(self):
    return "(%r)/(%r)" % (self.n, self.d)


def to_frac(p, amap):
  """Evaluates polynomial p with atoms mapped through amap (Atom -> Frac); other atoms stay indeterminates."""
  tot = Frac(0)
  for mono, c in p.t.items():
    term = Frac(Poly.const(c))
    for a, e in mono:
      base = amap.get(a)
      if base is None:
        base = Frac(Poly.atom(a))
      term = term * (base ** e)
    tot = tot + term
  return tot


def inverse_atoms(p, M):
  """invert(D, M) atoms occurring in p -> {atom: D}"""
  out = {}
  for a in p.all_atoms():
    if a.kind == "invert" and len(a.args) == 2 and a.args[1] == M:
      out[a] = a.args[0]
  return out


def affine_add(x1, y1, x2, y2):
  lam = (y2 - y1) / (x2 - x1)
  x3 = lam * lam - x1 - x2
  y3 = lam * (x1 - x3) - y1
  return x3, y3


def affine_double(x, y, a):
  lam = (3 * x * x + a) / (2 * y)
  x2 = lam * lam - 2 * x
  y2 = lam * (x - x2) - y
  return x2, y2
