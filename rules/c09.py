"""C09 - the nonce relation extracted from an ECDSA signature is exact (identity over Z_n, RFC 6979 truncation, byte conversions)."""
from __future__ import annotations
import ast
from pcstatic import sym, regions
from pcstatic.core import Incomplete
from pcstatic.loader import norm
from pcstatic.poly import Poly, Atom, P
from pcstatic.sym import Const, Seq, as_poly
from .ecsym import mod_strip, Frac, to_frac

META = {
    "level": "proof",
    "trusted_base": ["Python ast parser", "gmpy2.invert(s, n) * s == 1 (mod n)", "`% n` preserves congruence", "int.from_bytes / int.to_bytes semantics",
                     "RFC 6979 section 2.4 (bits2int then reduce) as transcribed in the rule", "pcstatic walker + polynomial algebra + region engine"],
    "assumptions": ["the ECDSA signing equation s = k^-1 (z + r d) mod n (the property's hypothesis)"],
    "explanation": ("HiddenNumberParams is evaluated symbolically: with si*s == 1 the returned pair satisfies a + b*d - si*(z + r*d) == 0 modulo n as a polynomial "
                    "identity, hence k == a + b*d. TransformOrderLen is compared with RFC 6979 bits2int piecewise on hlen <,=,> qlen. Feeds and byte-order agreement of the converters."),
}
SELF = P("param", "self")
N = sym.mk("attr", SELF, "n")


def run(ctx):
  rule_hnp(ctx)
  rule_trunc(ctx)
  rule_feed(ctx)
  rule_bytes(ctx)
  rule_pair(ctx)
  # the pairs (a, b) of an issuer are derived from that issuer's own signatures: the index map and the list it indexes are the same per-curve sub-batch
  # (shared with C08: a pair taken from another signature satisfies k = a + b*d for no nonce of this issuer)
  from . import c08
  ctx.borrow(c08.rule_group, "R-C09-PAIR", lambda r: "BiasedBaseCheck" in r.where)
  ctx.expect("R-C09-PAIR", 3, "BiasedBaseCheck: pairs + partition + per-issuer grouping")
  # the identity is stated modulo self.n: it is the nonce relation only if n is the (prime) order of the generator on every curve (shared with C11)
  from . import c11
  ctx.borrow(c11.rule_curves, "R-C09-HNP")
  ctx.expect("R-C09-HNP", 2 + 9, "identity + modulus agreement + nine curve orders")
  ctx.expect("R-C09-TRUNC", 3, "condition + two pieces")
  ctx.expect("R-C09-FEED", 3, "r, s, z feeds")
  ctx.expect("R-C09-BYTES", 4, "four converters")


def rule_hnp(ctx):
  R = "R-C09-HNP"
  repo = ctx.repo
  f = repo.func("ec_util", "EcCurve.HiddenNumberParams")
  w = sym.Walker(repo, f)
  w.run()
  r, s, z = [P("param", x) for x in f.params()[:3]]
  rets = [e for e in w.events if e.kind == "return" and e.node is not None]
  if len(rets) != 1 or not isinstance(rets[0].data["value"], Seq) or len(rets[0].data["value"].items) != 2:
    ctx.violation(R, f.where, "return (a, b)", "does not return a pair on a single path")
    return
  a, b = [as_poly(x) for x in rets[0].data["value"].items]
  inv = [x for x in (a.all_atoms() | b.all_atoms()) if x.kind == "invert"]
  mods = {repr(x.args[1]) for x in (a.all_atoms() | b.all_atoms()) if x.kind in ("mod", "invert")}
  ok_mod = mods == {repr(N)} and len(inv) == 1 and inv[0].args[0] == s
  ctx.record(R, f.where, "one modulus", ok_mod, "inverse of s and both reductions use self.n" if ok_mod else
             "inverse/reductions use %s (expected only self.n, inverse of s)" % sorted(mods))
  a2, b2 = mod_strip(a, N), mod_strip(b, N)
  d = P("d")
  si = Poly.atom(inv[0]) if inv else P("si")
  goal = a2 + b2 * d - si * (z + r * d)
  ok = goal.is_zero()
  ctx.record(R, f.where, "a + b*d == s^-1 (z + r*d) (mod n)", ok, "polynomial identity with si = invert(s, n): k = s^-1(z + r d) = a + b d" if ok else
             "residual %r: the pair does not encode k = a + b*d" % (goal,))


def rule_trunc(ctx):
  R = "R-C09-TRUNC"
  repo = ctx.repo
  f = repo.func("ec_util", "EcCurve.TransformOrderLen")
  w = sym.Walker(repo, f)
  w.run()
  h, hlen = [P("param", x) for x in f.params()[:2]]
  qlen = sym.mk("bitlen", N)
  rets = [e for e in w.events if e.kind == "return" and e.node is not None]
  shifted, plain = [], []
  for e in rets:
    v = as_poly(e.data["value"])
    conds = [(c, pol) for c, pol, node in e.state.pc]
    if v == sym.mk("mod", sym.mk("shr", h, hlen - qlen), N):
      shifted.append(conds)
    elif v == sym.mk("mod", h, N):
      plain.append(conds)
    else:
      ctx.violation(R, f.where, norm(e.node), "returns %r, which is neither (h >> (hlen - qlen)) %% n nor h %% n" % (v,))
  ok1, d1 = regions.equivalent_dnf(shifted, lambda v: v[hlen] > v[qlen], main=hlen, extra_atoms=[qlen.as_atom()]) if shifted else (False, "the truncating branch is missing")
  ctx.record(R, f.where, "hlen > qlen: (h >> (hlen - qlen)) mod n", ok1, d1)
  ok2, d2 = regions.equivalent_dnf(plain, lambda v: v[hlen] <= v[qlen], main=hlen, extra_atoms=[qlen.as_atom()]) if plain else (False, "the non-truncating branch is missing")
  ctx.record(R, f.where, "hlen <= qlen: h mod n", ok2, d2)
  ctx.record(R, f.where, "qlen = self.n.bit_length()", bool(shifted or plain), "order length taken from the curve order")


def rule_feed(ctx):
  R = "R-C09-FEED"
  repo = ctx.repo
  f = repo.func("ec_util", "ECDSAValues")
  w = sym.Walker(repo, f)
  w.run()
  sig, curve = [P("param", x) for x in f.params()[:2]]
  rets = [e for e in w.events if e.kind == "return" and e.node is not None]
  if len(rets) != 1 or not isinstance(rets[0].data["value"], Seq) or len(rets[0].data["value"].items) != 3:
    ctx.violation(R, f.where, "return (r, s, z)", "does not return a triple")
    return
  r, s, z = [as_poly(x) for x in rets[0].data["value"].items]
  b2i = lambda x: sym.mk("call", P("lit", "util:Bytes2Int"), x)
  ok = r == b2i(sym.mk("attr", sig, "r"))
  ctx.record(R, f.where, "r", ok, "r = Bytes2Int(sig.r)" if ok else "r is %r" % (r,))
  ok = s == b2i(sym.mk("attr", sig, "s"))
  ctx.record(R, f.where, "s", ok, "s = Bytes2Int(sig.s)" if ok else "s is %r" % (s,))
  mh = sym.mk("attr", sig, "message_hash")
  want = sym.mk("mcall", curve, P("lit", "TransformOrderLen"), b2i(mh), sym.mk("len", mh) * 8)
  ok = z == want
  ctx.record(R, f.where, "z", ok, "z = curve.TransformOrderLen(Bytes2Int(hash), 8 * len(hash)) on the same bytes" if ok else "z is %r" % (z,))
  # every HiddenNumberParams call in the checks is fed (r, s, z) = components 0, 1, 2 of one ECDSAValues triple, and the pair it returns is stored
  # as (a[i], b[i]) at one position (read from the walker: unpacking style, loop form and names are irrelevant)
  from . import template as T
  n_calls = 0
  for b in T.bodies(repo):
    if not b.where().startswith("ecdsa_sig_checks:"):
      continue
    seen = set()
    for e in b.events:
      if e.kind != "call" or e.data["name"] != "meth:HiddenNumberParams" or id(e.node) in seen:
        continue
      seen.add(id(e.node))
      n_calls += 1
      args = [as_poly(a_) for a_ in e.data["args"]]
      why = []
      trip = None
      if len(args) == 3:
        ats = [a_.as_atom() for a_ in args]
        if all(a_ is not None and a_.kind == "idx" for a_ in ats) and [as_poly(a_.args[1]).as_int() for a_ in ats] == [0, 1, 2] and len({repr(a_.args[0]) for a_ in ats}) == 1:
          trip = ats[0].args[0]
      if trip is None:
        why.append("arguments are not (t[0], t[1], t[2]) of one triple t")
      elif "ECDSAValues" not in repr(trip):
        why.append("the triple does not come from ec_util.ECDSAValues")
      # the returned pair: stores X[i] = call[0], Y[i] = call[1] at the same i
      cv = as_poly(e.data["value"])
      sts = [x for x in b.events if x.kind == "store" and not isinstance(x.data["value"], Seq) and as_poly(x.data["value"]).as_atom() is not None
             and as_poly(x.data["value"]).as_atom().kind == "idx" and as_poly(x.data["value"]).as_atom().args[0] == cv]
      comp = {}
      for x in sts:
        comp.setdefault(as_poly(as_poly(x.data["value"]).as_atom().args[1]).as_int(), set()).add((repr(as_poly(x.data["base"]))[:0] + repr(as_poly(x.data["index"]))))
      if set(comp) != {0, 1} or comp[0] != comp[1] or len(comp[0]) != 1:
        why.append("the returned (a, b) is not stored as a[i], b[i] at one position")
      ctx.record(R, b.where(), "HiddenNumberParams(r, s, z)", not why, "(a[i], b[i]) from the same (r, s, z) triple in this order" if not why else
                 "argument order / pairing of (r, s, z) changed: " + "; ".join(why))


def rule_bytes(ctx):
  R = "R-C09-BYTES"
  repo = ctx.repo
  f = repo.func("util", "Bytes2Int")
  w = sym.Walker(repo, f)
  w.run()
  bv = P("param", f.params()[0])
  rets = [as_poly(e.data["value"]) for e in w.events if e.kind == "return" and e.node is not None]
  want = sym.mk("pm", P("glob", "int"), P("lit", "from_bytes"), bv, P("lit", "'big'"))
  ok = len(rets) == 1 and rets[0] == want
  ctx.record(R, f.where, "big-endian decode", ok, "int.from_bytes(b, 'big')" if ok else "Bytes2Int is %r" % (rets,))
  f = repo.func("util", "Int2Bytes")
  w = sym.Walker(repo, f)
  w.run()
  iv = P("param", f.params()[0])
  rets = [as_poly(e.data["value"]) for e in w.events if e.kind == "return" and e.node is not None]
  size = sym.mk("fdiv", sym.mk("bitlen", iv) + 7, Poly.const(8))
  want = sym.mk("pm", P("glob", "int"), P("lit", "to_bytes"), iv, size, P("lit", "'big'"))
  ok = len(rets) == 1 and rets[0] == want
  ctx.record(R, f.where, "big-endian minimal encode", ok, "int.to_bytes(x, ceil(bit_length / 8), 'big'): Bytes2Int(Int2Bytes(x)) = x, leading zero bytes are the only lost information" if ok
             else "Int2Bytes is %r" % (rets,))
  # Hex2Bytes by value: every return is bytes.fromhex(T) with T the *parameter itself* on the paths that know its length is even and '0' + parameter on
  # the paths that know it is odd (any rewriting of the text before decoding - stripping, case folding, prefix removal - can drop or add digits)
  f = repo.func("util", "Hex2Bytes")
  w = sym.Walker(repo, f)
  w.run()
  hx = P("param", f.params()[0])
  par = sym.mk("mod", sym.mk("len", hx), Poly.const(2))
  probs = []
  rets = [e for e in w.events if e.kind == "return" and e.node is not None]
  for e in rets:
    va = e.data["value"].as_atom() if isinstance(e.data["value"], Poly) else None
    if va is None or va.kind not in ("mcall", "pm") or len(va.args) != 3 or repr(va.args[0]) != "glob('bytes')" or va.args[1] != P("lit", "fromhex"):
      probs.append("a return is not bytes.fromhex(..): %r" % (e.data["value"],))
      continue
    arg = as_poly(va.args[2])
    odd = any(fc[0] == "cmp" and isinstance(fc[2], Poly) and fc[2] == par and isinstance(fc[3], Poly) and ((fc[1] == "NotEq" and fc[3].as_int() == 0) or (fc[1] == "Eq" and fc[3].as_int() == 1)) for fc in e.facts)
    even = any(fc[0] == "cmp" and isinstance(fc[2], Poly) and fc[2] == par and isinstance(fc[3], Poly) and ((fc[1] == "Eq" and fc[3].as_int() == 0) or (fc[1] == "NotEq" and fc[3].as_int() == 1)) for fc in e.facts)
    if odd and arg == P("lit", "'0'") + hx:
      continue
    if even and arg == hx:
      continue
    probs.append("bytes.fromhex is applied to %s on a path where the length of the argument is %s" % (repr(arg)[:90], "odd" if odd else "even" if even else "not known to be even or odd"))
  if not rets:
    probs.append("no return")
  # the walker's sum does not keep the order of a string concatenation: the padding digit must be the *left* operand wherever a string literal is concatenated
  for x in ast.walk(f.node):
    if isinstance(x, ast.BinOp) and isinstance(x.op, ast.Add) and isinstance(x.right, ast.Constant) and isinstance(x.right.value, str):
      probs.append("a digit is appended on the right (`%s`): an odd-length hex string must be padded on the left" % norm(x))
    if isinstance(x, ast.AugAssign) and isinstance(x.op, ast.Add) and isinstance(x.value, ast.Constant) and isinstance(x.value.value, str):
      probs.append("a digit is appended on the right (`%s`)" % norm(x))
  ctx.record(R, f.where, "odd-length hex left-padded", not probs, "; ".join(probs[:2]) or "'0' + hex for odd lengths, the text itself for even lengths")
  f = repo.func("ec_util", "PublicPoint")
  w = sym.Walker(repo, f)
  w.run()
  key = P("param", f.params()[0])
  rets = [e.data["value"] for e in w.events if e.kind == "return" and e.node is not None]
  b2i = lambda x: sym.mk("call", P("lit", "util:Bytes2Int"), x)
  ok = len(rets) == 1 and isinstance(rets[0], Seq) and [as_poly(x) for x in rets[0].items] == [b2i(sym.mk("attr", key, "x")), b2i(sym.mk("attr", key, "y"))]
  ctx.record(R, f.where, "(x, y) from key.x, key.y", ok, "coordinates decoded in order" if ok else "PublicPoint returns %r" % (rets,))


# ------------------------------------------------------------------ PAIR (what the lattice is given is (a_i, b_i) of the i-th signature, for every i)
def rule_pair(ctx):
  """BiasedBaseCheck.Check: the i-th entries of the two lists handed to the hidden-number solver are HiddenNumberParams(r_i, s_i, z_i)[0] and [1] of the
  same signature i.  Decided on the stores (same call value, same index, the element's own r, s, z) and on the solver calls (the two stored lists, passed
  whole or cut by the same slice, never rebuilt in between - a filtered copy shifts one list against the other)."""
  R = "R-C09-PAIR"
  repo = ctx.repo
  from . import template as T
  bs = [b for b in T.bodies(repo) if b.cls.name == "BiasedBaseCheck"]
  if not bs:
    raise Incomplete("BiasedBaseCheck.Check not found", "ecdsa_sig_checks")
  b = bs[0]

  def root(n):
    while isinstance(n, (ast.Subscript, ast.Attribute)):
      n = n.value
    return n.id if isinstance(n, ast.Name) else None

  ta = tb = None
  probs = []
  n_st = 0
  for e in b.events:
    if e.kind != "store" or not isinstance(e.data["value"], Poly):
      continue
    va = e.data["value"].as_atom()
    if va is None or va.kind != "idx" or not isinstance(va.args[0], Poly) or va.args[0].as_atom() is None:
      continue
    h = va.args[0].as_atom()
    if not (h.kind == "mcall" and repr(h.args[1]) == "lit('HiddenNumberParams')"):
      continue
    n_st += 1
    j = as_poly(va.args[1]).as_int()
    k = as_poly(e.data["index"])
    # the arguments are the three components of the k-th (r, s, z)
    comps = [as_poly(x).as_atom() for x in h.args[2:5]]
    good = len(comps) == 3 and all(c is not None and c.kind == "idx" and as_poly(c.args[1]).as_int() == i_ for i_, c in enumerate(comps))
    if good:
      elems = {repr(c.args[0]) for c in comps}
      el = as_poly(comps[0].args[0]).as_atom()
      good = len(elems) == 1 and el is not None and el.kind == "idx" and as_poly(el.args[1]) == k
    if not good:
      probs.append("HiddenNumberParams is not applied to the (r, s, z) of the element whose slot is written")
    nm = root(e.data["target"])
    if j == 0:
      ta = nm if ta in (None, nm) else "?"
    elif j == 1:
      tb = nm if tb in (None, nm) else "?"
  if n_st == 0 or ta in (None, "?") or tb in (None, "?") or ta == tb:
    probs.append("no pair of lists filled with HiddenNumberParams(..)[0] and [1] at the same index")
  calls = [e for e in b.events if e.kind == "call" and e.data["name"].startswith("repo:hidden_number_problem:HiddenNumberProblem")]
  n_calls = 0
  seen = set()
  for e in calls:
    node = e.node if isinstance(e.node, ast.Call) else next((x for x in ast.walk(e.node) if isinstance(x, ast.Call) and "HiddenNumberProblem" in ast.unparse(x.func)), None)
    if node is None or id(node) in seen:
      continue
    seen.add(id(node))
    n_calls += 1
    if len(node.args) < 2 or root(node.args[0]) != ta or root(node.args[1]) != tb:
      probs.append("`%s` is not given the two stored lists in the order (a, b)" % norm(node)[:70])
      continue
    s0 = ast.dump(node.args[0].slice) if isinstance(node.args[0], ast.Subscript) else None
    s1 = ast.dump(node.args[1].slice) if isinstance(node.args[1], ast.Subscript) else None
    if s0 != s1:
      probs.append("`%s` cuts the two lists differently" % norm(node)[:70])
  if not calls:
    probs.append("the lists never reach the hidden-number solver")
  # the lists are bound once (allocation) and only written element-wise afterwards
  for nm in (ta, tb):
    if nm in (None, "?"):
      continue
    binds = [st for st in ast.walk(b.func.node) if isinstance(st, (ast.Assign, ast.AugAssign, ast.AnnAssign)) and
             any(isinstance(t, ast.Name) and t.id == nm for tg in (st.targets if isinstance(st, ast.Assign) else [st.target]) for t in ([tg] if not isinstance(tg, (ast.Tuple, ast.List)) else tg.elts))]
    if len(binds) != 1:
      probs.append("list `%s` is rebuilt after it was filled (%d bindings): entries of the two lists no longer line up" % (nm, len(binds)))
    muts = [n_ for n_ in ast.walk(b.func.node) if isinstance(n_, ast.Call) and isinstance(n_.func, ast.Attribute) and isinstance(n_.func.value, ast.Name) and n_.func.value.id == nm and
            n_.func.attr in ("pop", "remove", "insert", "sort", "reverse", "append", "extend", "clear")]
    # filling a fresh list by exactly one append per pass of the loop over the signatures is the element-wise fill spelled differently
    # (the walker reports such appends as stores at the pass index): those appends do not restructure anything
    fill_nodes = {id(e.node) for e in b.events if e.kind == "store" and e.data.get("synthetic") and isinstance(e.data["target"].value, ast.Name) and e.data["target"].value.id == nm}
    muts = [n_ for n_ in muts if not (n_.func.attr == "append" and id(n_) in fill_nodes)]
    if muts:
      probs.append("list `%s` is restructured by .%s()" % (nm, muts[0].func.attr))
  ctx.record(R, b.where(), "(a_i, b_i) of the same signature reach the solver aligned", not probs, "; ".join(sorted(set(probs))) or
             "%d stores, %d solver calls: both lists allocated once, written at the element's index, passed whole or equally sliced" % (n_st, n_calls))
