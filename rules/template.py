"""Shared analysis of the sibling `Check` methods (one template, 24 bodies)."""
from __future__ import annotations
import ast
from pcstatic import sym
from pcstatic.core import Incomplete
from pcstatic.loader import Cls, norm
from pcstatic.poly import Poly, Atom, P
from pcstatic.sym import Const, Seq, as_poly

SET_RESULT = "repo:util:SetTestResult"
ATTACH_FACTORS = "repo:util:AttachFactors"
ATTACH_INFO = "repo:util:AttachInfo"
CREATE = "_CreateTestResult"

CHECK_MODULES = ("rsa_single_checks", "rsa_aggregate_checks", "ec_single_checks",
                 "ec_aggregate_checks", "ecdsa_sig_checks")


def base_check_cls(repo):
  return repo.cls("base_check", "BaseCheck")


def is_check_class(repo, c):
  base = base_check_cls(repo)
  return any(k is base for k in repo.mro(c)) and c.module.short != "base_check"


def all_check_classes(repo):
  """Every non-test class deriving from BaseCheck (whole package)."""
  out = []
  for m in repo.modules.values():
    for c in m.classes.values():
      if is_check_class(repo, c):
        out.append(c)
  return out


def check_bodies(repo):
  """(class, Func) for every class that defines its own Check."""
  out = []
  for c in all_check_classes(repo):
    if "Check" in c.methods:
      out.append((c, c.methods["Check"]))
  return out


def registry(repo):
  """Folds paranoid._ACTIVE_* tuples -> {tuple name: [Cls,...]}."""
  m = repo.mod("paranoid")
  out = {}
  for name, node in m.consts.items():
    if name.startswith("_ACTIVE_"):
      if not isinstance(node, (ast.Tuple, ast.List)):
        raise Incomplete("registry %s is not a literal tuple" % name, "paranoid")
      cl = []
      for e in node.elts:
        r = repo.resolve_expr(m, e)
        if not isinstance(r, Cls):
          raise Incomplete("registry entry %s does not resolve to a class" % ast.unparse(e), "paranoid")
        cl.append(r)
      out[name] = cl
  if not out:
    raise Incomplete("no _ACTIVE_* registries found", "paranoid")
  return out


class Body:
  """Symbolic walk of one Check body with the events grouped per loop iteration."""

  def __init__(self, repo, cls, func):
    self.repo = repo
    self.cls = cls
    self.func = func
    self.w = sym.Walker(repo, func, call_model=self._model)
    self.w.run()
    self.events = self.w.events
    self.artifacts = P("param", func.params()[0]) if func.params() else None

  def _model(self, w, name, args, kwargs, node, st, recv):
    if name == "meth:" + CREATE:
      return P("entry", "e%d" % next(w.fresh))   # every call yields a fresh entry
    return None

  def where(self):
    return self.func.where

  def enclosing_loops(self, info):
    """Loop infos whose body lexically contains info's node (outermost first)."""
    out = []
    for other in self.loops():
      if other is info:
        continue
      for x in ast.walk(other["node"]):
        if x is info["node"]:
          out.append(other)
          break
    out.sort(key=lambda o: o["node"].lineno)
    return out

  def calls(self, name):
    return [e for e in self.events if e.kind == "call" and e.data["name"] == name]

  def path_events(self, state, since=0):
    return [self.events[i] for i in state.trace[since:]]

  def loops(self):
    return list(self.w.loop_info.values())

  def result_loops(self):
    """Innermost loops whose own body (not a nested loop's) calls SetTestResult."""
    out = []
    for info in self.loops():
      n = info["node"]
      direct = False
      for st in direct_stmts(n.body):
        for x in ast.walk(st) if not isinstance(st, (ast.For, ast.While)) else []:
          if isinstance(x, ast.Call) and isinstance(x.func, ast.Attribute) and x.func.attr == "SetTestResult":
            direct = True
      if direct:
        out.append(info)
    return out


def direct_stmts(stmts):
  """Statements of a block, descending into if/with/try but not into nested loops."""
  for st in stmts:
    if isinstance(st, ast.If):
      yield ast.Expr(st.test)
      yield from direct_stmts(st.body)
      yield from direct_stmts(st.orelse)
    elif isinstance(st, (ast.With,)):
      yield from direct_stmts(st.body)
    elif isinstance(st, ast.Try):
      yield from direct_stmts(st.body)
      yield from direct_stmts(st.orelse)
      yield from direct_stmts(st.finalbody)
    elif isinstance(st, (ast.For, ast.While)):
      yield st
    else:
      yield st


def is_attr_of(p, attr):
  """p == attr(base, attr) -> base Poly, else None."""
  a = p.as_atom() if isinstance(p, Poly) else None
  if a is not None and a.kind == "attr" and a.args[1] == attr:
    return a.args[0]
  return None


_cache = {}


def bodies(repo):
  key = id(repo)
  if key not in _cache:
    _cache[key] = [Body(repo, c, f) for c, f in check_bodies(repo)]
  return _cache[key]


# ------------------------------------------------------------------ per-curve partitions (shared by C07 / C08 / C17)
FACTORY_REF = "ref('ec_util.CURVE_FACTORY')"


def partition_key(fa, artifacts):
  """fa = filter(artifacts, [<element>.….curve_type == K]) with K independent of the element  ->  K (Poly); otherwise None."""
  from pcstatic import sym as _sym
  if fa is None or fa.kind != "filter" or len(fa.args) != 2 or as_poly(fa.args[0]) != artifacts:
    return None
  ca = fa.args[1].as_atom() if isinstance(fa.args[1], Poly) else None
  conds = _sym.FILTER_CONDS.get(ca.args[0]) if ca is not None and ca.kind == "cond" else None
  if not conds or len(conds) != 1 or conds[0][0] != "cmp" or conds[0][1] != "Eq":
    return None
  for A, K in ((conds[0][2], conds[0][3]), (conds[0][3], conds[0][2])):
    if not isinstance(A, Poly) or not isinstance(K, Poly):
      continue
    a = A.as_atom()
    if a is None or a.kind != "attr" or a.args[1] != "curve_type":
      continue
    root = a
    while root is not None and root.kind == "attr":
      root = as_poly(root.args[0]).as_atom()
    if root is None or root.kind != "idx" or as_poly(root.args[0]) != artifacts:
      continue
    own = {x for x in as_poly(root.args[1]).all_atoms() if x.kind == "bv"}
    if own & K.all_atoms():
      continue
    return K
  return None


def partition_key_source(K, artifacts):
  """'factory' when K runs over the keys of CURVE_FACTORY, 'batch' when it runs over the curve types that occur in the batch, else None:
  either way every supported curve that has artifacts in the batch gets its partition."""
  a = K.as_atom()
  if a is not None and a.kind == "key" and repr(a.args[0]) == FACTORY_REF:
    return "factory"
  if a is not None and a.kind == "idx":
    src = as_poly(a.args[0])
    ats = src.all_atoms()
    if any(x.kind == "attr" and x.args[1] == "curve_type" for x in ats) and artifacts.as_atom() in ats and not any(x.kind == "filter" for x in ats):
      return "batch"
  return None


def factory_lookups(values):
  """keys X of every CURVE_FACTORY[X] / CURVE_FACTORY.get(X, ..) occurring in the given values."""
  out = []
  for v in values:
    if not isinstance(v, Poly):
      continue
    for a in v.all_atoms():
      if a.kind == "idx" and repr(a.args[0]) == FACTORY_REF:
        out.append(as_poly(a.args[1]))
      if a.kind == "mcall" and repr(a.args[0]) == FACTORY_REF and repr(a.args[1]) == "lit('get')" and len(a.args) > 2:
        out.append(as_poly(a.args[2]))
  return out


def rule_all_curves(ctx, R, keep=None):
  """Every supported curve gets its turn: a loop of a Check body over the curve table (ec_util.CURVE_FACTORY.items()) is never left by break / return /
  raise, and a curve is skipped (`continue` before any work) only when it is unsupported (`curve is None`) or nobody in the batch uses it."""
  from pcstatic import sym as _sym
  from pcstatic.poly import Poly as _Poly
  repo = ctx.repo
  n = 0
  for b in bodies(repo):
    f, w = b.func, b.w
    if keep is not None and not keep(f.where):
      continue
    for li in w.loop_info.values():
      if not li["visits"]:
        continue
      it = li["visits"][0]["iter"]
      table_loop = isinstance(it, _Poly) and "CURVE_FACTORY" in repr(it)[:80] and "items" in repr(it)[:120]
      # ... or over the curve ids that occur in the batch itself (the partition key taken from the artifacts)
      batch_loop = False
      ia_ = it.as_atom() if isinstance(it, _Poly) else None
      n_ = 0
      while ia_ is not None and ia_.kind in ("sorted", "set", "list", "tuple") and ia_.args and n_ < 6:
        inner_ = ia_.args[0]
        ia_ = inner_.as_atom() if isinstance(inner_, _Poly) else None
        n_ += 1
      if ia_ is not None and ia_.kind == "map" and len(ia_.args) == 3 and isinstance(ia_.args[0], _Poly):
        ea_ = ia_.args[0].as_atom()
        batch_loop = ea_ is not None and ea_.kind == "attr" and ea_.args[1] == "curve_type" and b.artifacts is not None and ia_.args[2] == b.artifacts
      if not (table_loop or batch_loop):
        continue
      n += 1
      probs = []
      for kind, val, st_, since, vis in li["body_paths"]:
        if kind not in ("fall", "continue"):
          probs.append("the loop over the curve table is left by `%s`: the curves after it are never examined" % kind)
      ctx.record(R, f.where, "every curve of the table gets its turn", not probs, "; ".join(sorted(set(probs))) or "loop over the curve table / the batch's curve ids never left early")
  return n
