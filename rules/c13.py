"""C13 - randomness suite decision rule (state machine over weak orderings, entry points, Fisher combination shape)."""
from __future__ import annotations
import ast
from pcstatic import sym, fold, regions
from pcstatic.core import Incomplete
from pcstatic.loader import norm
from pcstatic.poly import Poly, Atom, P
from pcstatic.sym import Const, Seq, as_poly

META = {
    "level": "other",
    "trusted_base": ["Python ast parser", "pcstatic walker (incl. except-handler paths) + region engine over weak orderings", "collections.defaultdict(list) semantics"],
    "assumptions": ["uniformity of p-values on good generators and failure on the documented weak ones are statistical statements and are not decided"],
    "explanation": ("The PASSED/UNDECIDED/FAILED assignment of TestStructure.Run is extracted per path and compared with the specification on all 13 weak orderings of "
                    "(combined p, fail level, combined repeat level); the finished flag by truth table; entry-point loops and registry by structure; Fisher formula shape."),
}
MOD = "randomness_tests.random_test_suite"
SELF = P("param", "self")


def lit(s):
  return P("lit", s)


def run(ctx):
  rule_state(ctx)
  rule_entry(ctx)
  rule_fisher(ctx)
  # "large matrix rank ... report failure for the xorshift family": the documented detecting matrix (2048 x 2048 at 2^22 bits, 512 x 512 at 2^18)
  # is the largest that fits exactly, so every fitting size must be tested (shared with C12)
  from . import c12
  ctx.borrow(c12.rule_ladder, "R-C13-RANK")
  # "p-values of every test are not systematically small" for good generators: the excursion statistics are only chi-square / normal above 500 cycles
  ctx.borrow(c12.rule_excursion_gate, "R-C13-GATE")
  ctx.borrow(c12.rule_tables, "R-C13-SF", lambda r: "ASYMPTOTIC_RANK_SF" in r.where, ctx.tier)   # a survival probability printed too small fails a good generator
  ctx.expect("R-C13-SF", 33, "33 survival probabilities of the large-rank test")
  rule_ctor(ctx)
  rule_holdout(ctx)
  rule_search(ctx)
  rule_findbias(ctx)
  # a local read on a path that has not bound it raises UnboundLocalError instead of producing the result (analysis shared with C18)
  from . import c18 as _c18
  n_def = _c18.rule_defined(ctx, "R-C13-DEFINED", "C13")
  n_att = _c18.rule_attrs(ctx, "R-C13-ATTRS", "C13")
  ctx.expect("R-C13-DEFINED", 8, "functions of random_test_suite")
  ctx.expect("R-C13-SEARCH", 4, "lattice, multiplier, offset of FindBiasImpl + FindBias wiring")
  ctx.expect("R-C13-HOLDOUT", 1, "FindBiasImpl")
  ctx.expect("R-C13-CTOR", 6, "five constructor parameters + initial state")
  ctx.expect("R-C13-GATE", 1, "500-cycle gate")
  ctx.expect("R-C13-RANK", 3, "loop condition, guard agreement, matrix shape")
  ctx.expect("R-C13-STATE", 7, "seven clauses of Run")
  ctx.expect("R-C13-ENTRY", 5, "TESTS, registry, Failed, two entry points")
  ctx.expect("R-C13-FISHER", 4, "four cases")


def state_values(repo):
  c = repo.cls(MOD, "State")
  vals = {}
  for k, v in c.consts.items():
    x = fold.try_fold(v)
    if isinstance(x, int):
      vals[k] = x
  if set(vals) != {"PASSED", "UNDECIDED", "FAILED"} or len(set(vals.values())) != 3:
    raise Incomplete("State enum is not {PASSED, UNDECIDED, FAILED} with distinct values", MOD)
  return vals


def rule_state(ctx):
  R = "R-C13-STATE"
  repo = ctx.repo
  sv = state_values(repo)
  f = repo.func(MOD, "TestStructure.Run")
  w = sym.Walker(repo, f)
  w.run()
  loops = [i for i in w.loop_info.values() if isinstance(i["node"], ast.For)]
  if len(loops) != 1:
    ctx.violation(R, f.where, "loop over named p-values", "expected exactly one loop over test_result")
    return
  info = loops[0]
  by_state = {"FAILED": [], "PASSED": [], "UNDECIDED": []}
  probs_app, probs_rep, probs_cnt, probs_store = [], [], [], []
  for kind, val, s, since, vis in info["body_paths"]:
    evs = [w.events[i] for i in s.trace[since:]]
    if kind not in ("fall", "continue"):
      probs_store.append("loop over named p-values left by `%s`" % kind)
      continue
    stores = [e for e in evs if e.kind == "store" and ast.unparse(e.data["target"].value) == "self.state"]
    if len(stores) != 1:
      probs_store.append("a path assigns the state %d times" % len(stores))
      continue
    st_val = as_poly(stores[0].data["value"]).as_int()
    name = [k for k, v in sv.items() if v == st_val]
    if not name:
      probs_store.append("unknown state value %r" % (stores[0].data["value"],))
      continue
    head_len = len(vis["head"].pc)
    conds = [(c, pol) for c, pol, node in s.pc[head_len:]]
    by_state[name[0]].append((conds, s, evs, vis))
    # the key is the name of this pair
    key = as_poly(stores[0].data["index"])
    # append before combine
    apps = [e for e in evs if e.kind == "mutate" and e.data["method"] == "append"]
    comb = [e for e in evs if e.kind == "call" and e.data["name"] == "repo:randomness_tests.util:CombinedPValue"]
    if len(apps) != 1 or not comb:
      probs_app.append("new p-value is not appended exactly once / no combination")
    else:
      if w.events.index(apps[0]) > w.events.index(comb[0]):
        probs_app.append("p-value appended after the combination (first combination of an empty list raises)")
      recv = as_poly(apps[0].data["recv"])
      if recv != sym.mk("idx", sym.mk("attr", SELF, "p_values"), key):
        probs_app.append("p-value appended to a list other than self.p_values[name]")
      pv = as_poly(apps[0].data["args"][0])
      el = pv.as_atom()
      ka = key.as_atom()
      if not (el is not None and ka is not None and el.kind == "idx" and ka.kind == "idx" and el.args[0] == ka.args[0] and el.args[1].as_int() == 1 and ka.args[1].as_int() == 0):
        probs_app.append("appended value / state key are not the (name, p_value) components of the same pair")
      # first combination is over that list (after the append)
      a0 = as_poly(comb[0].data["args"][0]).as_atom()
      if not (a0 is not None and a0.kind == "mut" and a0.args[0] == recv):
        probs_app.append("combined p-value is not computed from self.p_values[name] after the append")
      if name[0] != "FAILED":
        if len(comb) < 2:
          probs_rep.append("repeat level is not combined")
        else:
          a1 = as_poly(comb[1].data["args"][0]).as_atom()
          want_len = sym.mk("len", as_poly(comb[0].data["args"][0]))
          if not (a1 is not None and a1.kind == "listrep" and a1.args[0] == P("seq", sym.mk("attr", SELF, "p_value_repeat")) and a1.args[1] == want_len):
            probs_rep.append("repeat level is not CombinedPValue([p_value_repeat] * len(pvals)) for the same pvals")
    # the counter: a loop-carried integer that starts at 0; it grows by one exactly on the UNDECIDED paths (any spelling: +=, x = x + 1, x = 1 + x)
    ctr = [nm for nm in info["modified"] if isinstance(vis["head"].env.get(nm), Poly) and vis["head"].env[nm].as_atom() is not None and vis["head"].env[nm].as_atom().kind == "sym"
           and isinstance(vis["pre_env"].get(nm), (Poly, Const)) and as_poly(vis["pre_env"][nm]).is_zero()]
    if len(ctr) != 1:
      probs_cnt.append("no single counter of undecided names (loop-carried integers starting at 0: %s)" % ctr)
    else:
      d = as_poly(s.env.get(ctr[0])) - vis["head"].env[ctr[0]] if s.env.get(ctr[0]) is not None and not isinstance(s.env.get(ctr[0]), (Seq, tuple)) else None
      if d is None or d.as_int() != (1 if name[0] == "UNDECIDED" else 0):
        probs_cnt.append("`%s` is not incremented exactly on the UNDECIDED paths" % ctr[0])
  # ---- decision table on the 13 weak orderings (per visit of the loop: the symbolic p-values differ per pre-state)
  ok_tab = True
  why_tab = ""
  sample = 0
  visits = []
  for ps in by_state.values():
    for p_ in ps:
      if not any(p_[3] is v for v in visits):
        visits.append(p_[3])
  if not visits:
    ok_tab = False
    why_tab = "no state assignment found"
  for vis in visits:
    bs = {k: [p_ for p_ in v if p_[3] is vis] for k, v in by_state.items()}
    if not all(bs.values()):
      ok_tab = False
      why_tab = "a state is never assigned: %s" % {k: len(v) for k, v in bs.items()}
      break
    pval = fail = rep = None
    for c0, pol in bs["FAILED"][0][0]:
      for c in sym.cond_atoms(c0):
        if c[0] == "cmp":
          sides = [as_poly(a) for a in (c[2], c[3])]
          if any(x == sym.mk("attr", SELF, "p_value_fail") for x in sides):
            fail = sym.mk("attr", SELF, "p_value_fail")
            for x in sides:
              if "CombinedPValue" in repr(x):
                pval = x
    for c0, pol in bs["PASSED"][0][0]:
      for c in sym.cond_atoms(c0):
        if c[0] == "cmp":
          for a in (c[2], c[3]):
            ap = as_poly(a)
            if "CombinedPValue" in repr(ap) and ap != pval:
              rep = ap
    if pval is None or fail is None or rep is None:
      ok_tab = None
      why_tab = "cannot identify combined p-value / fail level / repeat level"
      break
    atoms = [pval.as_atom(), fail.as_atom(), rep.as_atom()]
    for ranks in regions.weak_orderings(3):
      val = regions.Valuation(dict(zip(atoms, ranks)))
      p, fl, rp = ranks
      want = "FAILED" if p < fl else ("PASSED" if rp < p else "UNDECIDED")
      got = []
      try:
        for nm, paths in bs.items():
          for conds, s, evs, _v in paths:
            rel = [(c, pol) for c, pol in conds if "CombinedPValue" in repr(c)]
            if all(regions.eval_cond(c, val) == pol for c, pol in rel):
              got.append(nm)
      except regions.Unknown as u:
        ok_tab = None
        why_tab = str(u)
        break
      sample += 1
      if sorted(set(got)) != [want]:
        ok_tab = False
        why_tab = "ordering (p, fail, repeat) ranks %s: code assigns %s, specification %s" % (ranks, sorted(set(got)), want)
        break
    if ok_tab is not True:
      break
  ctx.record(R, f.where, "FAILED <=> p < fail; else PASSED <=> repeat < p; else UNDECIDED", ok_tab, why_tab or "agrees on all 13 weak orderings of (p, fail level, repeat level) (%d evaluations over %d loop visits)" % (sample, len(visits)))
  ctx.record(R, f.where, "state stored once per named p-value", not probs_store, "; ".join(sorted(set(probs_store))) or "self.state[name] assigned exactly once per pair")
  ctx.record(R, f.where, "append before combine, same list", not probs_app, "; ".join(sorted(set(probs_app))) or "pvals = self.p_values[name]; append; CombinedPValue(pvals)")
  ctx.record(R, f.where, "repeat level combined over the same count", not probs_rep, "; ".join(sorted(set(probs_rep))) or "CombinedPValue([p_value_repeat] * len(pvals))")
  ctx.record(R, f.where, "undecided counts exactly the UNDECIDED names", not probs_cnt, "; ".join(sorted(set(probs_cnt))) or "initialised 0, +1 on UNDECIDED paths only")
  # ---- finished flag
  fin = [e for e in w.events if e.kind == "setattr" and e.data["attr"] == "finished" and not any(c[0] == "opaque" for c, pol, node in e.state.pc)]
  okf = bool(fin)
  df = ""
  for e in fin:
    v = e.data["value"]
    if not isinstance(v, tuple):
      okf = False
      df = "finished is assigned %r" % (v,)
      continue
    und = [a for a in regions.collect([v])[0] if a.kind == "sym"]
    runs = sym.mk("attr", SELF, "runs")
    mr = sym.mk("attr", SELF, "min_repetitions")
    if len(und) != 1:
      okf = False
      df = "finished does not depend on the undecided counter"
      continue
    u = Poly.atom(und[0])
    ok_, d_ = regions.equivalent_mixed([[(v, True)]], lambda val: val[u] == 0 and val[runs] >= val[mr], mains=[u, runs])
    if not ok_:
      okf = ok_
      df = d_
  ctx.record(R, f.where, "finished <=> undecided == 0 and runs >= min_repetitions", okf, df or "truth table over regions of (undecided, runs) with symbolic min_repetitions")
  rets = [e for e in w.events if e.kind == "return" and e.node is not None and not any(c[0] == "opaque" for c, pol, node in e.state.pc)]
  def returns_finished(e):
    v = e.data["value"]
    if isinstance(v, Poly) and v == sym.mk("attr", SELF, "finished"):
      return True
    # the very value that was stored into self.finished on this path (returned through a temporary)
    stored = [w.events[i_] for i_ in e.state.trace if w.events[i_].kind == "setattr" and w.events[i_].data["attr"] == "finished"]
    return bool(stored) and repr(stored[-1].data["value"]) == repr(v)
  okr = bool(rets) and all(returns_finished(e) for e in rets)
  runs_inc = [e for e in w.events if e.kind == "augstore" and ast.unparse(e.data["target"]) == "self.runs"]
  okr = okr and len({id(e.node) for e in runs_inc}) == 1 and all(as_poly(e.data["rhs"]).as_int() == 1 and not e.state.tags for e in runs_inc)
  ctx.record(R, f.where, "returns finished; runs += 1 once per call", okr, "bookkeeping of repetitions" if okr else "Run does not return self.finished / runs is not incremented exactly once")
  # ---- insufficient data
  exc = [e for e in w.events if e.kind == "except"]
  okx = bool(exc) and all("InsufficientDataError" in e.data["exc"] for e in exc)
  hp = [e for e in w.events if any(c[0] == "opaque" for c, pol, node in e.state.pc)]
  okx = okx and any(e.kind == "setattr" and e.data["attr"] == "finished" and isinstance(e.data["value"], Const) and e.data["value"].v is True for e in hp) and \
      any(e.kind == "return" and isinstance(e.data["value"], Const) and e.data["value"].v is True for e in hp) and \
      not any(e.kind == "store" and ast.unparse(e.data["target"].value) == "self.state" for e in hp)
  ctx.record(R, f.where, "InsufficientDataError => finished without a state", okx, "handler sets finished = True, returns True, assigns no state" if okx else
             "insufficient data is not handled as `finished, no verdict`")
  # ---- float wrapping
  # the wrapped value: [(label, <what the test returned>)] bound under an isinstance(.., float/int) test (whatever the local is called)
  tcall = [e.data["value"] for e in w.events if e.kind == "call" and e.data["name"] == "meth:test" and isinstance(e.data.get("value"), Poly)]
  wrap = [e for e in w.events if e.kind == "assign" and isinstance(e.data["value"], Seq) and len(e.data["value"].items) == 1 and isinstance(e.data["value"].items[0], Seq)
          and len(e.data["value"].items[0].items) == 2 and isinstance(e.data["value"].items[0].items[1], Poly) and any(e.data["value"].items[0].items[1] == t_ for t_ in tcall)]
  okw = bool(wrap) and all(len(e.data["value"].items) == 1 and isinstance(e.data["value"].items[0], Seq) and len(e.data["value"].items[0].items) == 2 for e in wrap) and \
      all(any("isinstance" in repr(c) and "float" in repr(c) for c, pol, node in e.state.pc) for e in wrap)
  # the test under which the number is wrapped holds for a float alone and for an int alone (evaluated on the condition tree: `a or b`, `isinstance(x, (float, int))`,
  # nested tests; `a and b` holds for neither)
  def holds(c, typ):
    if c[0] == "const":
      return bool(c[1])
    if c[0] == "not":
      return not holds(c[1], typ)
    if c[0] in ("and", "or"):
      vs = [holds(x, typ) for x in c[1]]
      return all(vs) if c[0] == "and" else any(vs)
    if c[0] in ("truthy", "falsy") and isinstance(c[1], Poly) and c[1].as_atom() is not None and c[1].as_atom().kind == "isinstance":
      v = ("glob('%s')" % typ) in repr(c[1].as_atom().args[1])
      return v if c[0] == "truthy" else not v
    raise ValueError("condition")
  if okw:
    for e in wrap:
      for typ in ("float", "int"):
        try:
          if not all(holds(c, typ) == pol for c, pol, node in e.state.pc if "isinstance" in repr(c)):
            okw = False
        except ValueError:
          okw = False
  ctx.record(R, f.where, "single float wrapped as one named value", okw, "[(name, value)] when the test returns a number" if okw else "plain float results are not wrapped")


def rule_entry(ctx):
  R = "R-C13-ENTRY"
  repo = ctx.repo
  m = repo.mod(MOD)
  # ---- registry
  lists = {}
  for nm in ("NIST_TESTS", "EXTENDED_NIST_TESTS", "LATTICE_TESTS"):
    node = m.consts.get(nm)
    if not isinstance(node, ast.List):
      raise Incomplete("%s is not a literal list" % nm, MOD)
    ent = []
    for e in node.elts:
      if not (isinstance(e, ast.Tuple) and len(e.elts) == 2):
        raise Incomplete("%s entry is not (function, params)" % nm, MOD)
      r = repo.resolve_expr(m, e.elts[0])
      ent.append((r, fold.try_fold(e.elts[1])))
    lists[nm] = ent
  tnode = m.consts.get("TESTS")
  okT = tnode is not None and ast.unparse(tnode).replace(" ", "") in ("NIST_TESTS+EXTENDED_NIST_TESTS+LATTICE_TESTS",)
  ctx.record(R, MOD + ":TESTS", "TESTS = NIST + EXTENDED + LATTICE", okT, "all three suites run" if okT else "TESTS is %s" % (ast.unparse(tnode) if tnode is not None else None))
  registered = {getattr(r, "where", None) for ent in lists.values() for r, _ in ent}
  expected = set()
  for short in ("randomness_tests.nist_suite", "randomness_tests.extended_nist_suite", "randomness_tests.lattice_suite"):
    mm = repo.mod(short)
    for fn in mm.funcs.values():
      ps = fn.params()
      if len(ps) >= 2 and ps[0] == "bits" and ps[1] in ("n", "length") and not fn.name.endswith("Impl") and not fn.name.startswith("_"):
        expected.add(fn.where)
  missing = sorted(expected - registered)
  unresolved = [1 for ent in lists.values() for r, _ in ent if not hasattr(r, "where")]
  ctx.record(R, MOD + ":TESTS", "every public test function is registered", not missing and not unresolved,
             "%d distinct functions, %d (function, parameters) entries" % (len(registered), sum(len(v) for v in lists.values())) if not missing and not unresolved else
             "public test functions not registered: %s" % missing)
  # ---- Failed
  f = repo.func(MOD, "TestStructure.Failed")
  src = norm(f.node.body[-1])
  wF = sym.Walker(repo, f)
  wF.run()
  svF = state_values(repo)
  okF = False
  retsF = [t_ for t_ in wF.terminals if t_[0] == "return"]
  if len(retsF) == 1 and isinstance(retsF[0][1], Poly):
    aF = retsF[0][1].as_atom()
    mF = as_poly(aF.args[0]).as_atom() if aF is not None and aF.kind == "any" and aF.args else None
    if mF is not None and mF.kind == "map" and len(mF.args) == 3:
      elt, bv, srcF = mF.args
      vals = sym.mk("values", sym.mk("attr", SELF, "state"))
      cF = sym.ITE_CONDS.get(elt.as_atom().args[0]) if isinstance(elt, Poly) and elt.as_atom() is not None and elt.as_atom().kind == "cond" else None
      if cF is None and isinstance(elt, Poly) and elt.as_atom() is not None and elt.as_atom().kind == "cond":
        # a bare comparison used as the element: its tree is recoverable from the text only in the simple form  x == <int>
        import re as _re
        mm = _re.search(r"\('cmp', 'Eq', (.*), (\d+)\)$", elt.as_atom().args[0])
        if mm and int(mm.group(2)) == svF["FAILED"] and mm.group(1) == repr(sym.mk("idx", vals, Poly.atom(bv) if not isinstance(bv, Poly) else bv)) and as_poly(srcF) == vals:
          okF = True
  ctx.record(R, f.where, "Failed <=> some state is FAILED", okF, "any(state == FAILED)" if okF else "Failed is `%s`" % src)
  # ---- TestSource / TestBitString: read from the walker (list built by an append loop or a comprehension, `continue` or nested `if`, any names)
  TESTS = P("ref", MOD + ".TESTS")

  def structures(w):
    """[(args, kwargs)] of every TestStructure(...) construction, and whether the list they go into is drawn from TESTS."""
    out = []
    for e in w.events:
      if e.kind == "call" and e.data["name"].endswith("TestStructure"):
        out.append(([as_poly(a) for a in e.data["args"]], {k_: as_poly(v_) for k_, v_ in e.data["kwargs"].items()}, e))
    return out

  def from_tests(w, T_):
    """Is the list T_ built from the TESTS registry (exit value of a loop over TESTS, or a comprehension over it)?"""
    a = T_.as_atom()
    if a is None:
      return False
    if a.kind == "map":
      return "TESTS" in repr(a.args[2])
    for info in w.loop_info.values():
      for vis in info["visits"]:
        if any(sv is not None and not isinstance(sv, (Seq, Const, tuple)) and as_poly(sv) == T_ for sv in vis["after_env"].values()):
          if not isinstance(vis["iter"], Seq) and vis["iter"] is not None and as_poly(vis["iter"]) == TESTS:
            return True
    return False

  def result_lists(w):
    """T for every `return any(x.Failed() for x in T)`; None entries for other non-None returns."""
    out = []
    for kind, val, s_ in w.terminals:
      if kind != "return" or (isinstance(val, Const) and val.v is None):
        continue
      T_ = None
      if not isinstance(val, (Seq, Const, tuple)):
        a = as_poly(val).as_atom()
        if a is not None and a.kind == "any":
          m_ = as_poly(a.args[0]).as_atom()
          if m_ is not None and m_.kind == "map":
            elt, bv, src = m_.args
            bvp = Poly.atom(bv) if not isinstance(bv, Poly) else bv
            if as_poly(elt) == sym.mk("mcall", sym.mk("idx", as_poly(src), bvp), P("lit", "Failed")):
              T_ = as_poly(src)
      out.append((T_, s_))
    return out

  f = repo.func(MOD, "TestSource")
  w = sym.Walker(repo, f)
  w.run()
  probs = []
  n_, fail_, rep_, minrep = [P("param", x) for x in ("n", "significance_level_fail", "significance_level_repeat", "min_repetitions")]
  st = structures(w)
  if not st:
    probs.append("no TestStructure is built")
  for args, kw, e in st:
    k_ = None
    ok_a = len(args) >= 4 and args[2] == fail_ and args[3] == rep_ and kw.get("min_repetitions", args[4] if len(args) > 4 else None) == minrep
    t0 = args[0].as_atom() if args else None
    ok_t = t0 is not None and t0.kind == "idx" and as_poly(t0.args[1]).as_int() == 0 and len(args) > 1 and args[1] == sym.mk("idx", t0.args[0], Poly.const(1)) and "TESTS" in repr(t0.args[0])
    if not ok_a:
      probs.append("TestStructure is not built with (fail level, repeat level, min_repetitions) in this order")
    if not ok_t:
      probs.append("TestStructure is not built from one (function, parameters) entry of TESTS")
  res = result_lists(w)
  if not res or any(T_ is None or not from_tests(w, T_) for T_, s_ in res):
    probs.append("result is not any(test.Failed() for test in tests) over the structures built from TESTS")
  whiles = [i_ for i_ in w.loop_info.values() if isinstance(i_["node"], ast.While) and i_["visits"]]
  if len(whiles) != 1:
    probs.append("expected one repeat loop")
  else:
    wl = whiles[0]
    und = None
    for vis in wl["visits"]:
      hf = vis["head"].facts[len(vis["pre"].facts):]
      tr = [fc for fc in hf if fc[0] == "truthy" and not isinstance(fc[1], Seq)] + [("truthy", fc[2]) for fc in hf if fc[0] == "cmp" and fc[1] in ("NotEq", "Gt") and not isinstance(fc[2], Seq) and as_poly(fc[3]).is_zero()]
      names = [nm for nm, v_ in vis["head"].env.items() if tr and not isinstance(v_, (Seq, Const, tuple)) and v_ is not None and as_poly(v_) == as_poly(tr[0][1])]
      if len(tr) == 1 and names:
        und = names[0]
    if und is None:
      probs.append("repeat loop is not `while <count of unfinished tests>`")
    else:
      inner = [i_ for i_ in w.loop_info.values() if isinstance(i_["node"], ast.For) and any(x is i_["node"] for x in ast.walk(wl["node"]))]
      if len(inner) != 1:
        probs.append("a round does not iterate all tests in one loop")
      else:
        il = inner[0]
        for vis in il["visits"]:
          T_ = None if isinstance(vis["iter"], Seq) or vis["iter"] is None else as_poly(vis["iter"])
          if T_ is None or not from_tests(w, T_):
            probs.append("a round does not iterate the structures built from TESTS")
          pre_u = vis["pre_env"].get(und)
          if not (isinstance(pre_u, (Const, Poly)) and as_poly(pre_u).is_zero()):
            probs.append("the count of unfinished tests is not reset to 0 at the start of a round")
        for kind, val, s_, since, vis in il["body_paths"]:
          if kind not in ("fall", "continue"):
            probs.append("round loop can exit early")
            continue
          if isinstance(vis["iter"], Seq) or vis["iter"] is None:
            continue
          elt = sym.mk("idx", as_poly(vis["iter"]), as_poly(vis["k"]))
          newf = s_.facts[len(vis["head"].facts):]
          fin = [fc[0] for fc in newf if fc[0] in ("truthy", "falsy") and not isinstance(fc[1], Seq) and as_poly(fc[1]) == sym.mk("attr", elt, "finished")]
          runs = [(fc[0], as_poly(fc[1]).as_atom()) for fc in newf if fc[0] in ("truthy", "falsy") and not isinstance(fc[1], Seq) and as_poly(fc[1]).as_atom() is not None
                  and as_poly(fc[1]).as_atom().kind == "mcall" and as_poly(fc[1]).as_atom().args[0] == elt and as_poly(fc[1]).as_atom().args[1] == P("lit", "Run")]
          du = as_poly(s_.env[und]) - as_poly(vis["head"].env[und])
          if fin == ["truthy"]:
            if runs or not du.is_zero():
              probs.append("finished tests are not skipped")
          elif fin == ["falsy"]:
            if len(runs) != 1:
              probs.append("an unfinished test is not run exactly once per round")
              continue
            pol, ra = runs[0]
            bits_v = as_poly(ra.args[2]).as_atom() if len(ra.args) >= 4 else None
            if bits_v is None or bits_v.kind != "lcall" or bits_v.args[0] != P("lit", "source") or as_poly(bits_v.args[1]) != n_ or as_poly(ra.args[3]) != n_:
              probs.append("Run is not called with fresh bits = source(n) and n")
            if (pol == "truthy" and not du.is_zero()) or (pol == "falsy" and not (du - 1).is_zero()):
              probs.append("unfinished tests are not counted as undecided exactly when Run reports not finished")
          else:
            probs.append("a pass of the round loop does not test `finished`")
      # fresh bits once per round
      for kind, val, s_, since, vis in wl["body_paths"]:
        if kind != "fall":
          probs.append("repeat loop left by %s" % kind)
  d1 = f.default_of("significance_level_fail")
  d2 = f.default_of("significance_level_repeat")
  if fold.try_fold(d1) != 1e-9 or fold.try_fold(d2) != 0.01:
    probs.append("default levels are not (repeat 0.01, fail 1e-9)")
  ctx.record(R, f.where, "repeat while some test is unfinished; True iff some sub-test failed", not probs, "; ".join(sorted(set(probs))) or "loop structure and result as specified")
  # ---- TestBitString
  f = repo.func(MOD, "TestBitString")
  w = sym.Walker(repo, f)
  w.run()
  probs = []
  bits_, lvl = P("param", "bits"), P("param", "significance_level")
  st = structures(w)
  if not st:
    probs.append("no TestStructure is built")
  for args, kw, e in st:
    if not (len(args) >= 4 and args[2] == lvl and args[3] == lvl):
      probs.append("fail and repeat level are not the same significance level")
    t0 = args[0].as_atom() if args else None
    if not (t0 is not None and t0.kind == "idx" and as_poly(t0.args[1]).as_int() == 0 and len(args) > 1 and args[1] == sym.mk("idx", t0.args[0], Poly.const(1)) and "TESTS" in repr(t0.args[0])):
      probs.append("TestStructure is not built from one (function, parameters) entry of TESTS")
  res = result_lists(w)
  if not res or any(T_ is None or not from_tests(w, T_) for T_, s_ in res):
    probs.append("result is not any(test.Failed() for test in tests) over the structures built from TESTS")
  if any(isinstance(i_["node"], ast.While) for i_ in w.loop_info.values()):
    probs.append("unexpected repetition loop")
  runl = []
  for i_ in w.loop_info.values():
    for vis in i_["visits"]:
      if isinstance(vis["iter"], Seq) or vis["iter"] is None:
        continue
      # the list the loop walks: itself, its index range or its enumeration
      lst = as_poly(vis["iter"])
      la_ = lst.as_atom()
      if la_ is not None and la_.kind == "enumerate" and len(la_.args) == 1:
        lst = as_poly(la_.args[0])
      elif la_ is not None and la_.kind == "range" and len(la_.args) == 1 and as_poly(la_.args[0]).as_atom() is not None and as_poly(la_.args[0]).as_atom().kind == "len":
        lst = as_poly(as_poly(la_.args[0]).as_atom().args[0])
      if not from_tests(w, lst):
        continue
      runl.append(i_)
      elt = sym.mk("idx", lst, as_poly(vis["k"]))
      for kind, val, s_, since, v2 in i_["body_paths"]:
        if v2 is not vis:
          continue
        evs = [w.events[x] for x in s_.trace if x >= since]
        rc = [e for e in evs if e.kind == "call" and e.data["name"] == "meth:Run" and as_poly(e.data["recv"]) == elt]
        if kind != "fall" or len(rc) != 1 or [as_poly(a) for a in rc[0].data["args"]] != [bits_, n_]:
          probs.append("every test is not run exactly once on (bits, n)")
  if not runl:
    probs.append("every test is not run exactly once on (bits, n)")
  if fold.try_fold(f.default_of("significance_level")) != 1e-9:
    probs.append("default level is not 1e-9")
  ctx.record(R, f.where, "each test once with fail = repeat level; True iff some sub-test failed", not probs, "; ".join(sorted(set(probs))) or "single pass")


def rule_fisher(ctx):
  R = "R-C13-FISHER"
  repo = ctx.repo
  f = repo.func("randomness_tests.util", "CombinedPValue")
  w = sym.Walker(repo, f)
  w.run()
  pv = P("param", f.params()[0])
  raises = [e for e in w.events if e.kind == "raise"]
  ok = bool(raises) and all(any(f_[0] == "falsy" and as_poly(f_[1]) == pv for f_ in e.facts) for e in raises)
  ctx.record(R, f.where, "empty -> raise", ok, "ValueError for an empty sample" if ok else "empty list is not rejected")
  rets = [e for e in w.events if e.kind == "return" and e.node is not None]
  one = [e for e in rets if as_poly(e.data["value"]) == sym.mk("idx", pv, Poly.const(0))]
  ok = bool(one) and all(any(f_[0] == "cmp" and f_[1] == "Eq" and as_poly(f_[2]) == sym.mk("len", pv) and as_poly(f_[3]).as_int() == 1 for f_ in e.facts) for e in one)
  ctx.record(R, f.where, "one value -> itself", ok, "single p-value returned unchanged" if ok else "singleton case changed")
  zero = [e for e in rets if as_poly(e.data["value"]).as_int() == 0]
  ok = bool(zero) and all(any(f_[0] == "cmp" and f_[1] == "Eq" and "min(" in repr(as_poly(f_[2])) and as_poly(f_[3]).is_zero() for f_ in e.facts) for e in zero)
  ctx.record(R, f.where, "min = 0 -> 0", ok, "zero shortcut (log 0 avoided)" if ok else "zero p-value is not short-circuited to 0")
  gen = [e for e in rets if "Igamc" in repr(as_poly(e.data["value"]))]
  ok = False
  for e in gen:
    a = as_poly(e.data["value"]).as_atom()
    if a is not None and a.kind == "call" and a.args[1] == sym.mk("len", pv):
      s_ = a.args[2].as_atom()
      if s_ is not None and s_.kind == "sum":
        g = s_.args[0].as_atom()
        if g is not None and g.kind == "map" and g.args[2] == pv:
          elt = g.args[0]
          x = sym.mk("idx", pv, Poly.atom(g.args[1]))
          ok = (elt + sym.mk("math.log", x)).is_zero()
  ctx.record(R, f.where, "Igamc(len, sum -log p)", ok, "Fisher's method: Erlang survival function" if ok else "general case is not Igamc(len(p), -sum(log p))")


# ------------------------------------------------------------------ CTOR (the levels and the repetition minimum the caller asked for are the ones decided with)
def rule_ctor(ctx):
  R = "R-C13-CTOR"
  repo = ctx.repo
  c = repo.cls(MOD, "TestStructure")
  f = repo.find_method(c, "__init__")
  w = sym.Walker(repo, f)
  w.run()
  sets = {}
  for e in w.events:
    if e.kind == "setattr" and not isinstance(e.data["value"], (Seq, tuple)) and e.data["value"] is not None and as_poly(e.data["base"]) == SELF:
      sets.setdefault(e.data["attr"], e.data["value"])
  for q in [q for q in f.params() if q != "self"]:
    pq = P("param", q)
    pa = pq.as_atom()
    holders = [(a, v) for a, v in sets.items() if not isinstance(v, Const) and pa in as_poly(v).all_atoms()]
    same = [a for a, v in holders if as_poly(v) == pq]
    changed = []
    for a, v in holders:
      v = as_poly(v)
      if v == pq:
        continue
      va = v.as_atom()
      leaf = {x for x in v.all_atoms() if x.kind in ("param", "sym", "attr", "call", "mcall")}
      if leaf == {pa} and not (va is not None and va.kind in ("int", "float", "str", "list", "tuple")):
        if va is not None and va.kind == "max" and len(va.args) == 2 and any(as_poly(x) == pq for x in va.args) and any((as_poly(x).as_int() or 99) <= 1 for x in va.args):
          same.append(a)      # max(1, min_repetitions): a test is run at least once anyway
          continue
        changed.append((a, v))
    if changed:
      ctx.violation(R, f.where, "parameter %s kept as given" % q, "self.%s = %r: the decision structure works with a different value than the caller asked for" % (changed[0][0], changed[0][1]))
    elif same:
      ctx.ok(R, f.where, "parameter %s kept as given" % q, "stored unchanged in self.%s" % same[0])
    else:
      ctx.violation(R, f.where, "parameter %s kept as given" % q, "the parameter is not stored: the decision structure cannot use it")
  init = {a: v for a, v in sets.items()}
  r0 = init.get("runs")
  fin0 = init.get("finished")
  ok0 = r0 is not None and not isinstance(r0, Const) and as_poly(r0).as_int() == 0 or (isinstance(r0, Const) and r0.v == 0)
  okf = isinstance(fin0, Const) and fin0.v is False
  ctx.record(R, f.where, "starts with runs = 0, not finished", bool(ok0 and okf), "initial state" if ok0 and okf else "runs starts at %r, finished at %r" % (r0, fin0))


# ------------------------------------------------------------------ HOLDOUT (FindBias: the p-value is computed on blocks the multiplier was not fitted on)
def rule_holdout(ctx):
  """lattice_suite.FindBiasImpl searches a multiplier c (LLL) and an offset d (PseudoAverage) on a training prefix sample[:T] and must measure the bias on the
  remaining blocks sample[T:] only: on the fitted blocks every generator looks biased, which pushes the p-values of good generators towards 0."""
  R = "R-C13-HOLDOUT"
  repo = ctx.repo
  f = repo.func("randomness_tests.lattice_suite", "FindBiasImpl")
  w = sym.Walker(repo, f)
  w.run()
  sample = P("param", f.params()[0])

  def prefix_end(p_):
    a_ = as_poly(p_).as_atom() if isinstance(p_, Poly) else None
    if a_ is not None and a_.kind == "slice" and len(a_.args) == 4 and as_poly(a_.args[0]) == sample and repr(a_.args[3]) == "lit('None')" and \
       (repr(a_.args[1]) == "lit('None')" or as_poly(a_.args[1]).as_int() == 0) and repr(a_.args[2]) != "lit('None')":
      return as_poly(a_.args[2])
    return None

  def suffix_start(p_):
    a_ = as_poly(p_).as_atom() if isinstance(p_, Poly) else None
    if a_ is not None and a_.kind == "slice" and len(a_.args) == 4 and as_poly(a_.args[0]) == sample and repr(a_.args[3]) == "lit('None')" and \
       repr(a_.args[2]) == "lit('None')" and repr(a_.args[1]) != "lit('None')":
      return as_poly(a_.args[1])
    return None
  lat = [e for e in w.events if e.kind == "call" and e.data["name"].endswith(":GetLattice") and e.data["args"]]
  bias = [e for e in w.events if e.kind == "call" and e.data["name"].endswith("lattice_suite:Bias") and e.data["args"]]
  probs = []
  T_ = {repr(prefix_end(e.data["args"][0])) for e in lat}
  if not lat or "None" in T_ or len(T_) != 1:
    probs.append("the lattice is not built from a prefix sample[:T]")
  for e in bias:
    st = suffix_start(e.data["args"][0])
    if st is None:
      probs.append("the p-value is computed on %s, not on the held-out blocks sample[T:]: blocks the multiplier was fitted on are counted" % repr(as_poly(e.data["args"][0]))[:60])
    elif lat and repr(st) not in T_:
      probs.append("the held-out part starts at %s, the training prefix ends at %s" % (repr(st)[:40], sorted(T_)[0][:40]))
  if not bias:
    probs.append("no Bias call")
  rets = [t_ for t_ in w.terminals if t_[0] == "return"]
  if bias and not all(isinstance(t_[1], Poly) and any(t_[1] == as_poly(e.data["value"]) for e in bias) for t_ in rets):
    probs.append("the returned p-value is not the held-out bias")
  ctx.record(R, f.where, "p-value from blocks not used for fitting", not probs, "; ".join(sorted(set(probs))) or "GetLattice(sample[:T]) / Bias(sample[T:])")


def rule_search(ctx):
  """'lattice bias search for the truncated-LCG, Lehmer, java.util.Random and MWC generators reports failure': the search can only find a multiplier its
  lattice contains, tries the reduced rows shortest first, and must measure (x c + d) mod n with the c it found and the d fitted for that c.
  Decided on structure: (1) the basis built from the training blocks is the documented one (write table of GetLattice, with the arguments of the call
  substituted); (2) the multiplier is row[0] mod n of the first reduced row with c0 != 0 and gcd(c0, n)^2 < n, else 1; (3) d = -PseudoAverage([x c mod n]) mod n
  over the training blocks and the p-value is Bias(held-out blocks, n, [(c, d)]) with the same c."""
  from pcstatic import wtable
  R = "R-C13-SEARCH"
  repo = ctx.repo
  LS = "randomness_tests.lattice_suite"
  g = repo.func(LS, "GetLattice")
  gw = sym.Walker(repo, g)
  gw.run()
  f = repo.func(LS, "FindBiasImpl")
  w = sym.Walker(repo, f)
  w.run()
  sample, N, Wp = (P("param", x) for x in f.params()[:3])
  gparams = g.params()
  calls = [e for e in w.events if e.kind == "call" and e.data["name"] == "repo:%s:GetLattice" % LS]
  probs, und = [], None
  if not calls:
    ctx.incomplete(R, f.where, "lattice of the training blocks", "no GetLattice call")
    return
  tabs = []
  for kind, val, st in gw.terminals:
    if kind == "return" and wtable.feasible(st):
      try:
        tabs.append(wtable.extract(gw, st, val))
      except Incomplete as ex:
        und = str(ex)
  if not tabs and und is None:
    und = "GetLattice returns no matrix"
  train = None
  for e in calls:
    args = {}
    for i_, a_ in enumerate(e.data["args"]):
      if i_ < len(gparams):
        args[gparams[i_]] = a_
    for k_, a_ in e.data["kwargs"].items():
      args[k_] = a_
    if set(args) != set(gparams[:3]) or not all(isinstance(a_, (Poly, int)) for a_ in args.values()):
      und = "call arguments of GetLattice not resolved"
      continue
    A_, W_, N_ = (as_poly(args[p_]) for p_ in gparams[:3])
    train = A_
    w_none = any(fc[0] == "cmp" and fc[1] == "Is" and isinstance(fc[2], Poly) and fc[2] == Wp for fc in e.state.facts)
    if not (N_ - N).is_zero():
      probs.append("the modulus handed to GetLattice is %r" % (N_,))
    if not ((W_ - Wp).is_zero() if not w_none else (W_.as_int() is not None and W_.as_int() > 1)):
      probs.append("the weight handed to GetLattice is %r" % (W_,))
    for tab in tabs:
      try:
        for m in (3, 4, 6):
          env = [(sym.mk("len", P("param", gparams[0])).as_atom(), m)]
          grid = wtable.instantiate(tab, env)
          sub = [(P("param", gparams[0]).as_atom(), A_), (P("param", gparams[1]).as_atom(), W_), (P("param", gparams[2]).as_atom(), N_)]
          grid = [[wtable.subst_all(c_, sub) for c_ in row] for row in grid]
          size = m + 1
          zero = Poly.const(0)
          spec = [[zero] * size for _ in range(size)]
          spec[0][0] = Poly.const(1)
          for i in range(1, size):
            spec[0][i] = sym.mk("idx", A_, Poly.const(i - 1)) * W_
            spec[1][i] = W_
            if i > 1:
              spec[i][i] = N_ * W_
          d = wtable.diff(grid, spec)
          if d:
            probs.append("with %d training blocks: %s" % (m, d))
            break
      except Incomplete as ex:
        und = str(ex)
      except IndexError as ex:
        probs.append(str(ex))
  if und:
    ctx.incomplete(R, f.where, "lattice of the training blocks", und)
  else:
    ctx.record(R, f.where, "lattice of the training blocks", not probs, "; ".join(sorted(set(probs))) or "(1, a_i w ..), (0, w .. w), n w e_i for i >= 2, at 3, 4 and 6 training blocks")
  # ---- the multiplier
  probs = []
  red = [e for e in w.events if e.kind == "call" and e.data["name"] == "repo:lll:reduce" and e.data["args"] and isinstance(e.data["args"][0], Poly)]
  lat_vals = [as_poly(e.data["value"]) for e in calls]
  if not red or not all(any(as_poly(e.data["args"][0]) == lv for lv in lat_vals) for e in red):
    probs.append("the lattice is not handed to lll.reduce")
  red_vals = [as_poly(e.data["value"]) for e in red]
  loops = [li for li in w.loop_info.values() if isinstance(li["node"], ast.For) and li["visits"] and any(isinstance(v_["iter"], Poly) and any(v_["iter"] == rv for rv in red_vals) for v_ in li["visits"])]
  if len(loops) != 1:
    ctx.incomplete(R, f.where, "multiplier from the shortest usable row", "expected one loop over the reduced basis")
    return
  li = loops[0]
  cands = set()
  for v_ in li["visits"]:
    k = as_poly(v_["k"])
    C0 = sym.mk("mod", sym.mk("idx", sym.mk("idx", as_poly(v_["iter"]), k), Poly.const(0)), N)
    cands.add(C0)
    want_t = [("cmp", "NotEq", C0, 0), ("cmp", "Lt", sym.mk("gcd", C0, N) ** 2, N)]
    nb = 0
    for kind, val, st, since, vis in li["body_paths"]:
      if vis is not v_:
        continue
      newf = st.facts[len(v_["head"].facts):]
      rels = [_rel13(fc) for fc in newf]
      acc = all(any(r_ is not None and r_ == _rel13(t_) for r_ in rels) for t_ in want_t)
      carried = [n_ for n_, x_ in st.env.items() if isinstance(x_, Poly) and x_ == C0 and isinstance(v_["head"].env.get(n_), Poly) and v_["head"].env.get(n_) != C0]
      if kind == "break":
        nb += 1
        if not acc:
          probs.append("a row is accepted without c0 != 0 and gcd(c0, n)^2 < n (conditions on the path: %r)" % ([fc for fc in newf if fc[0] == "cmp"],))
      elif kind in ("fall", "continue"):
        if acc:
          probs.append("a usable row does not end the search: a later, longer row replaces the multiplier")
      else:
        probs.append("the search is left by %s" % kind)
    if nb == 0:
      probs.append("no row ever ends the search")
  # ---- offset and p-value
  probs3 = []
  bias = [e for e in w.events if e.kind == "call" and e.data["name"] == "repo:%s:Bias" % LS]
  rets = [t_ for t_ in w.terminals if t_[0] == "return"]
  if not bias or not rets or not all(isinstance(t_[1], Poly) and any(t_[1] == as_poly(e.data["value"]) for e in bias) for t_ in rets):
    probs3.append("the result is not the p-value of Bias")
  seen_c = set()
  for e in bias:
    a_ = e.data["args"]
    tr = a_[2] if len(a_) > 2 else e.data["kwargs"].get("transforms")
    if not (isinstance(tr, Seq) and len(tr.items) == 1 and isinstance(tr.items[0], Seq) and len(tr.items[0].items) == 2):
      probs3.append("Bias is not given the single transform [(c, d)]")
      continue
    c_, d_ = as_poly(tr.items[0].items[0]), as_poly(tr.items[0].items[1])
    seen_c.add(c_)
    if len(a_) > 1 and not (as_poly(a_[1]) - N).is_zero():
      probs3.append("Bias is given the modulus %r" % (a_[1],))
    if not (c_.as_int() == 1 or c_ in cands):
      probs3.append("the multiplier measured is %r, not the one found (row[0] mod n) or the default 1" % (c_,))
    da = d_.as_atom()
    okd = False
    if da is not None and da.kind == "mod" and (as_poly(da.args[1]) - N).is_zero():
      pa_ = (-as_poly(da.args[0])).as_atom()
      if pa_ is not None and pa_.kind == "call" and repr(pa_.args[0]) == "lit('%s:PseudoAverage')" % LS and len(pa_.args) >= 3 and (as_poly(pa_.args[2]) - N).is_zero():
        ma = as_poly(pa_.args[1]).as_atom()
        if ma is not None and ma.kind == "map" and train is not None and as_poly(ma.args[2]) == train:
          bv = ma.args[1]
          want = sym.mk("mod", sym.mk("idx", train, Poly.atom(bv)) * c_, N)
          okd = (as_poly(ma.args[0]) - want).is_zero()
    if not okd:
      probs3.append("the offset is %r, not -PseudoAverage([x c mod n for x in training blocks], n) mod n for the multiplier measured" % (d_,))
  if not any(c_ in cands for c_ in seen_c):
    probs.append("the multiplier found never reaches the measurement")
  ctx.record(R, f.where, "multiplier from the shortest usable row", not probs, "; ".join(sorted(set(probs))) or "first reduced row with c0 = row[0] mod n != 0 and gcd(c0, n)^2 < n ends the search; default 1")
  ctx.record(R, f.where, "offset and measurement", not probs3, "; ".join(sorted(set(probs3))) or "d = -PseudoAverage([x c mod n], n) mod n on the training blocks; Bias(held-out, n, [(c, d)])")


def rule_findbias(ctx):
  """FindBias cuts the bit string into blocks of block_size bits and searches modulo 2^block_size (the blocks are the integers 0 .. 2^block_size - 1);
  the default block size is the documented 256 bits (the statement's 'up-to-256-bit multiply-with-carry generators' need blocks at least that wide)."""
  R = "R-C13-SEARCH"
  repo = ctx.repo
  LS = "randomness_tests.lattice_suite"
  f = repo.func(LS, "FindBias")
  w = sym.Walker(repo, f)
  w.run()
  bits, length, bs = (P("param", x) for x in f.params()[:3])
  probs = []
  rets = [t_[1] for t_ in w.terminals if t_[0] == "return"]
  blocks = sym.mk("call", P("lit", "randomness_tests.util:SplitSequence"), bits, length, bs)
  want = sym.mk("call", P("lit", LS + ":FindBiasImpl"), blocks, sym.mk("pow", Poly.const(2), bs))
  if not rets or not all(isinstance(v, Poly) and v == want for v in rets):
    probs.append("the result is %r, not FindBiasImpl(SplitSequence(bits, length, block_size), 2 ** block_size)" % (rets[:1],))
  d = f.default_of(f.params()[2])
  dv = fold.try_fold(d) if d is not None else None
  if dv != 256:
    probs.append("the default block size is %r, the documented one is 256" % (dv,))
  ctx.record(R, f.where, "blocks of block_size bits searched modulo 2^block_size (default 256)", not probs, "; ".join(probs) or "FindBiasImpl(SplitSequence(bits, length, b), 2^b), b = 256 by default")


def _rel13(fc):
  """normal form of a comparison: (rel, l - r) with Gt / GtE mirrored"""
  if not (isinstance(fc, tuple) and len(fc) == 4 and fc[0] == "cmp" and isinstance(fc[2], (Poly, int)) and isinstance(fc[3], (Poly, int))):
    return None
  l, r = (Poly.const(x) if isinstance(x, int) else as_poly(x) for x in (fc[2], fc[3]))
  op = fc[1]
  if op in ("Gt", "GtE"):
    l, r = r, l
    op = {"Gt": "Lt", "GtE": "LtE"}[op]
  d = l - r
  if op in ("Eq", "NotEq"):
    return (op, repr(d)) if repr(d) <= repr(-d) else (op, repr(-d))
  return (op, repr(d))
