"""C05 - patterned / sparse / smooth primes: enumerations and cut-offs the detection region depends on (constants only; lattice success not decided)."""
from __future__ import annotations
import ast
from pcstatic import sym, fold
from pcstatic.core import Incomplete
from pcstatic.loader import norm
from pcstatic.poly import Poly, Atom, P
from pcstatic.sym import Const, Seq, as_poly
from . import template as T
from .c01 import modulus_of, lit

META = {
    "level": "other",
    "trusted_base": ["Python ast parser", "pcstatic constant folder and walker"],
    "assumptions": ["that the lattice reduction / best-first search then succeeds inside the stated region is NOT decided (runtime behaviour of LLL and heuristics)"],
    "explanation": ("Necessary conditions of the detection region: default pattern-size list, size cut-offs at least as generous as stated, the permuted-pattern "
                    "denominator equal to the documented formula, Pollard defaults and gate, Hamming-weight thresholds; every enumerated candidate is tried (no early exit)."),
}
SELF = P("param", "self")
RS = "rsa_single_checks"


def body(repo, cls):
  for b in T.bodies(repo):
    if b.where() == "%s:%s.Check" % (RS, cls):
      return b
  raise Incomplete("%s.Check vanished" % cls, RS)


def run(ctx):
  rule_sizes(ctx)
  rule_cut(ctx)
  rule_denom(ctx)
  rule_pm1(ctx)
  rule_hw(ctx)
  rule_hw_prune(ctx)
  rule_constructions(ctx)
  from . import c04
  c04.rule_exhaust(ctx, c04.SEARCH_FUNCS_C05, "R-C05-EXHAUST")
  ctx.expect("R-C05-EXHAUST", 5, "five candidate-search functions of the patterned / sparse families")
  ctx.expect("R-C05-CONSTRUCT", 4, "lattice, candidates, convergents, quadratic")
  ctx.expect("R-C05-SIZES", 2, "default list + override")
  ctx.expect("R-C05-CUT", 5, "two checks")
  ctx.expect("R-C05-DENOM", 2, "two denominators")
  ctx.expect("R-C05-PM1", 8, "default product, bound product, FastProduct tree, gate, both-smooth, default")
  ctx.expect("R-C05-HW", 4, "thresholds + defaults + verdict + pruning")


def fold_block(stmts, name, env=None):
  """Folds a straight-line block that builds `name` (Assign / AugAssign)."""
  env = dict(env or {})
  fl = fold.Folder(env)
  for s in stmts:
    if isinstance(s, ast.Assign) and len(s.targets) == 1 and isinstance(s.targets[0], ast.Name):
      fl.env[s.targets[0].id] = fl.fold(s.value, fl.env)
    elif isinstance(s, ast.AugAssign) and isinstance(s.target, ast.Name):
      cur = fl.env[s.target.id]
      rhs = fl.fold(s.value, fl.env)
      fl.env[s.target.id] = fold.BIN[type(s.op)](cur, rhs)
    elif isinstance(s, ast.Expr) and isinstance(s.value, ast.Constant):
      continue
    else:
      raise fold.NotConst("statement %s" % type(s).__name__)
  return fl.env.get(name)


def rule_sizes(ctx):
  """The sizes tried by CheckBitPatterns, read off the VALUE the size loop iterates over: when the constructor argument is None it is the documented
  default list (as a set: 1..15 odd, 2^k - 1 for 31..511, powers of two 8..256), otherwise it is exactly the supplied list."""
  from pcstatic import wtable
  R = "R-C05-SIZES"
  repo = ctx.repo
  b = body(repo, "CheckBitPatterns")
  w = b.w
  need = set(range(1, 16, 2)) | {31, 63, 127, 255, 511} | {8, 16, 32, 64, 128, 256}
  calls = b.calls("repo:rsa_util:CheckFraction")
  call_nodes = {id(e.node) for e in calls}
  user = sym.mk("attr", P("param", "self"), "_pattern_sizes")
  seen_default, seen_user, probs_d, probs_u = 0, 0, [], []
  for li in w.loop_info.values():
    if not isinstance(li["node"], ast.For) or not any(id(x) in call_nodes for x in ast.walk(li["node"])):
      continue
    if any(isinstance(x, (ast.For, ast.While)) and x is not li["node"] and any(id(y) in call_nodes for y in ast.walk(x)) for x in ast.walk(li["node"])):
      continue          # an enclosing loop (over the keys): the size loop is the innermost one around the call
    for vis in li["visits"]:
      it = vis["iter"]
      facts = vis["head"].facts
      is_none = any(fc[0] == "cmp" and fc[1] in ("Is", "Eq") and isinstance(fc[2], Poly) and fc[2] == user and isinstance(fc[3], Const) and fc[3].v is None for fc in facts)
      not_none = any(fc[0] == "cmp" and fc[1] in ("IsNot", "NotEq") and isinstance(fc[2], Poly) and fc[2] == user and isinstance(fc[3], Const) and fc[3].v is None for fc in facts)
      if is_none:
        seen_default += 1
        items = wtable.list_items(it, [], unordered_ok=True) if not isinstance(it, Seq) else [as_poly(x) for x in it.items if not isinstance(x, (Seq, tuple))]
        vals = [x.as_int() for x in items] if items is not None else None
        if vals is None or any(v is None for v in vals):
          probs_d.append("UNDECIDED the default list %r is not a list of known integers" % (it,))
        else:
          missing = sorted(need - set(vals))
          if missing:
            probs_d.append("documented default size(s) missing: %s" % missing)
      elif not_none:
        seen_user += 1
        if not (isinstance(it, Poly) and it == user):
          probs_u.append("with a supplied list the sizes tried are %r, not the supplied list" % (it,))
      else:
        probs_u.append("the sizes tried do not depend on whether a list was supplied")
  if seen_default == 0:
    probs_d.append("no default list is installed when none is supplied")
  if any(p_.startswith("UNDECIDED") for p_ in probs_d):
    ctx.incomplete(R, b.where(), "default pattern sizes", "; ".join(sorted(set(probs_d))))
  else:
    ctx.record(R, b.where(), "default pattern sizes", not probs_d, "; ".join(sorted(set(probs_d))) or "covers 1..15 odd, 2^k - 1 (31..511), powers of two 8..256")
  init = b.cls.methods.get("__init__")
  oki = False
  if init is not None:
    wi = sym.Walker(repo, init)
    wi.run()
    sets = [e for e in wi.events if e.kind == "setattr" and e.data["attr"] == "_pattern_sizes"]
    oki = bool(sets) and all(isinstance(e.data["value"], Poly) and e.data["value"] == P("param", "pattern_sizes") for e in sets) and \
        init.default_of("pattern_sizes") is not None and fold.try_fold(init.default_of("pattern_sizes"), default="x") is None
  if seen_user == 0:
    probs_u.append("a supplied list is never used")
  if not oki:
    probs_u.append("the constructor does not keep the supplied list (default None)")
  ctx.record(R, b.where(), "user list replaces the default only when given", not probs_u, "; ".join(sorted(set(probs_u))) or "None -> default list, otherwise the supplied list")


def rule_cut(ctx):
  """Cut-offs of the two pattern checks, read off the path facts of the `continue` / `break` events and the loop iterables (values, not names)."""
  R = "R-C05-CUT"
  repo = ctx.repo

  def size_bound(fc):
    """cmp fact `x > bit_length(n) // K` (either spelling) -> (x, K)"""
    if fc[0] != "cmp" or fc[1] not in ("Gt", "Lt") or not isinstance(fc[2], Poly) or not isinstance(fc[3], Poly):
      return None
    big, small = (fc[2], fc[3]) if fc[1] == "Gt" else (fc[3], fc[2])
    a = small.as_atom()
    if a is not None and a.kind == "fdiv" and as_poly(a.args[0]).as_atom() is not None and as_poly(a.args[0]).as_atom().kind == "bitlen" and as_poly(a.args[1]).as_int():
      return big, as_poly(a.args[1]).as_int()
    return None
  b = body(repo, "CheckBitPatterns")
  calls = b.calls("repo:rsa_util:CheckFraction")
  Ks = set()
  okc = False
  for e in b.events:
    if e.kind != "continue":
      continue
    for fc in e.facts:
      sb = size_bound(fc)
      if sb is not None and sb[0].as_atom() is not None and sb[0].as_atom().kind == "idx":
        Ks.add(sb[1])
        okc = True
  # the same cut written as a guard around the attempt: `if not size > limit: CheckFraction(..)`
  for e in calls:
    for fc in e.facts:
      if fc[0] == "cmp" and fc[1] in ("LtE", "GtE") and isinstance(fc[2], Poly) and isinstance(fc[3], Poly):
        sb = size_bound(("cmp", "Gt" if fc[1] == "LtE" else "Lt", fc[2], fc[3]))
        if sb is not None and sb[0].as_atom() is not None and sb[0].as_atom().kind == "idx":
          Ks.add(sb[1])
          okc = True
  K = max(Ks) if Ks else None
  ctx.record(R, b.where(), "max pattern size = bit_length // K, K <= 16", K is not None and 1 <= K <= 16, "K = %r (statement: w at most 1/16 of the modulus length)" % K)
  # oversize patterns are skipped with continue (list is unordered); a break under the same comparison ends the search early
  badb = [e for e in b.events if e.kind == "break" and any(size_bound(fc) is not None and size_bound(fc)[0].as_atom() is not None and size_bound(fc)[0].as_atom().kind == "idx" for fc in e.facts)]
  ctx.record(R, b.where(), "oversize patterns skipped with `continue`", okc and not badb, "the size list is unordered: remaining sizes are still tried" if okc and not badb else
             "an oversize pattern ends the search over the (unordered) size list")
  okd = bool(calls) and all(len(e.data["args"]) == 2 for e in calls)
  ctx.record(R, b.where(), "every admissible size is handed to CheckFraction(n, d)", okd, "one lattice attempt per size" if okd else "CheckFraction call changed")
  # permuted
  b = body(repo, "CheckPermutedBitPatterns")
  wvals = None
  okp = False
  for info in b.w.loop_info.values():
    for vis in info["visits"]:
      it = vis["iter"]
      vals = None
      if isinstance(it, Seq):
        vals = [as_poly(x).as_int() for x in it.items if not isinstance(x, (Seq, tuple))]
      elif isinstance(it, Poly) and it.as_atom() is not None and it.as_atom().kind == "seq":
        vals = [as_poly(x).as_int() for x in it.as_atom().args]
      if vals and all(v_ is not None for v_ in vals) and {8, 16, 32, 64} <= set(vals):
        wvals = vals
        W = sym.mk("idx", as_poly(it), as_poly(vis["k"]))
        for inf2 in b.w.loop_info.values():
          for v2 in inf2["visits"]:
            if isinstance(v2["iter"], Poly) and v2["iter"] == sym.mk("range", Poly.const(3), W, Poly.const(2)):
              okp = True
  okw = wvals is not None
  ctx.record(R, b.where(), "word sizes {8,16,32,64}, pattern sizes odd 3 .. wsize-1", okw and okp, "enumeration as documented" if okw and okp else "word sizes %r / pattern range changed" % (wvals,))
  calls = b.calls("repo:rsa_util:CheckFraction")
  dens = {repr(as_poly(e.data["args"][1])) for e in calls if len(e.data["args"]) == 2}
  K2s = set()
  brk_ok = False
  for e in b.events:
    if e.kind != "break":
      continue
    for fc in e.facts:
      sb = size_bound(fc)
      if sb is not None and sb[0].as_atom() is not None and sb[0].as_atom().kind == "bitlen" and repr(as_poly(sb[0].as_atom().args[0])) in dens:
        K2s.add(sb[1])
        brk_ok = True
  K2 = max(K2s) if K2s else None
  ctx.record(R, b.where(), "denominator cut-off bit_length(d) > bit_length(n) // K', K' <= 10", K2 is not None and 1 <= K2 <= 10 and brk_ok,
             "K' = %r; break is sound because denominators grow with psize" % K2 if K2 is not None and K2 <= 10 and brk_ok else "cut-off K' = %r / guard changed" % K2)


def rule_denom(ctx):
  R = "R-C05-DENOM"
  repo = ctx.repo
  b = body(repo, "CheckBitPatterns")
  calls = b.calls("repo:rsa_util:CheckFraction")
  ok = bool(calls)
  for e in calls:
    d = as_poly(e.data["args"][1])
    # d + 1 = 2^w with w the element of a loop this call sits in (the pattern size, whatever the local is called)
    pa_ = (d + 1).as_atom()
    els = [v_ for v_ in e.state.env.values() if isinstance(v_, Poly)]
    if not (pa_ is not None and pa_.kind == "pow" and as_poly(pa_.args[0]).as_int() == 2 and any(as_poly(pa_.args[1]) == v_ for v_ in els)
            and any(t_.kind == "sym" for t_ in as_poly(pa_.args[1]).all_atoms())):
      ok = False
    if as_poly(e.data["args"][0]).as_atom() is None or "rsa_info" not in repr(e.data["args"][0]):
      ok = False
  ctx.record(R, b.where(), "d = 2^w - 1", ok, "repetition of a w-bit word = multiple of 1/(2^w - 1)" if ok else "denominator is not 2**pattern_size - 1")
  b = body(repo, "CheckPermutedBitPatterns")
  calls = b.calls("repo:rsa_util:CheckFraction")
  ok = bool(calls)
  why = ""
  for e in calls:
    d = as_poly(e.data["args"][1])
    # p (pattern bits) and w (limb bits) are values the path holds (the elements of the two loops), whatever the locals are called
    cands = [v_ for v_ in e.state.env.values() if isinstance(v_, Poly) and any(t_.kind == "sym" for t_ in v_.all_atoms())]
    da = d.as_atom()
    good = False
    if da is not None and da.kind == "fdiv":
      for p_ in cands:
        for w_ in cands:
          num = (sym.mk("pow", Poly.const(2), p_) - 1) * (sym.mk("pow", Poly.const(2), p_ * w_) + 1)
          den = sym.mk("pow", Poly.const(2), w_) + 1
          if (as_poly(da.args[0]) - num).is_zero() and (as_poly(da.args[1]) - den).is_zero():
            good = True
    if not good:
      ok = False
      why = "denominator is %r" % (d,)
  ctx.record(R, b.where(), "d = (2^p - 1)(2^(p*w) + 1) / (2^w + 1)", ok, why or "documented formula for p-bit patterns with swapped w-bit words")


def rule_pm1(ctx):
  R = "R-C05-PM1"
  repo = ctx.repo
  c = repo.cls(RS, "CheckPollardpm1")
  init = c.methods.get("__init__")
  if init is None:
    raise Incomplete("CheckPollardpm1.__init__ vanished", RS)
  # the product handed to Pollardpm1, read off the walker's values on both constructor paths (no local names involved):
  #   self._m = FastProduct(L),  L = [mpz(p) for p in Sieve(S)] with L[k] replaced by p ** floor(log_p(PS)) for k < N
  wi = sym.Walker(repo, init)
  wi.run()
  bound_p = P("param", [q for q in init.params() if q != "self"][0]) if [q for q in init.params() if q != "self"] else None
  found = {}
  for e in wi.events:
    if e.kind != "setattr" or as_poly(e.data["base"]) != SELF or not isinstance(e.data["value"], Poly):
      continue
    va = e.data["value"].as_atom()
    if va is None or va.kind != "call" or repr(va.args[0]) != "lit('ntheory_util:FastProduct')":
      continue
    L = as_poly(va.args[1])
    desc = None
    for info in wi.loop_info.values():
      for vis in info["visits"]:
        hit = [nm for nm, v in vis["after_env"].items() if isinstance(v, Poly) and v == L]
        if not hit:
          continue
        nm = hit[0]
        pre, head = vis["pre_env"].get(nm), vis["head"].env.get(nm)
        it = as_poly(vis["iter"]).as_atom() if isinstance(vis["iter"], Poly) else None
        k = as_poly(vis["k"])
        stores = [x for x in wi.events if x.kind == "store" and isinstance(x.data.get("base"), Poly) and isinstance(head, Poly) and x.data["base"] == head]
        pa = as_poly(pre).as_atom() if isinstance(pre, Poly) else None
        sieve = None
        if pa is not None and pa.kind == "map" and len(pa.args) == 2 and repr(pa.args[0]) == "ref('gmpy2.mpz')":
          sa = as_poly(pa.args[1]).as_atom()
          if sa is not None and sa.kind == "call" and repr(sa.args[0]) == "lit('ntheory_util:Sieve')":
            sieve = as_poly(sa.args[1])
        raised = None
        for x in stores:
          xv = as_poly(x.data["value"]).as_atom()
          el = sym.mk("idx", head, k)
          if as_poly(x.data["index"]) == k and xv is not None and xv.kind == "pow" and as_poly(xv.args[0]) == el:
            ex = as_poly(xv.args[1]).as_atom()
            while ex is not None and ex.kind in ("int", "math.floor") and len(ex.args) == 1:
              ex = as_poly(ex.args[0]).as_atom()
            if ex is not None and ex.kind == "math.log" and len(ex.args) == 2 and as_poly(ex.args[1]) == el:
              raised = as_poly(ex.args[0])
        count = as_poly(it.args[0]) if it is not None and it.kind == "range" and len(it.args) == 1 else None
        desc = (sieve, raised, count, head, as_poly(pre) if isinstance(pre, Poly) else None)
    if desc is None:
      # the same list written as a comprehension: [p ** floor(log_p(B)) for p in map(mpz, Sieve(S))] - every prime is raised
      la = L.as_atom()
      if la is not None and la.kind == "map" and len(la.args) == 3 and isinstance(la.args[0], Poly):
        elt, bv, src = la.args
        bvp = Poly.atom(bv) if not isinstance(bv, Poly) else bv
        sa_ = as_poly(src).as_atom()
        sieve = None
        if sa_ is not None and sa_.kind == "map" and len(sa_.args) == 2 and repr(sa_.args[0]) == "ref('gmpy2.mpz')":
          sv_ = as_poly(sa_.args[1]).as_atom()
          if sv_ is not None and sv_.kind == "call" and repr(sv_.args[0]) == "lit('ntheory_util:Sieve')":
            sieve = as_poly(sv_.args[1])
        el = sym.mk("idx", as_poly(src), bvp)
        ea_ = elt.as_atom()
        raised = None
        if ea_ is not None and ea_.kind == "pow" and as_poly(ea_.args[0]) == el:
          ex = as_poly(ea_.args[1]).as_atom()
          if ex is not None and ex.kind == "math.log" and len(ex.args) == 2 and as_poly(ex.args[1]) == el:
            raised = as_poly(ex.args[0])
        if sieve is not None:
          desc = (sieve, raised, sym.mk("len", as_poly(src)), as_poly(src), as_poly(src))
    isdef = any(f_[0] in ("falsy",) and bound_p is not None and isinstance(f_[1], Poly) and f_[1] == bound_p for f_ in e.facts)
    found["default" if isdef else "bound"] = desc
  dflt = found.get("default")
  ok = dflt is not None and dflt[0] is not None and (dflt[0].as_int() or 0) >= 2 ** 20 and dflt[1] is not None and (dflt[1].as_int() or 0) >= 2 ** 64 and \
      dflt[2] is not None and (dflt[2].as_int() or 0) >= 150
  ctx.record(R, init.where, "default product: primes < 2^20, prime powers up to 2^64 for the first 150 primes", ok,
             "FastProduct over Sieve(%s) with p ** floor(log_p(%s)) for the first %s primes" % tuple(repr(x)[:24] for x in dflt[:3]) if dflt else "the default path does not build self._m = FastProduct(..) over a sieve with raised prime powers")
  bnd = found.get("bound")
  okb = bnd is not None and bound_p is not None and bnd[0] == bound_p and bnd[1] == bound_p and bnd[2] is not None and (bnd[2] == sym.mk("len", bnd[3]) or (bnd[4] is not None and bnd[2] == sym.mk("len", bnd[4])))
  ctx.record(R, init.where, "user bound B: every prime below B raised to floor(log_p B)", okb,
             "FastProduct over Sieve(B) with p ** floor(log_p(B)) for every prime" if okb else "the bound path does not raise every prime below the bound to its largest power below the bound")
  # the product itself: pairwise tree that keeps the unpaired last element (shared with C03)
  from . import c03
  ctx.borrow(c03.rule_tree, R, lambda r: r.where.endswith(":FastProduct"))
  f = repo.func("rsa_util", "Pollardpm1")
  w = sym.Walker(repo, f)
  w.run()
  n, m, gb = P("param", "n"), P("param", "m"), P("param", "gcd_bound")
  gate = sym.mk("gcd", n - 1, m)
  pos = [e for e in w.events if e.kind == "return" and isinstance(e.data["value"], Seq) and isinstance(e.data["value"].items[0], Const) and e.data["value"].items[0].v is True]
  okg = bool(pos) and all(any(f_[0] == "cmp" and ((f_[1] == "GtE" and as_poly(f_[2]) == gate and as_poly(f_[3]) == gb) or (f_[1] == "LtE" and as_poly(f_[3]) == gate and as_poly(f_[2]) == gb))
                              for f_ in e.facts) for e in pos)
  ctx.record(R, f.where, "gate gcd(n - 1, m) >= gcd_bound", okg, "keys whose p-1, q-1 share a smooth factor >= bound enter the test" if okg else "gate changed")
  both = [e for e in pos if isinstance(e.data["value"].items[1], Seq) and not e.data["value"].items[1].items]
  p_ = sym.mk("gcd", n, sym.mk("powmod", sym.mk("powmod", Poly.const(2), n - 1, n), m, n) - 1)
  okb = bool(both) and all(any(f_[0] == "cmp" and f_[1] == "Eq" and {repr(as_poly(f_[2])), repr(as_poly(f_[3]))} == {repr(p_), repr(n)} for f_ in e.facts) for e in both)
  ctx.record(R, f.where, "both smooth (p == n) -> weak without factors", okb, "a = 2^(n-1), gcd(a^m - 1, n) == n flagged" if okb else "the both-smooth case is not flagged / base is not 2^(n-1)")
  dv = fold.try_fold(f.default_of("gcd_bound")) if f.default_of("gcd_bound") is not None else None
  chk = body(repo, "CheckPollardpm1")
  calls = chk.calls("repo:rsa_util:Pollardpm1")
  okd = dv is not None and dv <= 2 ** 60 and bool(calls) and all(len(e.data["args"]) == 2 and as_poly(e.data["args"][1]) == sym.mk("attr", SELF, "_m") for e in calls)
  ctx.record(R, f.where, "default gate <= 2^60, check passes its product", okd, "gcd_bound default %r" % dv)


def rule_hw(ctx):
  R = "R-C05-HW"
  repo = ctx.repo
  f = repo.func("rsa_util", "CheckLowHammingWeight")
  w = sym.Walker(repo, f)
  w.run()
  n = P("param", "n")
  bl = sym.mk("bitlen", n)
  # the two thresholds by role, not by name: the cut-off is what the best heuristic value is compared with when the search is abandoned early (a branch
  # condition of the search loop), the weak threshold what it is compared with in the verdict
  tw = tc = None
  for e in w.events:
    if e.kind == "return" and isinstance(e.data.get("value"), Seq) and e.data["value"].items and isinstance(e.data["value"].items[0], tuple):
      c = e.data["value"].items[0]
      if c[0] == "cmp" and c[1] in ("LtE", "Lt", "GtE", "Gt") and isinstance(c[2], Poly) and isinstance(c[3], Poly):
        side = c[3] if c[1] in ("LtE", "Lt") else c[2]
        if any(t_.kind == "bitlen" for t_ in side.all_atoms()):
          tw = side
    def cmps(c_):
      if isinstance(c_, tuple) and c_:
        if c_[0] == "cmp":
          yield c_
        elif c_[0] in ("and", "or"):
          for x_ in c_[1]:
            yield from cmps(x_)
        elif c_[0] == "not":
          yield from cmps(c_[1])
    for c0, pol, node in e.state.pc:
      for c in cmps(c0):
        if not (c[1] in ("LtE", "Lt", "GtE", "Gt") and isinstance(c[2], Poly) and isinstance(c[3], Poly)):
          continue
        for side, other in ((c[2], c[3]), (c[3], c[2])):
          if any(t_.kind == "bitlen" for t_ in side.all_atoms()) and not any(t_.kind == "bitlen" for t_ in other.all_atoms()) and any(t_.kind == "sym" for t_ in other.all_atoms()) \
             and not any(t_.kind == "param" and t_ != n.as_atom() for t_ in side.all_atoms()):
            tc = side
  ok = tw is not None and tc is not None and (tw - (bl - 12)).is_zero() and (tc - bl).is_zero()
  ctx.record(R, f.where, "threshold_weak = bitlen - 12, threshold_cutoff = bitlen", ok, "documented thresholds" if ok else "thresholds are %r / %r" % (tw, tc))
  # the search starts from the pair (1, 1) at the top bit of the primes: the documented invariant (p0 << bit) * (q0 << bit) <= n < ((p0 + 1) << bit) *
  # ((q0 + 1) << bit) must hold for it, i.e. 2 * bit <= bit_length(n) - 1 <= 2 * bit + 1 (a start one bit too high has a negative remainder and every
  # branch is pruned).  The start position is evaluated as a term of bit_length(n) for all lengths 2 .. 4200.
  from pcstatic import termeval
  starts = [e for e in w.events if e.kind == "call" and str(e.data["name"]).startswith("local:") and len(e.data["args"]) >= 5 and
            all(isinstance(a_, (Poly, Const)) and as_poly(a_).as_int() == 1 for a_ in e.data["args"][:2])]
  oks, whys = bool(starts), "no initial push of the pair (1, 1)"
  for e in starts:
    bit = as_poly(e.data["args"][3])
    bad = None
    try:
      for blv in list(range(2, 200)) + [1023, 1024, 2047, 2048, 4095, 4096]:
        bv_ = termeval.ev(bit, {bl.as_atom(): blv})
        if not (isinstance(bv_, int) and 2 * bv_ <= blv - 1 <= 2 * bv_ + 1):
          bad = "for a %d-bit modulus the search starts at bit %r: 4^bit %s n, the invariant p0 q0 4^bit <= n < (p0 + 1)(q0 + 1) 4^bit fails for the start pair (1, 1)" % (
              blv, bv_, "exceeds" if isinstance(bv_, int) and 2 * bv_ > blv - 1 else "is more than a factor 4 below")
          break
    except (termeval.Unknown, termeval.Raises) as u:
      ctx.incomplete(R, f.where, "start of the search", "start position not evaluable as a term of bit_length(n): %s" % u)
      oks = None
      break
    rem_ok = as_poly(e.data["args"][4]) == sym.mk("bitlen", n - sym.mk("pow", Poly.const(2), bit * 2)) or \
        as_poly(e.data["args"][4]) == sym.mk("bitlen", n - sym.mk("shl", Poly.const(1), bit * 2))
    if bad or not rem_ok:
      oks, whys = False, bad or "the start remainder is not bit_length(n - 4^bit): %r" % (e.data["args"][4],)
  if oks is not None:
    ctx.record(R, f.where, "search starts from (1, 1) at bit ceil(bits / 2) - 1 with remainder n - 4^bit", oks, "invariant holds for the start pair at every modulus length" if oks else whys)
  dc, dm = fold.try_fold(f.default_of("cutoff")), fold.try_fold(f.default_of("maxsteps"))
  ctx.record(R, f.where, "defaults cutoff 2500, maxsteps 10^6", dc is not None and dm is not None and dc >= 2500 and dm >= 10 ** 6, "cutoff %r, maxsteps %r" % (dc, dm))
  rets = [e for e in w.events if e.kind == "return" and e.node is not None and isinstance(e.data["value"], Seq) and isinstance(e.data["value"].items[0], tuple)]
  okv = bool(rets)
  for e in rets:
    c = e.data["value"].items[0]
    if not (c[0] == "cmp" and c[1] == "LtE" and (as_poly(c[3]) - (bl - 12)).is_zero()):
      okv = False
  chk = body(repo, "CheckLowHammingWeight")
  calls = chk.calls("repo:rsa_util:CheckLowHammingWeight")
  okv = okv and bool(calls) and all(len(e.data["args"]) == 1 and not e.data["kwargs"] for e in calls)
  ctx.record(R, f.where, "weak without factors <=> minv <= threshold_weak; check uses the defaults", okv, "potentially_weak = minv <= threshold_weak" if okv else "verdict predicate / call changed")


def rule_hw_prune(ctx):
  """Branch-and-bound of CheckLowHammingWeight: a pair of partial factors (p0, q0) may only be discarded when it violates the documented invariant
  (p0 << bit) * (q0 << bit) <= n < ((p0 + 1) << bit) * ((q0 + 1) << bit), i.e. 0 <= rem0 <= p0 + q0 for rem0 = (n >> 2 bit) - p0 q0.  A stricter
  test drops the branch that leads to the factors (primes with long runs of leading ones sit exactly on the upper edge)."""
  R = "R-C05-HW"
  repo = ctx.repo
  from .c12 import canon_le
  f = repo.func("rsa_util", "CheckLowHammingWeight")
  w = sym.Walker(repo, f)
  w.run()
  n = P("param", f.params()[0])
  pushes = [e for e in w.events if e.kind == "call" and e.data["name"].startswith("local:") and len(e.data["args"]) >= 2 and
            not all(as_poly(a).as_int() is not None for a in e.data["args"][:2] if isinstance(a, Poly))]
  worst = None
  seen_hi = seen_lo = 0
  for e in pushes:
    p0, q0 = as_poly(e.data["args"][0]), as_poly(e.data["args"][1])
    n0s = {a for fc in e.facts if fc[0] == "cmp" for side in fc[2:4] if isinstance(side, Poly) for a in side.atoms() if a.kind == "shr" and as_poly(a.args[0]) == n}
    if len(n0s) != 1:
      continue
    rem = Poly.atom(next(iter(n0s))) - p0 * q0
    for fc in e.facts:
      cl = canon_le(fc) if fc[0] == "cmp" and fc[1] in ("Lt", "LtE", "Gt", "GtE") else None
      if cl is None:
        continue
      E, b = cl
      d_hi = E - (rem - p0 - q0)
      d_lo = E + rem
      if d_hi.is_const() and d_hi.as_int() is not None:
        seen_hi += 1
        slack = b - d_hi.as_int()          # rem - p0 - q0 <= slack
        if slack < 0:
          worst = "a pair with rem0 = p0 + q0%s is discarded (kept only for rem0 - p0 - q0 <= %d), although n < (p0 + 1)(q0 + 1) 4^bit still holds there" % (" - %d" % (-slack - 1) if slack < -1 else "", slack)
      elif d_lo.is_const() and d_lo.as_int() is not None:
        seen_lo += 1
        slack = b - d_lo.as_int()          # -rem <= slack
        if slack < 0:
          worst = "a pair with rem0 = %d is discarded although p0 q0 4^bit <= n holds there" % (-slack - 1)
  if not pushes or not seen_hi:
    ctx.incomplete(R, f.where, "pruning keeps every pair inside the invariant", "no pruned push of a partial factor pair found (%d pushes, %d upper tests)" % (len(pushes), seen_hi))
    return
  ctx.record(R, f.where, "pruning keeps every pair inside the invariant", worst is None, worst or "pairs are kept exactly for 0 <= rem0 <= p0 + q0 (%d pushes examined)" % len(pushes))


# ------------------------------------------------------------------ lattice / quadratic constructions (shape = documented method)
def rule_constructions(ctx):
  R = "R-C05-CONSTRUCT"
  repo = ctx.repo
  # ---- CheckFraction
  f = repo.func("rsa_util", "CheckFraction")
  w = sym.Walker(repo, f)
  w.run()
  n, d0 = P("param", "n"), P("param", "d0")
  W = sym.mk("pow", Poly.const(2), sym.mk("fdiv", sym.mk("bitlen", n), Poly.const(2)))
  X = sym.mk("pow", Poly.const(2), sym.mk("bitlen", d0))
  u, v = sym.mk("fdiv", n, W), sym.mk("mod", n, W)
  # the lattice is whatever is handed to lll.reduce (a literal, a list filled by appends, ...): judged by value
  red = [e for e in w.events if e.kind == "call" and str(e.data["name"]).endswith("lll:reduce")]
  want = [[X, Poly.const(0), sym.mk("mod", u * d0, W)], [Poly.const(0), X, sym.mk("mod", v * d0, W)], [Poly.const(0), Poly.const(0), W]]
  ok = bool(red)
  for e in red:
    val = e.data["args"][0] if e.data["args"] else None
    if isinstance(val, Poly) and val.as_atom() is not None and val.as_atom().kind == "seq":
      val = Seq([Seq(list(r.as_atom().args)) if isinstance(r, Poly) and r.as_atom() is not None and r.as_atom().kind == "seq" else r for r in val.as_atom().args])
    if not (isinstance(val, Seq) and len(val.items) == 3 and all(isinstance(r, Seq) and len(r.items) == 3 for r in val.items)):
      ok = False
      continue
    for r, wr in zip(val.items, want):
      for a_, b_ in zip(r.items, wr):
        if as_poly(a_) != b_:
          ok = False
  ctx.record(R, f.where, "lattice [[x,0,u*d mod w],[0,x,v*d mod w],[0,0,w]], w = 2^(bits//2), x = 2^bitlen(d)", ok, "n = u*w + v split at half the bit length" if ok else "lattice basis changed")
  calls = [e for e in w.events if e.kind == "call" and e.data["name"] == "ext:gmpy2.gcd"]
  okc = bool(calls)
  # the reduced vectors: elements of the loop(s) over the value lll.reduce returned
  els = []
  for i_ in w.loop_info.values():
    for v_ in i_.get("visits", []):
      it_ = v_.get("iter")
      if isinstance(it_, Poly) and "lll:reduce" in repr(it_.as_atom().args[0] if it_.as_atom() is not None and it_.as_atom().kind == "call" else ""):
        els.append(sym.mk("idx", it_, v_["k"]))
  for e in calls:
    args = [as_poly(x) for x in e.data["args"]]
    cands = [-sym.mk("idx", vp, Poly.const(1)) * W + sym.mk("idx", vp, Poly.const(0)) for vp in els]
    if not (n in args and any((x - cand).is_zero() for x in args for cand in cands)):
      okc = False
  exits = [kind for i in w.loop_info.values() for kind, _, _, _, _ in i["body_paths"] if kind == "break"]
  ctx.record(R, f.where, "candidate gcd(-v[1]*w + v[0], n) for every reduced vector", okc and not exits, "all rows of the reduced basis are tried" if okc and not exits else "candidate construction / enumeration changed")
  # ---- CheckContinuedFraction
  f = repo.func("rsa_util", "CheckContinuedFraction")
  w = sym.Walker(repo, f, unroll_const_loops=True)
  w.run()
  bound = P("param", "bound")
  M = sym.mk("pow", Poly.const(2), sym.mk("bitlen", n))
  cf = sym.mk("call", lit("ntheory_util:ContinuedFraction"), n, M)
  loops = [i for i in w.loop_info.values() if isinstance(i["node"], ast.For) and as_poly(i["iter"]) == cf]
  ok = len(loops) == 1
  ctx.record(R, f.where, "convergents of n / 2^bitlen(n)", ok, "ContinuedFraction(n, 2**n.bit_length())" if ok else "continued fraction is not taken of n / 2^bitlen")
  probs = []
  if ok:
    vis = loops[0]["visits"][0]
    el = sym.mk("idx", cf, vis["k"])
    vv = sym.mk("idx", el, Poly.const(2))
    dm1 = sym.mk("call", lit("ntheory_util:DivmodRounded"), n * vv, W)
    r_, c_ = sym.mk("idx", dm1, Poly.const(0)), sym.mk("idx", dm1, Poly.const(1))
    dm2 = sym.mk("call", lit("ntheory_util:DivmodRounded"), r_, W)
    a_, b_ = sym.mk("idx", dm2, Poly.const(0)), sym.mk("idx", dm2, Poly.const(1))
    disc = b_ * b_ - a_ * c_ * 4
    gcds = [e for e in w.events if e.kind == "call" and e.data["name"] == "ext:gmpy2.gcd"]
    seen = set()
    for e in gcds:
      args = [as_poly(x) for x in e.data["args"]]
      if n not in args:
        probs.append("gcd is not taken with n")
        continue
      other = [x for x in args if x != n][0]
      t = sym.mk("isqrt", disc)
      if (other - (a_ * W * 2 + b_ + t)).is_zero():
        seen.add("+")
      elif (other - (a_ * W * 2 + b_ - t)).is_zero():
        seen.add("-")
      else:
        probs.append("candidate is not 2*a*x + b +- sqrt(b^2 - 4ac) with n*v = a*x^2 + b*x + c")
      if not any(f_[0] == "square" and (as_poly(f_[1]) - disc).is_zero() for f_ in e.facts):
        probs.append("no perfect-square test on the discriminant b^2 - 4ac")
    if seen != {"+", "-"}:
      probs.append("both roots +-t must be tried (found %s)" % sorted(seen))
    # large coefficient alarm uses the quotient of the same convergent
    alarms = [e for e in w.events if e.kind == "return" and isinstance(e.data["value"], Seq) and isinstance(e.data["value"].items[1], Seq) and not e.data["value"].items[1].items
              and isinstance(e.data["value"].items[0], Const) and e.data["value"].items[0].v is False]
    q = sym.mk("idx", el, Poly.const(0))
    if not (alarms and all(any(f_[0] == "cmp" and f_[1] == "GtE" and as_poly(f_[2]) == q and as_poly(f_[3]) == bound for f_ in e.facts) for e in alarms)):
      probs.append("large-coefficient alarm is not `quot >= bound` on the convergent's partial quotient")
  ctx.record(R, f.where, "quadratic n*v = a x^2 + b x + c, roots via (2ax + b)^2 - (b^2 - 4ac) = 4a*n*v", not probs, "; ".join(sorted(set(probs))) or
             "both candidates 2ax + b +- t with t^2 = b^2 - 4ac; (2ax+b+t)(2ax+b-t) = 4a*n*v")
