"""C14 - closed-form LFSR counts / log-probabilities and the Python<->C++ packing contract.
The equality of the three Berlekamp-Massey implementations is NOT decided (see DESIGN.md section 4)."""
from __future__ import annotations
import ast, os, re
from pcstatic import sym, regions, algebra, refmath
from pcstatic.core import Incomplete
from pcstatic.loader import norm
from pcstatic.poly import Poly, Atom, P
from pcstatic.sym import Const, Seq, as_poly

META = {
    "level": "other",
    "trusted_base": ["Python ast parser", "Massey 1969: the synthesis algorithm returns the linear complexity; ((x^k * p) >> (k + j)) = p >> j and >> distributes over ^ on GF(2)[x]",
                     "Rueppel's linear-complexity distribution (cross-validated in the checker by a textbook Berlekamp-Massey over all sequences up to length 12)",
                     "floor lemma n - 1 <= 2*(n // 2) <= n", "regex/brace scan of the C++ sources (no C++ semantics)"],
    "assumptions": ["of the first sentence only the pure-Python routine is decided (R-C14-BM: it refines Massey's algorithm, whose correctness theorem is trusted); "
                    "the two C++ variants (CLMUL / word-shift) are not analysed beyond their byte-packing contract, so their agreement with the Python routine is not decided"],
    "explanation": ("LfsrCount / LfsrLogProbability are extracted as piecewise powers of two with linear exponents and proved equal to 2^min(2m-1, 2n-2m) "
                    "(resp. that exponent minus n) piece by piece with a small linear-arithmetic prover; zero/raise domains by region equivalence; "
                    "byte order, units and range checks across the Python/C++ boundary by writer/reader agreement; LinearComplexityNative is typed in an alignment "
                    "domain (each big integer = XOR of (s*G) >> a for ghost polynomials G) and every loop path is checked against Massey's update."),
}
MOD = "randomness_tests.berlekamp_massey"


def run(ctx):
  rule_closed(ctx)
  rule_pack(ctx)
  rule_bm(ctx)
  rule_scatter(ctx)
  ctx.expect("R-C14-SCATTER", 2, "truncated and untruncated path")
  ctx.expect("R-C14-BM", 3, "loop body, initial state, result")
  ctx.expect("R-C14-CLOSED", 8, "pieces of both functions + domains + reference cross-validation")
  ctx.expect("R-C14-PACK", 5, "python side, C++ range, word assembly, export, setup")


def exponent_of(p):
  """p = 2^e with e linear -> e (Poly) else None."""
  i = p.as_int()
  if i is not None:
    if i > 0 and i & (i - 1) == 0:
      return Poly.const(i.bit_length() - 1)
    return None
  if len(p.t) != 1:
    return None
  (mono, c), = p.t.items()
  if c.denominator != 1 or c <= 0 or int(c) & (int(c) - 1):
    return None
  e = Poly.const(int(c).bit_length() - 1)
  for a, k in mono:
    if a.kind != "pow":
      return None
    b = a.args[0].as_int()
    if b is None or b <= 0 or b & (b - 1):
      return None
    e = e + a.args[1] * ((b.bit_length() - 1) * k)
  return e


class NonInteger(ValueError):
  """the term has the (exact) non-integral value .value here - e.g. 2 * 4 ** (m - 1) at m = 0, a float that int() truncates"""
  def __init__(self, value):
    ValueError.__init__(self, "fraction")
    self.value = value


def _ev_int(p, env):
  """integer value of an extracted term under env {Atom: int} (pow / shifts / floor division / mod / min / max / abs); raises ValueError when not evaluable."""
  from fractions import Fraction
  if isinstance(p, Const):
    if isinstance(p.v, (int, bool)):
      return int(p.v)
    raise ValueError("constant")
  p = as_poly(p)
  tot = Fraction(0)
  for mono, c in p.t.items():
    term = Fraction(c)
    for a, e in mono:
      term *= Fraction(_ev_atom(a, env)) ** e
    tot += term
  if tot.denominator != 1:
    raise NonInteger(tot)
  return int(tot)


def _ev_atom(a, env):
  if a in env:
    return env[a]
  k = a.kind
  args = a.args
  if k == "pow" and len(args) == 2:
    b, e = _ev_int(args[0], env), _ev_int(args[1], env)
    if e < 0:
      if b == 0:
        raise ValueError("zero")
      from fractions import Fraction
      return Fraction(1, b ** -e)              # an int base with a negative exponent: the float 1 / b^-e (exact for the bases at hand)
    return b ** e
  if k == "shl":
    return _ev_int(args[0], env) << _ev_int(args[1], env)
  if k == "shr":
    return _ev_int(args[0], env) >> _ev_int(args[1], env)
  if k == "fdiv":
    d = _ev_int(args[1], env)
    if d == 0:
      raise ValueError("zero")
    return _ev_int(args[0], env) // d
  if k == "mod":
    d = _ev_int(args[1], env)
    if d == 0:
      raise ValueError("zero")
    return _ev_int(args[0], env) % d
  if k in ("min", "max"):
    vs = [_ev_int(x, env) for x in args]
    return min(vs) if k == "min" else max(vs)
  if k == "abs":
    return abs(_ev_int(args[0], env))
  if k in ("int",) and len(args) == 1:
    try:
      return _ev_int(args[0], env)
    except NonInteger as ni:
      return int(ni.value)                     # int() truncates towards zero
  raise ValueError("atom %s" % k)


def grid_disagreement(w, n, m, fname):
  """First (n, m) with 1 <= n <= 12, 0 <= m <= n on which the function's own return term (path chosen by its own conditions) differs from Rueppel's count."""
  na, ma = n.as_atom(), m.as_atom()
  for nv in range(1, 13):
    for mv in range(0, nv + 1):
      env = {na: nv, ma: mv}
      val = regions.Valuation(env)
      got = None
      for kind, v_, s_ in w.terminals:
        if kind != "return":
          continue
        try:
          if all(regions.eval_cond(c, val) == pol for c, pol, node in s_.pc):
            got = _ev_int(v_, env)
            break
        except NonInteger as ni:
          return "%s(%d, %d) evaluates to the non-integer %s (int() truncates it to %d); the number of sequences of length %d with linear complexity %d is %d" % (
              fname, nv, mv, ni.value, int(ni.value), nv, mv, refmath.lfsr_count(nv, mv))
        except (regions.Unknown, ValueError, ZeroDivisionError, TypeError):
          got = None
          break
      if got is None:
        continue
      cnt = refmath.lfsr_count(nv, mv)
      want = cnt if fname == "LfsrCount" else None
      if fname != "LfsrCount":
        # log2 of the probability: count / 2^n is a power of two
        want = cnt.bit_length() - 1 - nv
      if got != want:
        return "%s(%d, %d) evaluates to %d; the number of sequences of length %d with linear complexity %d is %d%s" % (
            fname, nv, mv, got, nv, mv, cnt, "" if fname == "LfsrCount" else " (log2 probability %d)" % want)
  return None


def rule_closed(ctx):
  R = "R-C14-CLOSED"
  repo = ctx.repo
  n, m = P("param", "n"), P("param", "m")
  H = sym.mk("fdiv", n, Poly.const(2))
  lemmas = [n - H * 2, H * 2 - n + 1]          # n - 1 <= 2*(n // 2) <= n
  E1, E2 = m * 2 - 1, n * 2 - m * 2
  for fname, shift, zero_kind in (("LfsrCount", Poly.const(0), "return0"), ("LfsrLogProbability", n, "raise")):
    f = repo.func(MOD, fname)
    w = sym.Walker(repo, f)
    w.run()
    outside = []
    n_pieces = 0
    pending = []
    for e in w.events:
      if e.kind == "raise":
        outside.append([(c, pol) for c, pol, node in e.state.pc])
        continue
      if e.kind != "return" or e.node is None:
        continue
      v = as_poly(e.data["value"])
      conds = [(c, pol) for c, pol, node in e.state.pc]
      if zero_kind == "return0" and v.is_zero():
        outside.append(conds)
        continue
      ex = exponent_of(v) if fname == "LfsrCount" else v + shift
      key = norm(e.node)
      # the closed forms are integers of unbounded size: a true division makes the value a float (OverflowError beyond 2^1024, 53-bit precision before)
      fl = [t_ for t_ in v.all_atoms() if t_.kind == "tdiv" and any(u_.kind == "pow" and as_poly(u_.args[1]).as_int() is None for u_ in as_poly(t_.args[0]).all_atoms())]
      if fl:
        ctx.violation(R, f.where, key, "the closed form goes through a float: `%s` is a true division of an unbounded power (OverflowError as soon as the power exceeds 2^1024, "
                      "e.g. m >= 513; not exact beyond 53 bits unless the quotient is a power of two)" % norm(e.node)[:80])
        n_pieces += 1
        continue
      if ex is None:
        pending.append((key, "returned value %r is not a power of two with a linear exponent" % (v,)))
        continue
      n_pieces += 1
      facts = algebra.linear_facts(e.facts) + lemmas
      # inside the domain 0 <= m <= n, n >= 1 is implied by the negated outside-condition; add m >= 1 when m != 0 and m >= 0
      if any(f_[0] == "cmp" and f_[1] == "NotEq" and as_poly(f_[2]) == m and as_poly(f_[3]).is_zero() for f_ in e.facts) and \
         any((p_ - m).is_zero() for p_ in algebra.linear_facts(e.facts)):
        facts.append(m - 1)
      m_zero = any(f_[0] == "cmp" and f_[1] == "Eq" and as_poly(f_[2]) == m and as_poly(f_[3]).is_zero() for f_ in e.facts)
      if m_zero:
        ok = ex.is_zero()
        ctx.record(R, f.where, key, ok, "m = 0: exactly one sequence (all zero), exponent 0" if ok else "m = 0 piece has exponent %r, expected 0" % (ex,))
        continue
      if (ex - E1).is_zero():
        ok, why = algebra.prove_nonneg(E2 - E1, facts)
        ctx.record(R, f.where, key, ok, "exponent 2m - 1 = min(2m-1, 2n-2m) on this piece: %s" % why if ok else "exponent 2m - 1 is not the minimum on this piece: %s" % why)
      elif (ex - E2).is_zero():
        ok, why = algebra.prove_nonneg(E1 - E2, facts)
        ctx.record(R, f.where, key, ok, "exponent 2n - 2m = min(2m-1, 2n-2m) on this piece: %s" % why if ok else "exponent 2n - 2m is not the minimum on this piece: %s" % why)
      else:
        ctx.violation(R, f.where, key, "exponent %r is neither 2m - 1 nor 2n - 2m (Rueppel: count = 2^min(2m-1, 2n-2m))" % (ex,))
    ok, d = regions.equivalent_mixed(outside, lambda v: v[m] < 0 or v[n] <= 0 or v[m] > v[n], mains=[n, m]) if outside else (False, "no outside-domain branch")
    ctx.record(R, f.where, ("count = 0" if zero_kind == "return0" else "raises") + " <=> not (n >= 1 and 0 <= m <= n)", ok, d)
    if n_pieces < 3 or pending:
      # the pieces are not in the shape the proof rule knows: evaluate the extracted return terms on a grid of (n, m) - a disagreement with the
      # reference distribution is a concrete counterexample (a violation); agreement on the grid proves nothing and stays undecided
      witness = grid_disagreement(w, n, m, fname)
      if witness is not None:
        ctx.violation(R, f.where, "closed form on a grid of (n, m)", witness)
      else:
        for key_, why_ in pending:
          ctx.record(R, f.where, key_, None, why_)
        if n_pieces < 3:
          ctx.incomplete(R, f.where, "pieces", "expected three pieces (m = 0, m <= n//2, m > n//2), found %d" % n_pieces)
  # reference distribution cross-validated by the checker's own Berlekamp-Massey
  maxlen = 14 if ctx.tier == "thorough" else 11
  bad = None
  for L in range(1, maxlen + 1):
    counts = [0] * (L + 1)
    for x in range(1 << L):
      bits = [(x >> i) & 1 for i in range(L)]
      counts[refmath.berlekamp_massey(bits)] += 1
    want = [refmath.lfsr_count(L, k) for k in range(L + 1)]
    if counts != want:
      bad = (L, counts, want)
      break
  ctx.record(R, "pcstatic.refmath", "reference distribution vs textbook Berlekamp-Massey", bad is None,
             "exhaustive over all sequences of length <= %d" % maxlen if bad is None else "reference mismatch at length %d" % bad[0])


def read(repo, rel):
  p = os.path.join(repo.root, rel)
  try:
    with open(p, encoding="utf-8") as fh:
      return fh.read()
  except OSError:
    raise Incomplete("%s not found" % rel, rel)


def strip_cpp_comments(s):
  s = re.sub(r"//[^\n]*", "", s)
  return re.sub(r"/\*.*?\*/", "", s, flags=re.S)


def rule_pack(ctx):
  R = "R-C14-PACK"
  repo = ctx.repo
  f = repo.func(MOD, "LinearComplexity")
  w = sym.Walker(repo, f)
  w.run()
  s, length = P("param", "s"), P("param", "length")
  size = sym.mk("fdiv", length + 7, Poly.const(8))
  probs = []
  rets = [e for e in w.events if e.kind == "return" and e.node is not None]
  if not rets:
    probs.append("no return")
  for e in rets:
    v = as_poly(e.data["value"]).as_atom()
    if v is None or v.kind != "extcall" or not str(v.args[0].as_atom().args[0]).endswith("pybind.berlekamp_massey.LfsrLength"):
      probs.append("does not call the native LfsrLength")
      continue
    ba, ln = v.args[1], v.args[2]
    want = sym.mk("pm", s, P("lit", "to_bytes"), size, P("lit", "'little'"))
    if ba != want:
      probs.append("bytes are not s.to_bytes((length + 7) // 8, 'little'): %r" % (ba,))
    if ln != length:
      probs.append("second argument is not the length in bits")
  raises = [e for e in w.events if e.kind == "raise"]
  rng = [[(c, pol) for c, pol, node in e.state.pc] for e in raises]
  ok, d = regions.equivalent_dnf(rng, lambda v: not (0 <= v[size] < 2 ** 31), main=size) if rng else (False, "no range guard")
  if not ok:
    probs.append("size guard is not `0 <= size < 2**31`: %s" % d)
  ctx.record(R, f.where, "to_bytes(ceil(length/8), 'little'), length in bits, 0 <= size < 2^31", not probs, "; ".join(probs) or "python side of the contract")
  cc = strip_cpp_comments(read(repo, "paranoid_crypto/lib/randomness_tests/cc_util/berlekamp_massey.cc"))
  hdr = read(repo, "paranoid_crypto/lib/randomness_tests/cc_util/berlekamp_massey.h")
  m_ = re.search(r"bool\s+LfsrLength\s*\(\s*const\s+std::vector<uint8_t>\s*&\s*(\w+)\s*,\s*int\s+(\w+)\s*,\s*int\s*\*\s*(\w+)\s*\)\s*\{(.*?)\n\}", cc, re.S)
  if not m_:
    ctx.incomplete(R, "cc_util/berlekamp_massey.cc:LfsrLength", "definition", "function not found by the brace scan")
  else:
    seq, n_, out, body = m_.groups()
    b = re.sub(r"\s+", "", body)
    okr = ("if(%s<0||(size_t)%s>8*%s.size()){returnfalse;}" % (n_, n_, seq)) in b or ("if(%s<0||%s>8*%s.size()){returnfalse;}" % (n_, n_, seq)) in b
    ctx.record(R, "cc_util/berlekamp_massey.cc:LfsrLength", "rejects n < 0 or n > 8 * seq.size()", okr, "bit count bounded by the bytes supplied" if okr else "range check changed: a bit length beyond the buffer would read uninitialised words")
    okw = ("std::vector<uint64_t>s((%s.size()+7)/8);" % seq) in b and re.search(r"s\[i/8\]\^=byte<<\(8\*\(i&7\)\);", b) is not None and ("uint64_tbyte=%s[i];" % seq) in b
    ctx.record(R, "cc_util/berlekamp_massey.cc:LfsrLength", "little-endian word assembly s[i/8] ^= byte << 8*(i&7)", okw, "bit j of the sequence = (seq[j/8] >> (j%8)) & 1 as the header states" if okw else
               "byte-to-word packing changed (byte order / shift)")
    okc = ("*%s=LfsrLengthImpl(s,%s);" % (out, n_)) in b
    ctx.record(R, "cc_util/berlekamp_massey.cc:LfsrLength", "passes (words, n) to LfsrLengthImpl", okc, "same bit count handed on" if okc else "implementation called with other arguments")
  okh = "bit j of the sequence is (seq[j / 8] >> (j % 8)) & 1" in hdr
  m2 = re.search(r"int\s+LfsrLengthStr\s*\(\s*const\s+std::string\s*&\s*(\w+)\s*,\s*int\s+(\w+)\s*\)\s*\{(.*?)\n\}", cc, re.S)
  oks = False
  if m2:
    seq2, n2, body2 = m2.groups()
    b2 = re.sub(r"\s+", "", body2)
    oks = ("LfsrLength(std::vector<uint8_t>(%s.begin(),%s.end()),%s,&length)" % (seq2, seq2, n2)) in b2 and "returnlength;" in b2
  pb = strip_cpp_comments(read(repo, "paranoid_crypto/lib/randomness_tests/cc_util/pybind/berlekamp_massey.cc"))
  okp = re.search(r'm\.def\(\s*"LfsrLength"\s*,\s*LfsrLengthStr\s*\)', pb) is not None and re.search(r"PYBIND11_MODULE\(\s*berlekamp_massey\s*,", pb) is not None
  ctx.record(R, "cc_util/pybind/berlekamp_massey.cc", "exports LfsrLength(bytes, n) = LfsrLengthStr", okh and oks and okp,
             "exported name, argument order and header contract agree with the Python caller" if okh and oks and okp else "export / wrapper / header contract changed (header=%s wrapper=%s export=%s)" % (okh, oks, okp))
  su = read(repo, "setup.py")
  oksu = "cc_util/berlekamp_massey.cc" in su and "cc_util/pybind/berlekamp_massey.cc" in su and \
      re.search(r"if arch in \('x86_64', 'AMD64'\):\s*(#[^\n]*\n\s*)*return \['-mpclmul'\]", su) is not None and \
      re.search(r"elif arch == 'aarch64':\s*(#[^\n]*\n\s*)*return \['-march=armv8-a\+crypto'\]", su) is not None
  ifdefs = "#ifdef __x86_64__" in read(repo, "paranoid_crypto/lib/randomness_tests/cc_util/berlekamp_massey.cc") and "#ifdef __aarch64__" in read(repo, "paranoid_crypto/lib/randomness_tests/cc_util/berlekamp_massey.cc")
  ctx.record(R, "setup.py", "both sources built; -mpclmul / +crypto gated on the machine types the #ifdefs test", oksu and ifdefs,
             "build flags and preprocessor gates agree" if oksu and ifdefs else "build configuration no longer matches the preprocessor gates")


# ------------------------------------------------------------------ BM: the pure-Python routine refines Massey's algorithm
def aligned(v, base):
  """Abstract value of a big-integer expression: {ghost polynomial: alignment a} meaning XOR of (s * ghost) >> a.
  base maps head symbols to their abstract value; >> adds to the alignment, ^ merges.  None when outside the fragment."""
  if isinstance(v, (Seq, Const)):
    return None
  p = as_poly(v)
  a = p.as_atom()
  if a is None:
    return None
  for k, val in base:
    if k == p:
      return dict(val)
  if a.kind == "shr" and len(a.args) == 2:
    x = aligned(a.args[0], base)
    if x is None:
      return None
    return {g: al + as_poly(a.args[1]) for g, al in x.items()}
  if a.kind == "bxor":
    out = {}
    for arg in a.args:
      x = aligned(arg, base)
      if x is None:
        return None
      for g, al in x.items():
        if g in out:
          return None       # the same polynomial twice: outside the fragment
        out[g] = al
    return out
  return None


def subst_eqs(p, facts, syms):
  """Rewrites p with the linear equalities of the path (coefficient +-1 in one of syms)."""
  for fc in facts:
    if fc[0] == "cmp" and fc[1] == "Eq" and isinstance(fc[2], Poly) and isinstance(fc[3], Poly):
      e = fc[2] - fc[3]
      for sy in syms:
        at = sy.as_atom()
        if e.degree_in(at) == 1:
          rest = e.subst(at, Poly.const(0))
          c = (e - rest).subst(at, Poly.const(1)).as_int()
          if c in (1, -1):
            p = p.subst(at, rest * (-c))
            break
  return p


def rule_bm(ctx):
  R = "R-C14-BM"
  repo = ctx.repo
  f = repo.func(MOD, "LinearComplexityNative")
  w = sym.Walker(repo, f)
  w.run()
  S, LEN = [P("param", x) for x in f.params()[:2]]
  loops = [i for i in w.loop_info.values() if i["visits"]]
  if len(loops) != 1 or not isinstance(loops[0]["node"], ast.For):
    raise Incomplete("LinearComplexityNative: expected a single for-loop over the bit positions", f.where)
  info = loops[0]
  vis = info["visits"][0]
  it = None if isinstance(info["iter"], Seq) else as_poly(info["iter"])
  ok_it = it is not None and it in (sym.mk("range", LEN), sym.mk("range", Poly.const(0), LEN), sym.mk("range", Poly.const(0), LEN, Poly.const(1)))
  n = as_poly(vis["k"])
  head, pre, after = vis["head"].env, vis["pre_env"], vis["after_env"]
  paths = [bp for bp in info["body_paths"] if bp[4] is vis]
  NB = P("ghost", "nb")
  C, B = "C", "B"
  cands = [x for x in info["modified"] if x in head and pre.get(x) is not None and not isinstance(pre[x], Seq)
           and not (isinstance(pre[x], Const) and not isinstance(pre[x].v, int))]
  big = [x for x in cands if as_poly(pre[x]) == S]                      # variables initialised with the sequence itself
  small = [x for x in cands if x not in big and isinstance(pre[x], (Const, Poly)) and not (isinstance(pre[x], Const) and pre[x].v is None)
           and as_poly(pre[x]).as_int() == 0]
  verdict = None
  tried = []
  for sc in big:
    for sb in big:
      if sb == sc:
        continue
      for m in small:
        for dg in small:
          if dg == m:
            continue
          probs = check_bm(paths, vis, head, n, sc, sb, m, dg, NB)
          tried.append((sc, sb, m, dg, probs))
          if not probs:
            verdict = (sc, sb, m, dg)
  if verdict is None:
    # report the assignment with the fewest failed obligations
    tried.sort(key=lambda t: (sum("does not test" in x for x in t[4]), len(t[4])))
    why = tried[0][4] if tried else ["no pair of sequence-initialised integers and zero-initialised counters found"]
    ctx.violation(R, f.where, "loop body refines C <- C + x^(n-nb) B", "; ".join(why[:3]))
  else:
    sc, sb, m, dg = verdict
    ctx.ok(R, f.where, "loop body refines C <- C + x^(n-nb) B",
           "with %s = (s*C) >> (n - %s), %s = (s*B) >> (nb + 1), %s = L: discrepancy = coefficient n of s*C; no discrepancy keeps C, B, L; a discrepancy "
           "adds x^(n-nb)*B to C, and exactly when 2L <= n also (B, nb, L) <- (old C, n, n+1-L); %d paths" % (sc, m, sb, dg, len(paths)))
  ctx.record(R, f.where, "initial state and iteration space", ok_it and bool(big) and bool(small),
             "C = B = 1 (both products start as s), L = 0, skipped-step counter 0, nb = -1; n runs over range(length)" if ok_it and big and small else
             "the loop does not run n = 0 .. length-1 from the state C = B = 1, L = 0")
  rets = [t for t in w.terminals if t[0] == "return"]
  okr = bool(rets) and verdict is not None
  for kind, val, s in rets:
    if verdict is None or isinstance(val, Seq) or as_poly(val) != as_poly(after[verdict[3]]):
      okr = False
  ctx.record(R, f.where, "returns L after the last bit", okr, "the register length after processing all `length` bits (Massey 1969, Theorem 2: L is the linear complexity)"
             if okr else "the returned value is not the length variable after the loop")


def check_bm(paths, vis, head, n, sc, sb, m, dg, NB):
  SC, SB, M, L = [as_poly(head[x]) for x in (sc, sb, m, dg)]
  base = [(SC, {"C": n - M}), (SB, {"B": NB + 1})]
  syms = [M, L]
  probs = []
  for kind, val, s, since, v2 in paths:
    if kind not in ("fall", "continue"):
      probs.append("loop left by %s" % kind)
      continue
    facts = []
    for fc in s.facts[len(vis["head"].facts):]:
      if fc[0] == "cmp":
        facts.append(("cmp", fc[1], as_poly(fc[2]) if not isinstance(fc[2], Seq) else fc[2], as_poly(fc[3]) if not isinstance(fc[3], Seq) else fc[3]))
      else:
        facts.append(fc)
    # discrepancy decided on this path?
    d = None
    for fc in facts:
      x = None
      one = False
      if fc[0] == "cmp" and fc[1] in ("Eq", "NotEq") and isinstance(fc[3], Poly) and fc[3].as_int() == 0:
        x, pos = fc[2], fc[1] == "NotEq"
      elif fc[0] == "cmp" and fc[1] in ("Eq", "NotEq") and isinstance(fc[3], Poly) and fc[3].as_int() == 1:
        x, pos, one = fc[2], fc[1] == "Eq", True        # only meaningful for a 0/1-valued extraction (x >> j) & 1
      elif fc[0] in ("truthy", "falsy"):
        x, pos = as_poly(fc[1]), fc[0] == "truthy"
      if x is None:
        continue
      a = x.as_atom()
      if a is None or a.kind != "band" or len(a.args) != 2:
        continue
      for u, v in ((a.args[0], a.args[1]), (a.args[1], a.args[0])):
        ua = u.as_atom()
        bitpos = None
        if ua is not None and ((ua.kind == "shl" and ua.args[0].as_int() == 1) or (ua.kind == "pow" and as_poly(ua.args[0]).as_int() == 2)) and not one:
          av = aligned(v, base)
          if av is not None and set(av) == {"C"}:
            bitpos = av["C"] + ua.args[1]
        elif u.as_int() == 1:
          av = aligned(v, base)
          if av is not None and set(av) == {"C"}:
            bitpos = av["C"]
        if bitpos is not None:
          if (subst_eqs(bitpos - n, facts, syms)).is_zero():
            d = pos
          else:
            probs.append("the tested bit is coefficient %r of s*C, not coefficient n" % (bitpos,))
    if d is None:
      probs.append("a path does not test the discrepancy (coefficient n of s*C)")
      continue
    M2, L2 = as_poly(s.env[m]), as_poly(s.env[dg])
    asc, asb = aligned(s.env[sc], base), aligned(s.env[sb], base)
    if asc is None or asb is None:
      probs.append("%s / %s is updated by something other than >> and ^" % (sc, sb))
      continue
    eq = lambda p, q: subst_eqs(p - q, facts, syms).is_zero()
    if not d:
      if set(asc) != {"C"} or not eq(asc["C"], n + 1 - M2):
        probs.append("without a discrepancy %s must stay (s*C) >> (n+1 - %s)" % (sc, m))
      if set(asb) != {"B"} or not eq(asb["B"], NB + 1):
        probs.append("without a discrepancy %s changes alignment (%r instead of nb + 1): the next update adds a misaligned multiple of B" % (sb, asb.get("B")))
      if not eq(L2, L):
        probs.append("length changes without a discrepancy")
      continue
    # discrepancy: C' = C + x^(n-nb) B
    if set(asc) != {"C", "B"} or not eq(asc["C"], n + 1 - M2) or not eq(asc["B"], asc["C"] - (n - NB)):
      probs.append("on a discrepancy %s is not (s*(C + x^(n-nb) B)) >> (n+1 - %s): alignments %r" % (sc, m, asc))
    g = L * 2 - n
    change = None
    for fc in facts:
      if fc[0] != "cmp" or not isinstance(fc[2], Poly) or not isinstance(fc[3], Poly):
        continue
      e = fc[2] - fc[3]
      for sign in (1, -1):
        c = (e * sign - g).as_int()
        if c is None:
          continue
        op = fc[1] if sign == 1 else {"Lt": "Gt", "LtE": "GtE", "Gt": "Lt", "GtE": "LtE"}.get(fc[1], fc[1])
        # g + c  op  0
        if op == "LtE" and -c == 0 or op == "Lt" and -c == 1:
          change = True
        elif op == "Gt" and -c == 0 or op == "GtE" and -c == 1:
          change = False
        elif op in ("LtE", "Lt", "Gt", "GtE"):
          probs.append("length-change threshold is %s %d instead of 2L <= n" % (op, -c))
    if change is None:
      probs.append("a discrepancy path is not decided by 2L <= n")
    elif change:
      if set(asb) != {"C"} or not eq(asb["C"], n + 1):
        probs.append("on a length change %s must become (s * old C) >> (n + 1)" % sb)
      if not eq(L2, n + 1 - L):
        probs.append("on a length change L must become n + 1 - L")
    else:
      if set(asb) != {"B"} or not eq(asb["B"], NB + 1):
        probs.append("without a length change %s must stay untouched" % sb)
      if not eq(L2, L):
        probs.append("L changes although 2L > n")
  return sorted(set(probs))


# ------------------------------------------------------------------ SCATTER (the length handed to Berlekamp-Massey is the length of that sub-sequence)
def rule_scatter(ctx):
  """extended_nist_suite.LinearComplexityScatter: sub-sequence i of Scatter(bits, step) holds bits i, i + step, ...: ceil((N - i) / step) of them, N the number of
  bits scattered (n, or max_block_size * step after truncation).  LinearComplexity must get exactly that length - one bit more is a phantom trailing zero, and
  the shortest LFSR of the longer sequence is not the shortest LFSR of the sub-sequence - and LfsrLogProbability the same length."""
  R = "R-C14-SCATTER"
  repo = ctx.repo
  f = repo.func("randomness_tests.extended_nist_suite", "LinearComplexityScatter")
  w = sym.Walker(repo, f)
  w.run()
  bits, n = P("param", f.params()[0]), P("param", f.params()[1])
  seen = {}
  for e in w.events:
    if e.kind != "call" or e.data["name"] != "repo:randomness_tests.berlekamp_massey:LinearComplexity" or len(e.data["args"]) < 2:
      continue
    sq, size = as_poly(e.data["args"][0]).as_atom(), as_poly(e.data["args"][1])
    if sq is None or sq.kind != "idx":
      seen["?"] = "LinearComplexity is not applied to one scattered sub-sequence"
      continue
    sc = as_poly(sq.args[0]).as_atom()
    i_ = as_poly(sq.args[1])
    if sc is None or sc.kind != "call" or repr(sc.args[0]) != "lit('randomness_tests.util:Scatter')":
      seen["?"] = "the sub-sequences do not come from util.Scatter"
      continue
    B, step = as_poly(sc.args[1]), as_poly(sc.args[2])
    N = None
    if B == bits:
      N = n
    else:
      ba = B.as_atom()
      if ba is not None and ba.kind == "band":
        for x, y in ((ba.args[0], ba.args[1]), (ba.args[1], ba.args[0])):
          ya = (as_poly(y) + 1).as_atom()
          if as_poly(x) == bits and ya is not None and ya.kind == "pow" and as_poly(ya.args[0]).as_int() == 2:
            N = as_poly(ya.args[1])
    if N is None:
      seen[repr(B)[:40]] = "number of scattered bits not recognised"
      continue
    want = sym.mk("fdiv", N + step - 1 - i_, step)
    key = "N = %s" % repr(N)[:50]
    if N != n:
      # a truncation only shortens: the path knows N <= n (bits beyond the data would be phantom zeros of every sub-sequence)
      shorter = False
      for fc in e.facts:
        if fc[0] == "cmp" and isinstance(fc[2], Poly) and isinstance(fc[3], Poly):
          d_ = fc[2] - fc[3]
          if (fc[1] in ("Lt", "LtE") and (d_ - (N - n)).is_zero()) or (fc[1] in ("Gt", "GtE") and (d_ - (n - N)).is_zero()):
            shorter = True
      if not shorter:
        seen[key] = "the input is cut to %s bits on a path that does not know this is at most n: beyond the data every sub-sequence is padded with phantom zeros" % repr(N)[:40]
        continue
    if size != want:
      seen[key] = "sub-sequence %s has ceil((N - i) / step) bits, LinearComplexity is told %s" % (repr(i_)[:20], repr(size)[:90])
    else:
      seen.setdefault(key, None)
    # the probability is taken for the same length
    for e2 in w.events:
      if e2.kind == "call" and e2.data["name"] == "repo:randomness_tests.berlekamp_massey:LfsrLogProbability" and len(e2.data["args"]) >= 2 and \
         isinstance(e2.data["args"][1], Poly) and e2.data["args"][1] == as_poly(e.data["value"]) and as_poly(e2.data["args"][0]) != size:
        seen[key] = "LfsrLogProbability is evaluated for another length than the complexity was computed for"
  if not seen:
    ctx.incomplete(R, f.where, "lengths", "no LinearComplexity call on a scattered sub-sequence found")
  for key, why in sorted(seen.items()):
    ctx.record(R, f.where, "length of sub-sequence i (%s)" % key, why is None, why or "size = (N + step - 1 - i) // step for LinearComplexity and LfsrLogProbability alike")
