"""C14 - closed-form LFSR counts / log-probabilities and the Python<->C++ packing contract.
The equality of the three Berlekamp-Massey implementations is NOT decided (see DESIGN.md section 4)."""
from __future__ import annotations
import ast, os, re
from pcstatic import sym, regions, algebra, refmath
from pcstatic.core import Incomplete
from pcstatic.loader import norm
from pcstatic.poly import Poly, Atom, P
from pcstatic.sym import Const, Seq, as_poly

META = {
    "level": "other",
    "trusted_base": ["Python ast parser", "Rueppel's linear-complexity distribution (cross-validated in the checker by a textbook Berlekamp-Massey over all sequences up to length 12)",
                     "floor lemma n - 1 <= 2*(n // 2) <= n", "regex/brace scan of the C++ sources (no C++ semantics)"],
    "assumptions": ["first sentence of the property (the native, CLMUL and pure-Python routines compute the shortest LFSR and agree) is not decided by this check"],
    "explanation": ("LfsrCount / LfsrLogProbability are extracted as piecewise powers of two with linear exponents and proved equal to 2^min(2m-1, 2n-2m) "
                    "(resp. that exponent minus n) piece by piece with a small linear-arithmetic prover; zero/raise domains by region equivalence; "
                    "byte order, units and range checks across the Python/C++ boundary by writer/reader agreement."),
}
MOD = "randomness_tests.berlekamp_massey"


def run(ctx):
  rule_closed(ctx)
  rule_pack(ctx)
  ctx.expect("R-C14-CLOSED", 8, "pieces of both functions + domains + reference cross-validation")
  ctx.expect("R-C14-PACK", 5, "python side, C++ range, word assembly, export, setup")


def exponent_of(p):
  """p = 2^e with e linear -> e (Poly) else None."""
  i = p.as_int()
  if i is not None:
    if i > 0 and i & (i - 1) == 0:
      return Poly.const(i.bit_length() - 1)
    return None
  if len(p.t) != 1:
    return None
  (mono, c), = p.t.items()
  if c.denominator != 1 or c <= 0 or int(c) & (int(c) - 1):
    return None
  e = Poly.const(int(c).bit_length() - 1)
  for a, k in mono:
    if a.kind != "pow":
      return None
    b = a.args[0].as_int()
    if b is None or b <= 0 or b & (b - 1):
      return None
    e = e + a.args[1] * ((b.bit_length() - 1) * k)
  return e


def rule_closed(ctx):
  R = "R-C14-CLOSED"
  repo = ctx.repo
  n, m = P("param", "n"), P("param", "m")
  H = sym.mk("fdiv", n, Poly.const(2))
  lemmas = [n - H * 2, H * 2 - n + 1]          # n - 1 <= 2*(n // 2) <= n
  E1, E2 = m * 2 - 1, n * 2 - m * 2
  for fname, shift, zero_kind in (("LfsrCount", Poly.const(0), "return0"), ("LfsrLogProbability", n, "raise")):
    f = repo.func(MOD, fname)
    w = sym.Walker(repo, f)
    w.run()
    outside = []
    n_pieces = 0
    for e in w.events:
      if e.kind == "raise":
        outside.append([(c, pol) for c, pol, node in e.state.pc])
        continue
      if e.kind != "return" or e.node is None:
        continue
      v = as_poly(e.data["value"])
      conds = [(c, pol) for c, pol, node in e.state.pc]
      if zero_kind == "return0" and v.is_zero():
        outside.append(conds)
        continue
      ex = exponent_of(v) if fname == "LfsrCount" else v + shift
      key = norm(e.node)
      if ex is None:
        ctx.record(R, f.where, key, None, "returned value %r is not a power of two with a linear exponent" % (v,))
        continue
      n_pieces += 1
      facts = algebra.linear_facts(e.facts) + lemmas
      # inside the domain 0 <= m <= n, n >= 1 is implied by the negated outside-condition; add m >= 1 when m != 0 and m >= 0
      if any(f_[0] == "cmp" and f_[1] == "NotEq" and as_poly(f_[2]) == m and as_poly(f_[3]).is_zero() for f_ in e.facts) and \
         any((p_ - m).is_zero() for p_ in algebra.linear_facts(e.facts)):
        facts.append(m - 1)
      m_zero = any(f_[0] == "cmp" and f_[1] == "Eq" and as_poly(f_[2]) == m and as_poly(f_[3]).is_zero() for f_ in e.facts)
      if m_zero:
        ok = ex.is_zero()
        ctx.record(R, f.where, key, ok, "m = 0: exactly one sequence (all zero), exponent 0" if ok else "m = 0 piece has exponent %r, expected 0" % (ex,))
        continue
      if (ex - E1).is_zero():
        ok, why = algebra.prove_nonneg(E2 - E1, facts)
        ctx.record(R, f.where, key, ok, "exponent 2m - 1 = min(2m-1, 2n-2m) on this piece: %s" % why if ok else "exponent 2m - 1 is not the minimum on this piece: %s" % why)
      elif (ex - E2).is_zero():
        ok, why = algebra.prove_nonneg(E1 - E2, facts)
        ctx.record(R, f.where, key, ok, "exponent 2n - 2m = min(2m-1, 2n-2m) on this piece: %s" % why if ok else "exponent 2n - 2m is not the minimum on this piece: %s" % why)
      else:
        ctx.violation(R, f.where, key, "exponent %r is neither 2m - 1 nor 2n - 2m (Rueppel: count = 2^min(2m-1, 2n-2m))" % (ex,))
    ok, d = regions.equivalent_mixed(outside, lambda v: v[m] < 0 or v[n] <= 0 or v[m] > v[n], mains=[n, m]) if outside else (False, "no outside-domain branch")
    ctx.record(R, f.where, ("count = 0" if zero_kind == "return0" else "raises") + " <=> not (n >= 1 and 0 <= m <= n)", ok, d)
    if n_pieces < 3:
      ctx.incomplete(R, f.where, "pieces", "expected three pieces (m = 0, m <= n//2, m > n//2), found %d" % n_pieces)
  # reference distribution cross-validated by the checker's own Berlekamp-Massey
  maxlen = 14 if ctx.tier == "thorough" else 11
  bad = None
  for L in range(1, maxlen + 1):
    counts = [0] * (L + 1)
    for x in range(1 << L):
      bits = [(x >> i) & 1 for i in range(L)]
      counts[refmath.berlekamp_massey(bits)] += 1
    want = [refmath.lfsr_count(L, k) for k in range(L + 1)]
    if counts != want:
      bad = (L, counts, want)
      break
  ctx.record(R, "pcstatic.refmath", "reference distribution vs textbook Berlekamp-Massey", bad is None,
             "exhaustive over all sequences of length <= %d" % maxlen if bad is None else "reference mismatch at length %d" % bad[0])


def read(repo, rel):
  p = os.path.join(repo.root, rel)
  try:
    with open(p, encoding="utf-8") as fh:
      return fh.read()
  except OSError:
    raise Incomplete("%s not found" % rel, rel)


def strip_cpp_comments(s):
  s = re.sub(r"//[^\n]*", "", s)
  return re.sub(r"/\*.*?\*/", "", s, flags=re.S)


def rule_pack(ctx):
  R = "R-C14-PACK"
  repo = ctx.repo
  f = repo.func(MOD, "LinearComplexity")
  w = sym.Walker(repo, f)
  w.run()
  s, length = P("param", "s"), P("param", "length")
  size = sym.mk("fdiv", length + 7, Poly.const(8))
  probs = []
  rets = [e for e in w.events if e.kind == "return" and e.node is not None]
  if not rets:
    probs.append("no return")
  for e in rets:
    v = as_poly(e.data["value"]).as_atom()
    if v is None or v.kind != "extcall" or not str(v.args[0].as_atom().args[0]).endswith("pybind.berlekamp_massey.LfsrLength"):
      probs.append("does not call the native LfsrLength")
      continue
    ba, ln = v.args[1], v.args[2]
    want = sym.mk("pm", s, P("lit", "to_bytes"), size, P("lit", "'little'"))
    if ba != want:
      probs.append("bytes are not s.to_bytes((length + 7) // 8, 'little'): %r" % (ba,))
    if ln != length:
      probs.append("second argument is not the length in bits")
  raises = [e for e in w.events if e.kind == "raise"]
  rng = [[(c, pol) for c, pol, node in e.state.pc] for e in raises]
  ok, d = regions.equivalent_dnf(rng, lambda v: not (0 <= v[size] < 2 ** 31), main=size) if rng else (False, "no range guard")
  if not ok:
    probs.append("size guard is not `0 <= size < 2**31`: %s" % d)
  ctx.record(R, f.where, "to_bytes(ceil(length/8), 'little'), length in bits, 0 <= size < 2^31", not probs, "; ".join(probs) or "python side of the contract")
  cc = strip_cpp_comments(read(repo, "paranoid_crypto/lib/randomness_tests/cc_util/berlekamp_massey.cc"))
  hdr = read(repo, "paranoid_crypto/lib/randomness_tests/cc_util/berlekamp_massey.h")
  m_ = re.search(r"bool\s+LfsrLength\s*\(\s*const\s+std::vector<uint8_t>\s*&\s*(\w+)\s*,\s*int\s+(\w+)\s*,\s*int\s*\*\s*(\w+)\s*\)\s*\{(.*?)\n\}", cc, re.S)
  if not m_:
    ctx.incomplete(R, "cc_util/berlekamp_massey.cc:LfsrLength", "definition", "function not found by the brace scan")
  else:
    seq, n_, out, body = m_.groups()
    b = re.sub(r"\s+", "", body)
    okr = ("if(%s<0||(size_t)%s>8*%s.size()){returnfalse;}" % (n_, n_, seq)) in b or ("if(%s<0||%s>8*%s.size()){returnfalse;}" % (n_, n_, seq)) in b
    ctx.record(R, "cc_util/berlekamp_massey.cc:LfsrLength", "rejects n < 0 or n > 8 * seq.size()", okr, "bit count bounded by the bytes supplied" if okr else "range check changed: a bit length beyond the buffer would read uninitialised words")
    okw = ("std::vector<uint64_t>s((%s.size()+7)/8);" % seq) in b and re.search(r"s\[i/8\]\^=byte<<\(8\*\(i&7\)\);", b) is not None and ("uint64_tbyte=%s[i];" % seq) in b
    ctx.record(R, "cc_util/berlekamp_massey.cc:LfsrLength", "little-endian word assembly s[i/8] ^= byte << 8*(i&7)", okw, "bit j of the sequence = (seq[j/8] >> (j%8)) & 1 as the header states" if okw else
               "byte-to-word packing changed (byte order / shift)")
    okc = ("*%s=LfsrLengthImpl(s,%s);" % (out, n_)) in b
    ctx.record(R, "cc_util/berlekamp_massey.cc:LfsrLength", "passes (words, n) to LfsrLengthImpl", okc, "same bit count handed on" if okc else "implementation called with other arguments")
  okh = "bit j of the sequence is (seq[j / 8] >> (j % 8)) & 1" in hdr
  m2 = re.search(r"int\s+LfsrLengthStr\s*\(\s*const\s+std::string\s*&\s*(\w+)\s*,\s*int\s+(\w+)\s*\)\s*\{(.*?)\n\}", cc, re.S)
  oks = False
  if m2:
    seq2, n2, body2 = m2.groups()
    b2 = re.sub(r"\s+", "", body2)
    oks = ("LfsrLength(std::vector<uint8_t>(%s.begin(),%s.end()),%s,&length)" % (seq2, seq2, n2)) in b2 and "returnlength;" in b2
  pb = strip_cpp_comments(read(repo, "paranoid_crypto/lib/randomness_tests/cc_util/pybind/berlekamp_massey.cc"))
  okp = re.search(r'm\.def\(\s*"LfsrLength"\s*,\s*LfsrLengthStr\s*\)', pb) is not None and re.search(r"PYBIND11_MODULE\(\s*berlekamp_massey\s*,", pb) is not None
  ctx.record(R, "cc_util/pybind/berlekamp_massey.cc", "exports LfsrLength(bytes, n) = LfsrLengthStr", okh and oks and okp,
             "exported name, argument order and header contract agree with the Python caller" if okh and oks and okp else "export / wrapper / header contract changed (header=%s wrapper=%s export=%s)" % (okh, oks, okp))
  su = read(repo, "setup.py")
  oksu = "cc_util/berlekamp_massey.cc" in su and "cc_util/pybind/berlekamp_massey.cc" in su and \
      re.search(r"if arch in \('x86_64', 'AMD64'\):\s*(#[^\n]*\n\s*)*return \['-mpclmul'\]", su) is not None and \
      re.search(r"elif arch == 'aarch64':\s*(#[^\n]*\n\s*)*return \['-march=armv8-a\+crypto'\]", su) is not None
  ifdefs = "#ifdef __x86_64__" in read(repo, "paranoid_crypto/lib/randomness_tests/cc_util/berlekamp_massey.cc") and "#ifdef __aarch64__" in read(repo, "paranoid_crypto/lib/randomness_tests/cc_util/berlekamp_massey.cc")
  ctx.record(R, "setup.py", "both sources built; -mpclmul / +crypto gated on the machine types the #ifdefs test", oksu and ifdefs,
             "build flags and preprocessor gates agree" if oksu and ifdefs else "build configuration no longer matches the preprocessor gates")
