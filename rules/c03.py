"""C03 - shared-factor detection is exact for every batch shape (empty batch, dedup, verdict predicates, tree induction)."""
from __future__ import annotations
import ast
from pcstatic import sym, algebra, fold, regions
from pcstatic.abseval import A, C, EMPTY, UNK, Evaluator, Definite
from pcstatic.core import Incomplete
from pcstatic.loader import norm
from pcstatic.poly import Poly, Atom, P
from pcstatic.sym import Const, Seq, as_poly
from . import template as T
from . import c01, c18

META = {
    "level": "other",
    "trusted_base": ["Python ast parser", "Python slice/zip/zip_longest/list semantics", "gmpy2.gcd",
                     "number-theoretic lemma: T = sum(P/v) is congruent to P/v modulo v", "pcstatic engine"],
    "assumptions": ["the rule is an induction over tree levels read from the list-level code, not a run on any batch"],
    "explanation": ("Empty batch by abstract evaluation; dedup -> tree -> re-expansion alignment symbolically; verdict predicates by "
                    "region equivalence; product-tree recurrence T = sum P/v by structural induction with a polynomial step identity "
                    "and parent/child index agreement of the remainder tree."),
}
lit = c01.lit
NONE = P("lit", "None")


def run(ctx):
  repo = ctx.repo
  rule_empty(ctx)
  rule_dedup(ctx)
  rule_verdict(ctx)
  rule_other(ctx)
  rule_tree(ctx)
  rule_remainder(ctx)
  # "a key is flagged exactly when ...", "all orderings": the entry recorded for a key carries the verdict computed for that key (shared with C16)
  from . import c16
  c16.rule_isolated(ctx, T.bodies(ctx.repo), "R-C03-OWN", lambda w: w.endswith(("CheckGCD.Check", "CheckGCDN1.Check")))
  ctx.expect("R-C03-OWN", 2, "CheckGCD and CheckGCDN1")
  # "the recorded factor is that gcd", "flagged exactly when": the helpers the two checks record through - the entry looked up is the one with exactly the
  # check's name (CheckGCD is a prefix of CheckGCDN1), an existing factor record is updated, factor sets are merged (shared with C16 / C01)
  ctx.borrow(c16.rule_mono, "R-C03-RECORD", lambda r: r.construct in ("lookup-by-name", "attach-info"))
  ctx.borrow(c01.rule_merge, "R-C03-RECORD")
  ctx.expect("R-C03-RECORD", 4, "GetTestResult, GetAttachedInfo, AttachInfo, AttachFactors")
  ctx.expect("R-C03-EMPTY", 3, "CheckGCD, CheckGCDN1, BatchGCD")
  ctx.expect("R-C03-VERDICT", 4, "two predicates + two recorded values")
  ctx.expect("R-C03-TREE", 7, "seven obligations of the product tree")
  ctx.expect("R-C03-REMAINDER", 4, "four obligations of the remainder tree")


def rule_empty(ctx):
  R = "R-C03-EMPTY"
  repo = ctx.repo
  tables = c18.const_tables(repo)
  for cname in ("CheckGCD", "CheckGCDN1"):
    c = repo.cls("rsa_aggregate_checks", cname)
    f = c.methods.get("Check")
    if f is None:
      raise Incomplete("%s.Check vanished" % cname, "rsa_aggregate_checks")
    ev = Evaluator(repo, tables)
    try:
      r = ev.call_func(f, [EMPTY], {}, A("obj", cname))
    except Definite as d:
      ctx.violation(R, f.where, "Check(empty batch)", "definite exception: " + d.chain)
      continue
    ctx.record(R, f.where, "Check(empty batch)", True if (r.k == "const" and r.v is False) else (False if r.k == "const" else None),
               "returns %r" % (r,))
  f = repo.func("rsa_util", "BatchGCD")
  ev = Evaluator(repo, tables)
  try:
    r = ev.call_func(f, [EMPTY], {})
    ctx.record(R, f.where, "BatchGCD(empty)", True if r.k == "empty" else (None if r.k == "unk" else False), "returns %r" % (r,))
  except Definite as d:
    ctx.violation(R, f.where, "BatchGCD(empty)", "definite exception: " + d.chain)


def rule_dedup(ctx):
  R = "R-C03-DEDUP"
  repo = ctx.repo
  f = repo.func("rsa_util", "BatchGCD")
  w = sym.Walker(repo, f)
  w.run()
  values = P("param", f.params()[0])
  calls = [e for e in w.events if e.kind == "call" and e.data["name"] == "repo:ntheory_util:ExtendedProductTree"]
  ok = bool(calls)
  for e in calls:
    a = as_poly(e.data["args"][0]) if e.data["args"] else None
    if a != sym.mk("set", values):
      ok = False
  ctx.record(R, f.where, "tree input = set(values)", ok, "the product tree is built over the distinct moduli: identical moduli never meet each other" if ok else
             "ExtendedProductTree is not applied to the de-duplicated values (duplicates would accuse each other)")
  pr = c01.Prover(ctx)
  res = []
  ctx2 = ctx
  ok = pr.batchgcd()   # records R-C01-CERT row as well (shared obligation)
  ctx.record(R, f.where, "re-expansion over `values`", ok, "result = [D[v] for v in values]: same length and order as the input, identical moduli get identical entries" if ok
             else "result is not re-expanded over the input list through the value-keyed dict")
  # shortcut returns ([] / [1] * len(values)) are exact only when fewer than two distinct moduli exist and no
  # extra product was supplied: with one distinct modulus v the specified entry is gcd(v, other_values_prod)
  for e in getattr(pr, "batchgcd_trivial", []):
    facts = list(e.state.facts)
    few = False
    for fct in facts:
      if fct[0] == "cmp":
        _, op, a, b = fct
        a, b = as_poly(a), as_poly(b)
        if a in (sym.mk("len", sym.mk("set", values)), sym.mk("len", values)):
          c = b.as_int()
          if c is not None and ((op == "Lt" and c <= 2) or (op == "LtE" and c <= 1) or (op == "Eq" and c in (0, 1))):
            few = True
      elif fct[0] == "falsy" and as_poly(fct[1]) in (values, sym.mk("set", values)):
        few = True
    other = [q for q in f.params()[1:]]
    no_extra = not other
    for q in other:
      o = P("param", q)
      for fct in facts:
        if fct[0] == "falsy" and as_poly(fct[1]) == o:
          no_extra = True
        if fct[0] == "cmp" and fct[1] in ("Is", "Eq") and as_poly(fct[2]) == o and repr(fct[3]) in ("None", "Const(None)", "0"):
          no_extra = True
    line = getattr(e.node, "lineno", 0)
    if few and no_extra:
      ctx.ok(R, f.where, "shortcut return (line %d)" % line, "taken only with fewer than two distinct moduli and no extra product: all gcds are 1")
    else:
      ctx.violation(R, f.where, "shortcut return of all-ones", "the early return is taken " + ("with two or more distinct moduli possible" if not few else
                    "although `%s` may be supplied: a single modulus dividing the extra product must not get gcd 1" % other[0]))
  # move the shared row under this property's rule id for evidence clarity
  for r in ctx.results:
    if r.rule == "R-C01-CERT":
      r.rule = "R-C03-DEDUP"


def rule_verdict(ctx):
  R = "R-C03-VERDICT"
  repo = ctx.repo
  for cname, spec_name in (("CheckGCD", "ne1"), ("CheckGCDN1", "gebound")):
    b = [x for x in T.bodies(repo) if x.cls.name == cname and x.cls.module.short == "rsa_aggregate_checks"]
    if not b:
      raise Incomplete("%s vanished" % cname, "rsa_aggregate_checks")
    b = b[0]
    where = b.where()
    pos, neg = [], []
    gterm = None
    for info in b.result_loops():
      for kind, val, s, since, visit in info["body_paths"]:
        evs = b.path_events(s, since)
        is_pos = any(e.kind == "setattr" and e.data["attr"] == "result" for e in evs)
        conds = [(c, pol) for c, pol, node in s.pc[len(visit["head"].pc):]]
        (pos if is_pos else neg).append(conds)
        k = visit["k"]
        vals_atoms = [e for e in b.events if e.kind == "call" and e.data["name"] == "repo:rsa_util:BatchGCD"]
        if vals_atoms:
          gterm = sym.mk("idx", as_poly(vals_atoms[0].data["value"]), k)
    if gterm is None:
      ctx.violation(R, where, "verdict predicate", "no BatchGCD result is consulted")
      continue
    if spec_name == "ne1":
      spec = lambda v: v[gterm] != 1
      spec_txt = "gcds[i] != 1"
    else:
      # instance attributes are replaced by what the constructor stores in them, so the predicate is read in terms of the configured bound
      # itself (the constructor parameter), whatever attribute(s) it is kept in
      init = b.cls.methods.get("__init__")
      sub = {}
      bound = None
      if init is not None:
        wi = sym.Walker(repo, init)
        wi.run()
        ip = [q for q in init.params() if q != "self"]
        bound = P("param", ip[0]) if ip else None
        for e in wi.events:
          if e.kind == "setattr" and as_poly(e.data["base"]) == P("param", "self") and not isinstance(e.data["value"], (Seq, Const, tuple)):
            sub[sym.mk("attr", P("param", "self"), e.data["attr"]).as_atom()] = as_poly(e.data["value"])
      if bound is None:
        ctx.incomplete(R, where, "flag <=> gcd >= configured bound", "constructor parameter for the bound not found")
        continue

      def subst_cond(c):
        if c[0] == "cmp":
          out = []
          for x in (c[2], c[3]):
            if isinstance(x, (Seq, Const, tuple)):
              out.append(x)
              continue
            px = as_poly(x)
            for at, val in sub.items():
              px = sym.rebuild(px.deep_subst(at, val))
            out.append(px)
          return ("cmp", c[1], out[0], out[1])
        if c[0] in ("and", "or"):
          return (c[0], [subst_cond(x) for x in c[1]])
        if c[0] == "not":
          return ("not", subst_cond(c[1]))
        return c
      pos = [[(subst_cond(c), pol) for c, pol in path] for path in pos]
      spec = lambda v: v[gterm] >= v[bound]
      spec_txt = "gcds[i] >= configured bound"
    verdict, detail = regions.equivalent_dnf(pos, spec, main=gterm, extra_atoms=[bound.as_atom()] if spec_name != "ne1" else ())
    ctx.record(R, where, "flag <=> " + spec_txt, verdict, detail)
    # recorded value is the gcd that was tested
    att = b.calls(T.ATTACH_FACTORS)
    okv = bool(att)
    for e in att:
      X = e.data["args"][2] if len(e.data["args"]) > 2 else None
      first = X.items[0] if isinstance(X, Seq) and X.items else None
      if first is None or as_poly(first) != gterm_of(e, gterm):
        okv = False
    ctx.record(R, where, "recorded factor is the tested gcd", okv, "first recorded element is gcds[i] of the same i" if okv else
               "the recorded factor is not the gcd value the verdict was computed from")
    # the batch handed to BatchGCD
    calls = b.calls("repo:rsa_util:BatchGCD")
    okb = bool(calls)
    for e in calls:
      a = as_poly(e.data["args"][0]).as_atom() if e.data["args"] else None
      if not (a is not None and a.kind == "map" and a.args[2] == b.artifacts):
        okb = False
        continue
      elt = a.args[0]
      want = c01.modulus_of(sym.mk("idx", b.artifacts, Poly.atom(a.args[1])))
      if cname == "CheckGCDN1":
        want = want - 1
      if elt != want:
        okb = False
      if len(e.data["args"]) > 1 or e.data["kwargs"]:
        pass
    ctx.record(R, where, "batch = moduli of all artifacts", okb, "BatchGCD receives [n(key)%s for key in artifacts]" % (" - 1" if cname == "CheckGCDN1" else "")
               if okb else "the values handed to BatchGCD are not the (shifted) moduli of the whole batch")
  # default bound
  c = repo.cls("rsa_aggregate_checks", "CheckGCDN1")
  init = c.methods.get("__init__")
  ok = False
  detail = "constructor missing"
  if init is not None:
    d = init.default_of("gcd_bound")
    val = fold.try_fold(d) if d is not None else None
    stored = any(norm(s) == "self._gcd_bound = gcd_bound" for s in init.node.body)
    ok = val == 2 ** 128 and stored
    detail = "default gcd_bound folds to 2**128 and is stored unchanged" if ok else "default gcd_bound = %r, stored=%s" % (val, stored)
  ctx.record(R, "rsa_aggregate_checks:CheckGCDN1.__init__", "gcd_bound default", ok, detail)


def gterm_of(e, gterm):
  return gterm


def rule_other(ctx):
  R = "R-C03-OTHER"
  repo = ctx.repo
  f = repo.func("rsa_util", "BatchGCD")
  w = sym.Walker(repo, f)
  w.run()
  if len(f.params()) < 2:
    ctx.ok(R, f.where, "optional product", "no optional extra product argument")
    return
  other = P("param", f.params()[1])
  t0 = sym.mk("idx", sym.mk("call", lit("ntheory_util:ExtendedProductTree"), sym.mk("set", P("param", f.params()[0]))), Poly.const(1))
  # the seed of the remainder tree by role: the one-element list the level loop starts from (whatever the local is called)
  RN = "remainders"
  for i_ in w.loop_info.values():
    if isinstance(i_["node"], ast.While):
      for v_ in i_.get("visits", [])[:1]:
        for nm_, pv_ in (v_.get("pre_env") or {}).items():
          if isinstance(pv_, Seq) and len(pv_.items) == 1 and pv_.kind == "list":
            RN = nm_
  seeds = [e for e in w.events if e.kind == "assign" and e.data["name"] == RN and not e.state.tags]
  ok = bool(seeds)
  why = []
  for e in seeds:
    v = e.data["value"]
    truthy = any(f_[0] == "truthy" and as_poly(f_[1]) == other for f_ in e.facts) or \
        any(f_[0] == "cmp" and f_[1] in ("IsNot", "NotEq") and as_poly(f_[2]) == other for f_ in e.facts)
    want = t0 * other if truthy else t0
    if not (isinstance(v, Seq) and len(v.items) == 1 and as_poly(v.items[0]) == want):
      ok = False
      why.append("remainder tree is seeded with %r, expected [%s]" % (v, "T * other_values_prod" if truthy else "T"))
  ctx.record(R, f.where, "t *= other_values_prod", ok, "; ".join(why) or "extra product multiplied into T iff supplied, before the remainder tree is seeded")


# ------------------------------------------------------------------ product tree
def sl(x, lo):
  return sym.mk("slice", x, NONE if lo is None else Poly.const(lo), NONE, Poly.const(2))


def rule_tree(ctx):
  R = "R-C03-TREE"
  repo = ctx.repo
  for fname in ("ExtendedProductTree", "FastProduct"):
    f = repo.func("ntheory_util", fname)
    w = sym.Walker(repo, f)
    w.run()
    values0 = P("param", f.params()[0])
    loops = [i for i in w.loop_info.values() if isinstance(i["node"], ast.While)]
    if len(loops) != 1:
      ctx.violation(R, f.where, "level loop", "expected exactly one level loop")
      continue
    info = loops[0]
    ext = fname == "ExtendedProductTree"
    # T7 loop condition
    c = None
    for v in info["visits"]:
      c = w.cond(info["node"].test, v["head"])
      lenv = sym.mk("len", as_poly(v["head"].env["values"])) if "values" in v["head"].env else None
    okc, detc = regions.equivalent_dnf([[(c, True)]], lambda v: v[lenv] > 1, main=lenv) if lenv is not None else (None, "no `values` variable")
    ctx.record(R, f.where, "loop while len(values) > 1", okc, detc)
    # the T list and the tree by role (their values before the level loop), whatever the locals are called
    TN, PN = "t", "prod_tree"
    for v in info["visits"][:1]:
      for nm_, pv_ in (v.get("pre_env") or {}).items():
        if isinstance(pv_, Poly) and pv_ == sym.mk("listrep", P("seq", Poly.const(1)), sym.mk("len", values0)):
          TN = nm_
        if isinstance(pv_, Seq) and len(pv_.items) == 1 and isinstance(pv_.items[0], Poly) and pv_.items[0] == values0:
          PN = nm_
    if ext:
      # T1 base
      base = [e for e in w.events if e.kind == "assign" and e.data["name"] == TN and not e.state.tags]
      okb = bool(base) and all(as_poly(e.data["value"]) == sym.mk("listrep", P("seq", Poly.const(1)), sym.mk("len", values0)) for e in base)
      ctx.record(R, f.where, "base: t = [1] * len(values)", okb, "leaf level: T = P/v = 1 for every leaf" if okb else "leaf-level T is not all ones of the batch length")
      pt = [e for e in w.events if e.kind == "assign" and e.data["name"] == PN and not e.state.tags]
      okp = bool(pt) and all(isinstance(e.data["value"], Seq) and len(e.data["value"].items) == 1 and as_poly(e.data["value"].items[0]) == values0 for e in pt)
      ctx.record(R, f.where, "base: prod_tree = [values]", okp, "tree starts with the leaf level" if okp else "tree does not start with the leaf level")
    probs_t, probs_v, probs_c, probs_a = [], [], [], []
    n_paths = 0
    for kind, val, s, since, visit in info["body_paths"]:
      n_paths += 1
      head = visit["head"]
      vh = as_poly(head.env.get("values"))
      evs = [w.events[i] for i in s.trace[since:]]
      # T3 values step
      vas = [e for e in evs if e.kind == "assign" and e.data["name"] == "values"]
      if len(vas) != 1:
        probs_v.append("values rebuilt %d times in one level step" % len(vas))
      else:
        m = as_poly(vas[0].data["value"]).as_atom()
        good = False
        if m is not None and m.kind == "map":
          elt, bv, src = m.args
          b = Poly.atom(bv)
          PL, PR = sym.mk("idx", sl(vh, None), b), sym.mk("idx", sl(vh, 1), b)
          want_src = sym.mk("zip_longest", sl(vh, None), sl(vh, 1), P("kw", "fillvalue", Poly.const(1)))
          sa = src.as_atom()
          same_shape = sa is not None and sa.kind == "zip_longest" and sorted(map(repr, sa.args)) == sorted(map(repr, want_src.as_atom().args))
          if (elt - PL * PR).is_zero() and same_shape:
            good = True
          elif (elt - PL * PR).is_zero():
            probs_v.append("children are not paired as (2k, 2k+1) with neutral fill value 1: %r" % (src,))
            good = None
        if good is False:
          probs_v.append("P_parent != P_left * P_right")
      if ext:
        th = as_poly(head.env.get(TN))
        # value semantics: at the end of a level step the T list is M = [T_L*P_R + T_R*P_L over the paired children], followed on odd levels by the
        # old last element (however it was built: comprehension or append loop, in place or through a temporary)
        t_end = s.env.get(TN)
        carried = None
        core = as_poly(t_end).as_atom() if isinstance(t_end, Poly) else None
        n_app = 0
        while core is not None and core.kind == "mut" and len(core.args) == 4 and core.args[1] == P("lit", "append"):
          carried = as_poly(core.args[2]) if n_app == 0 else carried
          n_app += 1
          core = as_poly(core.args[0]).as_atom()
        m = core
        good = False
        if m is not None and m.kind == "map":
          elt, bv, src = m.args
          b = Poly.atom(bv)
          TL, TR = sym.mk("idx", sl(th, None), b), sym.mk("idx", sl(th, 1), b)
          PL, PR = sym.mk("idx", sl(vh, None), b), sym.mk("idx", sl(vh, 1), b)
          res = elt - (TL * PR + TR * PL)
          sa = src.as_atom()
          # zip truncates to the shortest slice: any zip over the even/odd slices that contains an odd one has floor(n/2) items
          same_shape = sa is not None and sa.kind == "zip" and all(x in (sl(th, None), sl(th, 1), sl(vh, None), sl(vh, 1)) for x in sa.args)
          if res.is_zero() and same_shape:
            good = True
          elif res.is_zero():
            probs_t.append("T step pairs the wrong children: %r" % (src,))
            good = None
          else:
            probs_t.append("T_parent - (T_L*P_R + T_R*P_L) = %r (not zero)" % (res,))
            good = None
        if good is False:
          probs_t.append("T step is not a comprehension over the paired children")
        # T4 carry of the unpaired node
        par = sym.mk("mod", sym.mk("len", vh), Poly.const(2))        # parity of the level: a value in {0, 1}
        def parity_fact(f_):
          """1 / 0 when the fact fixes the parity (== 1, != 0, == 0, != 1, either operand order), None otherwise."""
          if f_[0] in ("truthy", "falsy") and not isinstance(f_[1], Seq) and as_poly(f_[1]) == par:
            return 1 if f_[0] == "truthy" else 0
          if f_[0] != "cmp" or f_[1] not in ("Eq", "NotEq") or isinstance(f_[2], Seq) or isinstance(f_[3], Seq):
            return None
          x, y = as_poly(f_[2]), as_poly(f_[3])
          if y == par:
            x, y = y, x
          if x != par or y.as_int() not in (0, 1):
            return None
          return y.as_int() if f_[1] == "Eq" else 1 - y.as_int()
        pf = [p_ for p_ in (parity_fact(f_) for f_ in s.facts) if p_ is not None]
        odd = 1 in pf
        notodd = 0 in pf
        if odd:
          if n_app != 1 or carried is None or carried != sym.mk("idx", th, Poly.const(-1)):
            probs_c.append("odd level: the unpaired last T is not carried unchanged (t.append(t_old[-1]))")
        elif notodd:
          if n_app:
            probs_c.append("even level: an extra element is appended to t")
        else:
          if n_app:
            probs_c.append("t.append is not conditioned on len(values) % 2 == 1")
          else:
            probs_c.append("no parity test: the unpaired node of an odd level is dropped")
        # T5 prod_tree.append(values_new)
        pa = [e for e in evs if e.kind == "mutate" and isinstance(e.data["target"], ast.Name) and e.data["target"].id == PN]
        if len(pa) != 1 or pa[0].data["method"] != "append" or not vas or as_poly(pa[0].data["args"][0]) != as_poly(vas[0].data["value"]):
          probs_a.append("the new level is not appended exactly once to prod_tree")
      if kind not in ("fall", "continue"):
        probs_v.append("level loop left by `%s`" % kind)
    ctx.record(R, f.where, "step: P_parent = P_left * P_right", not probs_v, "; ".join(sorted(set(probs_v))) or
               "values' = [a*b for (a,b) in zip_longest(values[::2], values[1::2], fillvalue=1)] (%d paths)" % n_paths)
    if ext:
      ctx.record(R, f.where, "step: T_parent = T_L*P_R + T_R*P_L", not probs_t, "; ".join(sorted(set(probs_t))) or
                 "polynomial identity holds with children paired (2k, 2k+1) in t and values alike")
      ctx.record(R, f.where, "step: unpaired node carried", not probs_c, "; ".join(sorted(set(probs_c))) or
                 "t.append(last_t) exactly on odd levels, last_t read before t is rebuilt; values carries it through fill value 1")
      ctx.record(R, f.where, "step: level appended", not probs_a, "; ".join(sorted(set(probs_a))) or "prod_tree.append(values') once per level")
      rets = [e for e in w.events if e.kind == "return" and e.node is not None and not e.facts_empty_batch()] if False else \
          [e for e in w.events if e.kind == "return" and e.node is not None]
      okr = True
      n_main = 0
      for e in rets:
        v = e.data["value"]
        if isinstance(v, Seq) and len(v.items) == 2:
          second = as_poly(v.items[1])
          a = second.as_atom()
          if a is not None and a.kind == "idx" and a.args[1] == Poly.const(0):
            n_main += 1
            continue
          if second.as_int() == 0 and any(f_[0] == "falsy" and as_poly(f_[1]) == values0 for f_ in e.facts):
            continue   # the empty-batch guard: T of an empty sum
        okr = False
      ctx.record(R, f.where, "root: return (prod_tree, t[0])", okr and n_main >= 1, "T at the root is returned" if okr and n_main else "does not return the root T")
    else:
      rets = [e for e in w.events if e.kind == "return" and e.node is not None]
      okr = any(as_poly(e.data["value"]).as_atom() is not None and as_poly(e.data["value"]).as_atom().kind == "idx" for e in rets)
      oke = any(as_poly(e.data["value"]).as_int() == 1 and any(f_[0] == "falsy" for f_ in e.facts) for e in rets)
      ctx.record(R, f.where, "root / empty product", okr and oke, "returns values[0] at the root and 1 for an empty list" if okr and oke else
                 "FastProduct does not return the root / the empty product 1")


def rule_remainder(ctx):
  """The remainder tree, by roles and values (no local names): the tree variable T is the one whose levels are popped, the level variable L receives the
  popped level, the remainder variable is the other list the leaf step zips with the last level.  One pass of the level loop must turn the parent
  remainders P into a list of len(level) entries, entry i being P[i // 2] or P[i // 2] % level[i] - written by one store per node into a fresh list of the
  level's length, or as a comprehension over range(len(level))."""
  R = "R-C03-REMAINDER"
  repo = ctx.repo
  f = repo.func("rsa_util", "BatchGCD")
  w = sym.Walker(repo, f)
  w.run()
  outer = [i for i in w.loop_info.values() if isinstance(i["node"], ast.While)]
  if len(outer) != 1 or not outer[0].get("visits"):
    ctx.violation(R, f.where, "remainder tree", "expected one level loop")
    return
  oc = outer[0]
  inside = {id(x) for x in ast.walk(oc["node"])}
  inner = [i for i in w.loop_info.values() if isinstance(i["node"], ast.For) and id(i["node"]) in inside]
  # ---- roles
  def popped(v_):
    a_ = v_.as_atom() if isinstance(v_, Poly) else None
    return a_.args[0] if a_ is not None and a_.kind == "mcall" and len(a_.args) >= 2 and a_.args[1] == P("lit", "pop") else None
  L = T = None
  for kind, val, s_, since, visit in oc["body_paths"]:
    for nm, v_ in s_.env.items():
      src_ = popped(v_)
      if src_ is not None and nm in oc["modified"]:
        tn = [n_ for n_ in oc["modified"] if isinstance(visit["head"].env.get(n_), Poly) and visit["head"].env[n_] == src_]
        if tn:
          L, T = nm, tn[0]
  values = P("param", f.params()[0])
  leaf = []          # (return event, K, V, bv, src)
  for e in w.events:
    if e.kind != "return":
      continue
    ra = as_poly(e.data["value"]).as_atom() if not isinstance(e.data["value"], (Seq, Const, tuple)) else None
    if ra is None or ra.kind != "map" or ra.args[2] != values:
      continue
    ea = ra.args[0].as_atom()
    d = ea.args[0].as_atom() if ea is not None and ea.kind == "idx" else None
    m = d.args[0].as_atom() if d is not None and d.kind == "dictof" else None
    kv = m.args[0].as_atom() if m is not None and m.kind == "map" else None
    if kv is not None and kv.kind == "seq" and len(kv.args) == 2:
      leaf.append((e, kv.args[0], kv.args[1], Poly.atom(m.args[1]), m.args[2]))
    else:
      leaf.append((e, None, None, None, None))
  Rv = None
  if L is not None:
    for e, K, V, b, src in leaf:
      za = src.as_atom() if src is not None else None
      if za is None or za.kind != "zip" or len(za.args) != 2:
        continue
      for vis in oc["visits"]:
        aft = vis.get("after_env") or {}
        nms = [[n_ for n_, x_ in aft.items() if isinstance(x_, Poly) and x_ == z_] for z_ in za.args]
        if all(nms) and L in nms[0] + nms[1]:
          other = [n_ for n_ in (nms[1] if L in nms[0] else nms[0]) if n_ not in (L, T)]
          if other:
            Rv = other[0]
  if L is None or T is None or Rv is None:
    ctx.violation(R, f.where, "remainder tree", "cannot identify the popped level, the tree and the remainder list (%s, %s, %s)" % (L, T, Rv))
    return
  # R2: levels popped from the end while the tree is non-empty
  okp = True
  for v in oc["visits"]:
    c = w.cond(oc["node"].test, v["head"])
    if not (c[0] == "truthy" and as_poly(c[1]) == as_poly(v["head"].env.get(T))):
      okp = False
  pops = [e for e in w.events if e.kind == "mutate" and e.data["method"] == "pop"]
  okp = okp and bool(pops) and all(not e.data["args"] or as_poly(e.data["args"][0]) == Poly.const(-1) for e in pops)
  ctx.record(R, f.where, "levels root -> leaves", okp, "while prod_tree: level = prod_tree.pop()  (levels were appended leaf -> root)" if okp else
             "levels are not consumed from the root (last appended) downwards until the tree is empty")
  # R3: one pass of the level loop
  def node_value_ok(v, parent_of, level, k, probs):
    """v is the remainder of node k: parent[k // 2] or parent[k // 2] % level[k]"""
    v = as_poly(v)
    par_ = parent_of(k)
    if v == par_ or v == sym.mk("mod", par_, sym.mk("idx", level, k)):
      return
    va = v.as_atom()
    if va is not None and va.kind == "mod" and va.args[0] == par_:
      probs.append("remainder reduced modulo %r, not the node's own value unique_values[i]" % (va.args[1],))
    else:
      probs.append("child does not read its parent's remainder prev[i // 2]: %r" % (v,))
  def alts_of(v):
    a_ = v.as_atom() if isinstance(v, Poly) else None
    if a_ is not None and a_.kind == "ite" and len(a_.args) == 3:
      return alts_of(a_.args[1]) + alts_of(a_.args[2])
    return [v]
  probs, book = [], []
  n = 0
  pairs = []         # (parent remainders, level) of every pass of the level loop
  for kind, val, s_, since, visit in oc["body_paths"]:
    if kind not in ("fall", "continue"):
      probs.append("level loop left by `%s`" % kind)
      continue
    prevR = as_poly(visit["head"].env.get(Rv))
    level = as_poly(s_.env.get(L))
    pairs.append((prevR, level))
    newR = s_.env.get(Rv)
    na = newR.as_atom() if isinstance(newR, Poly) else None
    if na is not None and na.kind == "map":
      # comprehension form
      body, bv, src = na.args
      b = Poly.atom(bv)
      if src != sym.mk("range", sym.mk("len", level)):
        book.append("new remainder list does not have the level's length")
      for alt in alts_of(body):
        n += 1
        node_value_ok(alt, lambda k_: sym.mk("idx", prevR, sym.mk("fdiv", k_, Poly.const(2))), level, b, probs)
    elif not inner:
      probs.append("the level's remainders are neither stored node by node nor built as a comprehension: %r" % (newR,))
  for il in inner:
    for kind, val, s_, since, visit in il["body_paths"]:
      n += 1
      evs = [w.events[i] for i in s_.trace[since:]]
      stores = [e for e in evs if e.kind == "store" and not e.data.get("synthetic")]
      if len(stores) != 1:
        probs.append("a node gets %d remainder stores" % len(stores))
        continue
      e = stores[0]
      k = visit["k"]
      head = visit["head"]
      level = as_poly(head.env.get(L))
      mine = [p_ for p_, l_ in pairs if l_ == level]
      if not mine:
        probs.append("per-node loop does not run on the popped level")
        continue
      prevR = mine[0]
      if as_poly(e.data["base"]) != as_poly(head.env.get(Rv)):
        probs.append("the node's remainder is not stored into the new remainder list")
      if as_poly(e.data["index"]) != k:
        probs.append("remainder stored at %r instead of the node's own index" % (e.data["index"],))
      node_value_ok(e.data["value"], lambda k_: sym.mk("idx", prevR, sym.mk("fdiv", k_, Poly.const(2))), level, k, probs)
      rng = as_poly(visit["iter"])
      if rng != sym.mk("range", sym.mk("len", level)) and rng != sym.mk("enumerate", level):
        probs.append("per-node loop does not cover range(len(level))")
      if kind not in ("fall", "continue"):
        probs.append("per-node loop left by `%s`" % kind)
      pre = (visit.get("pre_env") or {}).get(Rv)
      if pre is None or as_poly(pre) != sym.mk("listrep", P("seq", NONE), sym.mk("len", level)):
        book.append("new remainder list does not have the level's length")
  if n == 0:
    probs.append("no per-node remainder found")
  ctx.record(R, f.where, "child i reads parent i // 2, reduces mod its own value", not probs, "; ".join(sorted(set(probs))) or
             "%d paths: remainders[i] = prev[i // 2], optionally reduced mod unique_values[i] - both preserve the residue modulo the leaf" % n)
  ctx.record(R, f.where, "level bookkeeping", not book and not probs, "; ".join(sorted(set(book))) or ("see the per-node row" if probs else
             "parent = the previous level's remainders; the new list has the level's length"))
  # R4 leaf: {v: gcd(v, r) for v, r in zip(last level, its remainders)}
  ok = bool(leaf)
  for e, K, V, b, src in leaf:
    good = False
    if K is not None:
      for vis in oc["visits"]:
        aft = vis.get("after_env") or {}
        if not isinstance(aft.get(L), Poly) or not isinstance(aft.get(Rv), Poly):
          continue
        U, Rm = aft[L], aft[Rv]
        za = src.as_atom()
        if za is None or za.kind != "zip" or sorted(map(repr, za.args)) != sorted(map(repr, (U, Rm))):
          continue
        iu, ir = sym.mk("idx", U, b), sym.mk("idx", Rm, b)
        if K == iu and V in (sym.mk("gcd", iu, ir), sym.mk("gcd", ir, iu)):
          good = True
    ok = ok and good
  ctx.record(R, f.where, "leaf: gcd(v, r) position-wise", ok, "{v: gcd(v, r) for v, r in zip(leaf level, its remainders)}" if ok else
             "leaf gcds are not gcd(value, its own remainder) zipped position-wise")
