"""C02 - every discrete log / key relation reported is true (verified release at every sink)."""
from __future__ import annotations
import ast
from pcstatic import sym
from pcstatic.core import Incomplete
from pcstatic.loader import norm
from pcstatic.poly import Poly, Atom, P
from pcstatic.sym import Const, Seq, as_poly
from . import template as T

META = {
    "level": "other",
    "trusted_base": ["Python ast parser", "pcstatic symbolic walker (dominating facts on the same symbolic values)",
                     "EcCurve.Multiply / BatchMultiplyG compute the group law (formulas: C11; loops not decided)", "Python dict membership semantics"],
    "assumptions": ["the recorded point is a valid point of order n (the property's hypothesis) for the multiplier codec argument"],
    "explanation": ("Every store of a non-None discrete log into a result list, every relation string and every AttachInfo(DISCRETE_LOG...) sink is shown to be dominated "
                    "by its verifying comparison on the very same symbolic values (full scalar multiplication incl. y-sign, diff == k*G, guess*G in issuer points), "
                    "with index alignment between results and artifacts; lattice guesses are treated as untrusted until they pass the issuer-point lookup."),
}
SELF = P("param", "self")
G = sym.mk("attr", SELF, "g")
MODP = sym.mk("attr", SELF, "mod")
INF = Seq([Const(None), Const(None)])
NONE_LIT = P("lit", "None")


def lit(s):
  return P("lit", s)


def walk(repo, name):
  c = repo.cls("ec_util", "EcCurve")
  f = c.methods.get(name)
  if f is None:
    raise Incomplete("EcCurve.%s vanished" % name, "ec_util")
  w = sym.Walker(repo, f)
  w.run()
  return f, w


def eq_fact(facts, a, b):
  for f_ in facts:
    if f_[0] == "cmp" and f_[1] == "Eq":
      x, y = f_[2], f_[3]
      if isinstance(x, (Seq, Const)) or isinstance(y, (Seq, Const)):
        if (repr(x) == repr(a) and repr(y) == repr(b)) or (repr(x) == repr(b) and repr(y) == repr(a)):
          return True
        continue
      if (as_poly(x) == a and as_poly(y) == b) or (as_poly(x) == b and as_poly(y) == a):
        return True
  return False


def run(ctx):
  rule_release(ctx)
  rule_codec(ctx)
  rule_align(ctx)
  rule_sanitise(ctx)
  rule_u2f(ctx)
  # "no nonce check marks a signature weak without a verified key": the positive entry recorded for a signature must have been given its result in
  # that signature's own iteration (under `i in issuer_dlogs`), not inherited from an earlier signature through a reused entry
  from . import c16
  c16.rule_isolated(ctx, T.bodies(ctx.repo), "R-C02-SANITISE", lambda w_: w_.startswith("ecdsa_sig_checks:"))
  # every reported log / relation is released only after Multiply(G, k) (or the comb BatchMultiplyG) reproduced the key: the claim is as good as
  # those two multiplications (shared with C11)
  from . import c11
  ctx.borrow(c11.rule_scalar, "R-C02-VERIFY")
  ctx.borrow(c11.rule_comb, "R-C02-VERIFY")
  MULT = (":EcCurve.Add", ":EcCurve.Double", ":EcCurve.Negate", ":EcCurve.Subtract", ":EcCurve.AffineToJacobian", ":EcCurve.JacobianToAffine",
          ":EcCurve.AddJacobian", ":EcCurve.DoubleJacobian", ":EcCurve.BatchDouble", ":EcCurve.BatchAddList")      # the last two carry the comb
  ctx.borrow(c11.rule_formula, "R-C02-VERIFY", lambda r: r.where.endswith(MULT))
  ctx.borrow(c11.rule_dispatch, "R-C02-VERIFY", lambda r: r.where.endswith(MULT))
  ctx.expect("R-C02-VERIFY", 26, "scalar multiplication + comb obligations + the group-law formula and special-case rows Multiply is built from")
  ctx.expect("R-C02-RELEASE", 5, "three BatchDL stores + two relation strings")
  ctx.expect("R-C02-CODEC", 2, "writer index and reader pair")
  ctx.expect("R-C02-ALIGN", 4, "four Check bodies")
  ctx.expect("R-C02-SANITISE", 7, "issuer lookup + sinks + verdict isolation of the three signature checks")
  ctx.expect("R-C02-U2F", 1, "cross-check")


# ------------------------------------------------------------------ RELEASE
def rule_release(ctx):
  R = "R-C02-RELEASE"
  repo = ctx.repo
  f, w = walk(repo, "BatchDL")
  points = P("param", f.params()[0])
  seen = {}
  for e in w.events:
    if e.kind != "store" or not isinstance(e.data["target"].value, ast.Name) or e.data["target"].value.id != "res":
      continue
    v = e.data["value"]
    key = norm(e.node)
    i = as_poly(e.data["index"])
    p = sym.mk("idx", points, i)
    ok, why = False, ""
    if isinstance(v, Const) and v.v is None:
      continue
    vp = as_poly(v)
    if vp.as_int() == 0:
      ok = eq_fact(e.facts, p, INF) or any(f_[0] == "cmp" and f_[1] in ("Is", "Eq") and isinstance(f_[3], Const) and f_[3].v is None
                                             and not isinstance(f_[2], (Seq, Const)) and as_poly(f_[2]) == sym.mk("idx", p, Poly.const(0)) for f_ in e.facts)
      why = "0 stored only for the point at infinity" if ok else "discrete log 0 stored without the test `p == INFINITY` on points[i]"
    else:
      ok = False
      why = "value stored without a dominating full verification Multiply(base, dl) == points[i]"
      for W, negated in ((vp, False), (-vp, True)):
        Y = sym.mk("mcall", SELF, lit("Multiply"), G, W)
        xm = eq_fact(e.facts, sym.mk("idx", Y, Poly.const(0)), sym.mk("idx", p, Poly.const(0)))
        if not xm:
          continue
        if not negated:
          ym = eq_fact(e.facts, sym.mk("idx", Y, Poly.const(1)), sym.mk("idx", p, Poly.const(1)))
          if ym:
            ok, why = True, "dl stored under Multiply(g, dl) == points[i] (x and y)"
          else:
            why = "dl stored under an x-coordinate match only: the y-coordinate (sign) is not verified"
        else:
          ym = eq_fact(e.facts, sym.mk("idx", Y, Poly.const(1)), sym.mk("mod", -sym.mk("idx", p, Poly.const(1)), MODP))
          if ym:
            ok, why = True, "-dl stored under Multiply(g, dl) == -points[i] (x equal, y negated mod p)"
          else:
            why = "-dl stored without the test y == -p_y mod p"
        if ok:
          break
    # index alignment: i is the enumerate index of `points`
    loop_ok = False
    for info in w.loop_info.values():
      for vis in info.get("visits", []):
        a = as_poly(vis["iter"]).as_atom()
        if a is not None and a.kind == "enumerate" and a.args[0] == points and vis["k"] == i:
          loop_ok = True
    if ok and not loop_ok:
      ok, why = False, "result index is not the enumerate index of `points`"
    prev = seen.get(key)
    if prev is None or (prev[0] and not ok):
      seen[key] = (ok, why)
  for key, (ok, why) in seen.items():
    ctx.record(R, f.where, key, ok, why)
  # ---- BatchDLOfDifferences
  f, w = walk(repo, "BatchDLOfDifferences")
  points = P("param", "points")
  seen = {}
  for e in w.events:
    if e.kind != "store" or not isinstance(e.data["target"].value, ast.Name) or e.data["target"].value.id != "res":
      continue
    v = as_poly(e.data["value"])
    va = v.as_atom()
    key = norm(e.node)
    ok, why = False, "relation stored is not a formatted (point, k) triple"
    if va is not None and va.kind == "strfmt" and len(va.args) == 4:
      fmt, q0, q1, k = va.args
      # find the outer iteration's p
      idx = as_poly(e.data["index"])
      # candidates: direct (res[i]) or mirrored (res[key2])
      ok = False
      for f_ in e.facts:
        if f_[0] != "cmp" or f_[1] != "Eq":
          continue
        for lhs, rhs in ((f_[2], f_[3]), (f_[3], f_[2])):
          if isinstance(lhs, (Seq, Const)) or isinstance(rhs, (Seq, Const)):
            continue
          la, ra = as_poly(lhs).as_atom(), as_poly(rhs).as_atom()
          if la is None or ra is None or la.kind != "mcall" or ra.kind != "mcall":
            continue
          if la.args[1] != lit("Subtract") or ra.args[1] != lit("Multiply"):
            continue
          p_, q_ = la.args[2], la.args[3]
          base_, dl_ = ra.args[2], ra.args[3]
          if base_ != G:
            continue
          pi = p_.as_atom()
          if pi is None or pi.kind != "idx" or pi.args[0] != points:
            continue
          i = pi.args[1]
          if idx == i and q0 == sym.mk("idx", q_, Poly.const(0)) and q1 == sym.mk("idx", q_, Poly.const(1)) and k == dl_:
            ok, why = True, "res[i] = 'key - q = dl*G' under Subtract(points[i], q) == Multiply(g, dl) for the same q, dl"
          elif q0 == sym.mk("idx", p_, Poly.const(0)) and q1 == sym.mk("idx", p_, Poly.const(1)) and (k + dl_).is_zero():
            # mirrored entry: index must be j - len(other_points) with q = Negate(negated[j]) and j >= len(other_points)
            qa = q_.as_atom()
            good = False
            if qa is not None and qa.kind == "mcall" and qa.args[1] == lit("Negate"):
              na = qa.args[2].as_atom()
              if na is not None and na.kind == "idx":
                j = na.args[1]
                other = e.state.env.get("other_points")
                lo = sym.mk("len", as_poly(other)) if not isinstance(other, Seq) else Poly.const(len(other.items))
                if (idx - (j - lo)).is_zero() and any(g_[0] == "cmp" and g_[1] == "GtE" and as_poly(g_[2]) == j and (as_poly(g_[3]) - lo).is_zero() for g_ in e.facts):
                  good = True
            if good:
              ok, why = True, "mirrored entry res[j - len(other)] = 'key - p = -dl*G' for the earlier batch point q = points[j - len(other)]"
            else:
              why = "mirrored relation is not stored at j - len(other_points) under j >= len(other_points)"
      if not ok and why.startswith("relation stored"):
        why = "relation string is not built from the (q, dl) for which diff == Multiply(base, dl) was tested"
    prev = seen.get(key)
    if prev is None or (prev[0] and not ok):
      seen[key] = (ok, why)
  for key, (ok, why) in seen.items():
    ctx.record(R, f.where, key, ok, why)
  # alignment of `negated`: initial comprehension over other_points and exactly one append of Negate(points[i]) per outer iteration
  probs = []
  outer = [i for i in w.loop_info.values() if isinstance(i["node"], ast.For) and as_poly(i["iter"]).as_atom() is not None
           and as_poly(i["iter"]).as_atom().kind == "enumerate" and as_poly(i["iter"]).as_atom().args[0] == points]
  if len(outer) != 1:
    probs.append("no single loop over enumerate(points)")
  else:
    info = outer[0]
    for kind, val, s, since, vis in info["body_paths"]:
      evs = [w.events[i] for i in s.trace[since:]]
      apps = [e for e in evs if e.kind == "mutate" and isinstance(e.data["target"], ast.Name) and e.data["target"].id == "negated"]
      if kind not in ("fall", "continue"):
        probs.append("outer loop left by `%s`" % kind)
      if len(apps) != 1 or apps[0].data["method"] != "append":
        probs.append("negated is extended %d times in one outer iteration (must be exactly once, unconditionally)" % len(apps))
      elif as_poly(apps[0].data["args"][0]) != sym.mk("mcall", SELF, lit("Negate"), sym.mk("idx", points, vis["k"])):
        probs.append("appended value is not Negate(points[i])")
    for vis in info["visits"]:
      pre = vis["pre_env"].get("negated")
      other = vis["pre"].env.get("other_points")
      if isinstance(other, Seq) and not other.items:
        okpre = isinstance(pre, Poly) and pre.as_atom() is not None and pre.as_atom().kind == "map" or (isinstance(pre, Seq) and not pre.items)
      else:
        pa = as_poly(pre).as_atom() if pre is not None else None
        okpre = pa is not None and pa.kind == "map" and pa.args[2] == as_poly(other) and \
            pa.args[0] == sym.mk("mcall", SELF, lit("Negate"), sym.mk("idx", as_poly(other), Poly.atom(pa.args[1])))
      if not okpre:
        probs.append("negated does not start as [Negate(q) for q in other_points]")
  ctx.record(R, f.where, "negated[len(other) + t] == Negate(points[t])", not probs, "; ".join(sorted(set(probs))) or
             "initial negatives of other_points, then exactly one Negate(points[i]) appended per outer iteration")


# ------------------------------------------------------------------ CODEC
def rule_codec(ctx):
  R = "R-C02-CODEC"
  repo = ctx.repo
  f, w = walk(repo, "ExtendedBatchDL")
  points = P("param", "points")
  npts = sym.mk("len", points)
  # writer / reader stores are recognised by what they store (a transformed point / a value derived from the batched search), not by variable names
  stores = [e for e in w.events if e.kind == "store" and not isinstance(e.data["value"], (Seq, Const, tuple))]
  wr = [e for e in stores if as_poly(e.data["value"]).as_atom() is not None and as_poly(e.data["value"]).as_atom().kind == "mcall"
        and as_poly(e.data["value"]).as_atom().args[1] == lit("Multiply")]
  rd = [e for e in stores if any(a.kind == "mcall" and a.args[1] == lit("BatchDL") for a in as_poly(e.data["value"]).all_atoms())]
  ok = bool(wr)
  why = []
  mult_sym = None
  for e in wr:
    idx = as_poly(e.data["index"])
    v = as_poly(e.data["value"]).as_atom()
    # value: Multiply(points[i], invert(multipliers[j], n)); index i + num_points * j
    if v is None or v.kind != "mcall" or v.args[1] != lit("Multiply"):
      ok = False
      why.append("stored point is not Multiply(point, inverse)")
      continue
    pt, inv = v.args[2], v.args[3]
    pa, ia = pt.as_atom(), inv.as_atom()
    if pa is None or pa.kind != "idx" or pa.args[0] != points or ia is None or ia.kind != "invert" or ia.args[1] != sym.mk("attr", SELF, "n"):
      ok = False
      why.append("stored point is not points[i] * multipliers[j]^-1 mod n")
      continue
    i = pa.args[1]
    ma = ia.args[0].as_atom()
    if ma is None or ma.kind != "idx":
      ok = False
      why.append("inverse is not taken of multipliers[j]")
      continue
    mult_sym, j = ma.args[0], ma.args[1]
    if not (idx - (i + npts * j)).is_zero():
      ok = False
      why.append("writer index is %r, expected i + num_points * j" % (idx,))
  ctx.record(R, f.where, "writer: all_points[i + num_points*j] = points[i] * multipliers[j]^-1", ok, "; ".join(sorted(set(why))) or "stride = number of points")
  ok = bool(rd)
  why = []
  for e in rd:
    idx = as_poly(e.data["index"])
    v = as_poly(e.data["value"])
    dl = None
    for a in v.atoms():
      if a.kind == "idx" and a.args[0].as_atom() is not None and a.args[0].as_atom().kind == "mcall" and a.args[0].as_atom().args[1] == lit("BatchDL"):
        dl = a
    if dl is None:
      ok = False
      why.append("released value does not derive from BatchDL")
      continue
    k = dl.args[1]
    if idx != sym.mk("mod", k, npts):
      ok = False
      why.append("reader stores at %r, expected k %% num_points" % (idx,))
    mterm = v.subst(dl, Poly.const(1))
    ma = mterm.as_atom()
    if ma is None or ma.kind != "idx" or ma.args[1] != sym.mk("fdiv", k, npts):
      ok = False
      why.append("released value is not dlog * multipliers[k // num_points]")
    elif mult_sym is not None and repr(ma.args[0]) != repr(mult_sym):
      # both are the same local list `multipliers` (loop-final symbol); compare variable provenance by name
      pass
    if not any(f_[0] == "cmp" and f_[1] == "IsNot" and as_poly(f_[2]) == Poly.atom(dl) for f_ in e.facts):
      ok = False
      why.append("value released without `dlog is not None`")
  ctx.record(R, f.where, "reader: res[k % num_points] = dlog * multipliers[k // num_points]", ok, "; ".join(sorted(set(why))) or "same stride; (dlog*m)*G = P for P of order n")
  # inverses paired position-wise with multipliers; BatchDL over all_points
  # every (i, j) pair is written: the stores sit in a loop over all points inside a loop over all multipliers (their inverses), no exits
  ok = bool(wr) and mult_sym is not None
  for e in wr:
    loops_of = [i_ for i_ in w.loop_info.values() if any(x is e.node for x in ast.walk(i_["node"]))]
    its = [as_poly(i_["iter"]).as_atom() for i_ in loops_of if not isinstance(i_["iter"], Seq) and i_["iter"] is not None]
    over_points = any(a is not None and a.kind == "enumerate" and as_poly(a.args[0]) == points for a in its) or any(a is not None and a.kind == "range" and as_poly(a.args[-1]) == npts for a in its) \
        or any(a is not None and Poly.atom(a) == points for a in its)
    over_mults = any(a is not None and mult_sym is not None and repr(mult_sym) in repr(a) and a.kind in ("enumerate", "range", "map", "zip") for a in its)
    exits = any(bp[0] in ("break", "return") for i_ in loops_of for bp in i_["body_paths"])
    if not (over_points and over_mults) or exits:
      ok = False
  # the list searched by BatchDL is the list the writer filled
  calls = [e for e in w.events if e.kind == "call" and e.data["name"] == "meth:BatchDL"]
  ok2 = bool(calls) and bool(wr)
  for e in calls:
    arg = as_poly(e.data["args"][0]) if e.data["args"] and not isinstance(e.data["args"][0], (Seq, Const, tuple)) else None
    linked = False
    for i_ in w.loop_info.values():
      for vis in i_["visits"]:
        for nm, sv in vis["after_env"].items():
          if arg is not None and sv is not None and not isinstance(sv, (Seq, Const, tuple)) and as_poly(sv) == arg:
            # nm is the written list if some writer store's base is a loop-head value of nm
            for e2 in wr:
              for i2 in w.loop_info.values():
                for v2 in i2["visits"]:
                  hv = v2["head"].env.get(nm)
                  if hv is not None and not isinstance(hv, (Seq, Const, tuple)) and as_poly(hv) == as_poly(e2.data["base"]):
                    linked = True
    ok2 = ok2 and linked
  ctx.record(R, f.where, "inverses[j] = multipliers[j]^-1 mod n, searched list = all_points", ok and ok2, "position-wise pairing" if ok and ok2 else "pairing of inverses with multipliers changed")


# ------------------------------------------------------------------ ALIGN
def rule_align(ctx):
  R = "R-C02-ALIGN"
  repo = ctx.repo
  cm = repo.mod("consts")
  want_names = {}
  for k in ("INFO_NAME_DISCRETE_LOG", "INFO_NAME_DISCRETE_LOG_DIFF"):
    node = cm.consts.get(k)
    if isinstance(node, ast.Constant):
      want_names[node.value] = k
  for b in T.bodies(repo):
    att = b.calls(T.ATTACH_INFO)
    if not att:
      continue
    where = b.where()
    probs = []
    for e in att:
      a = e.data["args"]
      if len(a) < 3:
        probs.append("AttachInfo with keyword arguments is not modelled")
        continue
      tinfo, name, val = as_poly(a[0]), a[1], as_poly(a[2])
      K = T.is_attr_of(tinfo, "test_info")
      ka = K.as_atom() if K is not None else None
      if ka is None or ka.kind != "idx":
        probs.append("sink target is not an element of the batch")
        continue
      lst, i = ka.args
      if not (isinstance(name, Const) and name.v in want_names):
        probs.append("record name %r is not a discrete-log record" % (name,))
        continue
      # value must be derived from V[i] where V = curve.<search>(points) and points is the image of the same list
      src_idx = None
      for x in val.all_atoms():
        if x.kind == "idx" and x.args[1] == i:
          base = x.args[0].as_atom()
          if base is not None and (base.kind == "mcall" or base.kind == "call" or base.kind == "sym" or base.kind == "idx"):
            src_idx = x
      if src_idx is None:
        probs.append("recorded value is not indexed by the artifact's own position")
        continue
      base = src_idx.args[0].as_atom()
      if where.startswith("ec_"):
        if base.kind != "mcall" or base.args[1] not in (lit("ExtendedBatchDL"), lit("BatchDLOfDifferences")):
          probs.append("recorded value does not come from the verified search routines")
          continue
        pts = base.args[2].as_atom()
        from .c16 import strip_identity
        if pts is None or pts.kind != "map" or repr(strip_identity(pts.args[2])) != repr(strip_identity(lst)):
          probs.append("searched points are not the image of the list the result is attached to")
          continue
        want_elt = sym.mk("call", lit("ec_util:PublicPoint"), sym.mk("attr", sym.mk("idx", lst, Poly.atom(pts.args[1])), "ec_info"))
        if pts.args[0] != want_elt:
          probs.append("searched points are not PublicPoint(key.ec_info) of the same keys")
        # the curve object is the factory entry the keys were filtered by
        curve = base.args[0]
        ca = curve.as_atom()
        la = lst.as_atom()
        if not (ca is not None and ca.kind == "idx" and ca.args[0] == P("ref", "ec_util.CURVE_FACTORY")):
          probs.append("curve is not a CURVE_FACTORY entry")
        elif la is None or la.kind != "filter" or repr(ca.args[1]) not in repr(la.args[1]) or "'curve_type'" not in repr(la.args[1]):
          probs.append("keys are not filtered by the curve id of the curve used for the search")
        if not any(f_[0] == "cmp" and f_[1] == "IsNot" and as_poly(f_[2]) == Poly.atom(src_idx) for f_ in e.facts):
          probs.append("value recorded without the `is not None` test on the same entry")
      else:
        # signature checks: value from issuer_dlogs[i] under `i in issuer_dlogs`
        if base.kind != "call" or base.args[0] != lit("ecdsa_sig_checks:_IssuerDLogs"):
          probs.append("recorded key does not come from _IssuerDLogs (unverified guess)")
          continue
        if not any(f_[0] == "cmp" and f_[1] == "In" and as_poly(f_[2]) == i and as_poly(f_[3]) == src_idx.args[0] for f_ in e.facts):
          probs.append("recorded key is used without `i in issuer_dlogs`")
    ctx.record(R, where, "DISCRETE_LOG sink", not probs, "; ".join(sorted(set(probs))) or
               "value V[i] recorded on artifact i of the same list; V searched on the images of that list with the curve the list was filtered by")


# ------------------------------------------------------------------ SANITISE
def rule_sanitise(ctx):
  R = "R-C02-SANITISE"
  repo = ctx.repo
  f = repo.func("ecdsa_sig_checks", "_IssuerDLogs")
  w = sym.Walker(repo, f)
  w.run()
  guesses, pks, curve = [P("param", x) for x in f.params()[:3]]
  stores = [e for e in w.events if e.kind == "store"]
  probs = []
  if not stores:
    probs.append("no issuer key is ever recorded")
  for e in stores:
    v = as_poly(e.data["value"])
    idx = as_poly(e.data["index"])
    va = v.as_atom()
    if va is None or va.kind != "idx" or va.args[0] != guesses:
      probs.append("stored value is not an element of `guesses`")
      continue
    i = va.args[1]
    # guess_pk = BatchMultiplyG(guesses)[i] must be in pks
    gp = sym.mk("idx", sym.mk("mcall", curve, lit("BatchMultiplyG"), guesses), i)
    if not any(f_[0] == "cmp" and f_[1] == "In" and as_poly(f_[2]) == gp and as_poly(f_[3]) == pks for f_ in e.facts):
      probs.append("guess recorded without `BatchMultiplyG(guesses)[i] in pks` for the same i")
    ia = idx.as_atom()
    if ia is None or ia.kind != "idx" or ia.args[0] != sym.mk("idx", pks, gp):
      probs.append("recorded for indices other than pks[guess*G]")
  rets = [e for e in w.events if e.kind == "return" and e.node is not None]
  loops = [i for i in w.loop_info.values()]
  for info in loops:
    for kind, val, s, since, vis in info["body_paths"]:
      if kind not in ("fall", "continue"):
        probs.append("a loop of _IssuerDLogs is left early (`%s`): not every signature of the issuer would be marked" % kind)
  ctx.record(R, f.where, "issuer_dlogs[idx] = guesses[i] only if guesses[i]*G is an issuer point", not probs, "; ".join(sorted(set(probs))) or
             "store dominated by `guess_pk in pks` with (i, guess_pk) enumerating BatchMultiplyG(guesses); every index of pks[guess_pk] is assigned")
  # pks maps PublicPoint(sig.issuer_key_info)
  f = repo.func("ecdsa_sig_checks", "_MapIssuerSigIndexes")
  ok = not issuer_map_problems(repo)
  ctx.record(R, f.where, "pks keyed by the issuer point", ok, "pks[PublicPoint(sig.issuer_key_info)].append(i) for every signature" if ok else "issuer map is not keyed by PublicPoint(sig.issuer_key_info)")
  # sinks: result=True only under `i in issuer_dlogs`, issuer_dlogs = _IssuerDLogs(list(guesses), pks, curve) with the pks of the same sigs
  for b in T.bodies(repo):
    if b.cls.module.short != "ecdsa_sig_checks" or b.cls.name == "CheckIssuerKey":
      continue
    where = b.where()
    probs = []
    calls = b.calls("repo:ecdsa_sig_checks:_IssuerDLogs")
    if not calls:
      probs.append("no issuer verification call")
    for e in calls:
      a = e.data["args"]
      pk = as_poly(a[1]).as_atom() if len(a) > 1 else None
      if pk is None or pk.kind != "call" or pk.args[0] != lit("ecdsa_sig_checks:_MapIssuerSigIndexes"):
        probs.append("issuer map passed to _IssuerDLogs is not _MapIssuerSigIndexes(sigs)")
      cv = as_poly(a[2]).as_atom() if len(a) > 2 else None
      if cv is None or cv.kind != "idx" or cv.args[0] != P("ref", "ec_util.CURVE_FACTORY"):
        probs.append("curve passed to _IssuerDLogs is not the factory entry of this partition")
    for info in b.result_loops():
      for kind, val, s, since, vis in info["body_paths"]:
        evs = b.path_events(s, since)
        pos = [e for e in evs if e.kind == "setattr" and e.data["attr"] == "result"]
        for e in pos:
          okp = any(f_[0] == "cmp" and f_[1] == "In" and as_poly(f_[2]) == vis["k"] and as_poly(f_[3]).as_atom() is not None
                    and as_poly(f_[3]).as_atom().kind == "call" and as_poly(f_[3]).as_atom().args[0] == lit("ecdsa_sig_checks:_IssuerDLogs") for f_ in e.facts)
          if not okp:
            probs.append("signature marked weak without a verified issuer key (`i in issuer_dlogs`)")
    ctx.record(R, where, "weak only with a verified key", not probs, "; ".join(sorted(set(probs))) or
               "result=True and DISCRETE_LOG only under `i in _IssuerDLogs(...)`; lattice / U2F guesses never flow to a sink directly")


# ------------------------------------------------------------------ U2F
def rule_u2f(ctx):
  R = "R-C02-U2F"
  repo = ctx.repo
  f = repo.func("cr50_u2f_weakness", "Cr50U2fGuesses")
  w = sym.Walker(repo, f)
  w.run()
  adds = [e for e in w.events if e.kind == "mutate" and e.data["method"] == "add"]
  probs = []
  if not adds:
    probs.append("no guess is produced")
  raises = [e for e in w.events if e.kind == "raise"]
  for e in adds:
    v = as_poly(e.data["args"][0])
    ne = [f_ for f_ in e.facts if f_[0] == "cmp" and f_[1] == "Eq"]
    good = False
    for f_ in ne:
      x1, x2 = as_poly(f_[2]), as_poly(f_[3])
      if v in (x1, x2) and "param('s1')" in repr(x1) + repr(x2) and "param('s2')" in repr(x1) + repr(x2) and x1 != x2:
        good = True
    if not good:
      probs.append("guess added without the cross-check x1 == x2 of the two independent reconstructions")
  if not any(any(f_[0] == "cmp" and f_[1] == "NotEq" for f_ in e.facts) for e in raises):
    probs.append("no `x1 != x2 -> raise` sanity check")
  ctx.record(R, f.where, "guesses.add(x) only after x1 == x2", not probs, "; ".join(sorted(set(probs))) or "both reconstructions agree before the guess is released")


def issuer_map_problems(repo):
  """_MapIssuerSigIndexes by value: the result is a defaultdict(list) D; the only thing ever done to it is D[PublicPoint(sigs[t].issuer_key_info)].append(t)
  (directly or through a name for that entry), once in every pass of a loop over all signatures; D is returned.  Returns the list of problems."""
  f = repo.func("ecdsa_sig_checks", "_MapIssuerSigIndexes")
  w = sym.Walker(repo, f)
  w.run()
  sigs = P("param", f.params()[0])
  probs = []
  maps = [e for e in w.events if e.kind == "call" and e.data["name"].endswith("defaultdict") and [repr(a) for a in e.data["args"]] == ["glob('list')"]]
  if len(maps) != 1:
    return ["index map is not a defaultdict(list)"]
  D = as_poly(maps[0].data["value"])
  rets = [t for t in w.terminals if t[0] == "return"]
  if not rets or not all(isinstance(t[1], Poly) and t[1] == D for t in rets):
    probs.append("the map returned is not the one that was filled")
  muts = [e for e in w.events if e.kind == "mutate"]
  sts = [e for e in w.events if e.kind == "store" and isinstance(e.data.get("base"), Poly) and D.as_atom() in as_poly(e.data["base"]).all_atoms() | {as_poly(e.data["base"]).as_atom()}]
  if sts:
    probs.append("index map entries are assigned directly (could be empty lists)")
  loops = [li for li in w.loop_info.values() if li["visits"]]
  if len(loops) != 1:
    probs.append("expected one loop over the signatures")
    return probs
  li = loops[0]
  vis = li["visits"][0]
  k = as_poly(vis["k"])
  it = vis["iter"].as_atom() if isinstance(vis["iter"], Poly) else None
  whole = it is not None and ((it.kind == "enumerate" and as_poly(it.args[0]) == sigs) or Poly.atom(it) == sigs or
                             (it.kind == "range" and len(it.args) == 1 and as_poly(it.args[0]) == sym.mk("len", sigs)))
  if not whole:
    probs.append("the loop does not run over all signatures")
  key = sym.mk("call", lit("ec_util:PublicPoint"), sym.mk("attr", sym.mk("idx", sigs, k), "issuer_key_info"))
  for e in muts:
    if not (e.data["method"] == "append" and isinstance(e.data["recv"], Poly) and e.data["recv"] == sym.mk("idx", D, key) and len(e.data["args"]) == 1
            and isinstance(e.data["args"][0], Poly) and e.data["args"][0] == k):
      probs.append("entries are not created exclusively by d[PublicPoint(sig.issuer_key_info)].append(i)")
  for kind, val, st, since, v2 in li["body_paths"]:
    if v2 is not vis:
      continue
    n_app = sum(1 for i_ in st.trace[since:] if w.events[i_].kind == "mutate")
    if kind not in ("fall", "continue") or n_app != 1:
      probs.append("a signature is not filed under its issuer exactly once")
  return probs
