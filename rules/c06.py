"""C06 - checks with a closed-form criterion flag exactly the artifacts that meet it."""
from __future__ import annotations
import ast, re, os
from pcstatic import sym, fold, regions, refmath
from pcstatic.regions import bool_key
from pcstatic.core import Incomplete
from pcstatic.loader import norm
from pcstatic.poly import Poly, Atom, P
from pcstatic.sym import Const, Seq, as_poly
from . import template as T
from .c01 import modulus_of, lit
from .c16 import proto_enum

META = {
    "level": "other",
    "trusted_base": ["Python ast parser", "pcstatic walker + region engine (complete for boolean combinations of integer comparisons and opaque boolean atoms)",
                     "hashlib.sha1().hexdigest() returns 40 lower-case hex digits", "checker-side prime sieve", "protobuf enum text of paranoid.proto"],
    "assumptions": ["completeness of the shipped keypair table (binary data) is not decided"],
    "explanation": ("For each closed-form check the set of paths that set result=True is extracted and compared with the specification predicate on all regions / boolean "
                    "assignments; prime tables against the checker's own sieve; membership loops; writer/reader agreement of the denylist key format; proto enum vs curve table."),
}
SELF = P("param", "self")
INF = Seq([Const(None), Const(None)])


C06_CHECKS = ("CheckSizes", "CheckExponents", "CheckROCA", "CheckROCAVariant", "CheckOpensslDenylist", "CheckKeypairDenylist", "CheckValidECKey", "CheckWeakCurve")


def run(ctx):
  rule_pred(ctx)
  rule_tables(ctx)
  rule_dlog_loop(ctx)
  rule_deny_format(ctx)
  rule_keypair(ctx)
  rule_enum(ctx)
  rule_keygen(ctx)
  # "flags exactly the artifacts that meet it": the entry recorded for an artifact carries the verdict computed for that artifact (shared with C16)
  from . import c16
  c16.rule_isolated(ctx, T.bodies(ctx.repo), "R-C06-OWN", lambda w: w.split(":")[1].split(".")[0] in C06_CHECKS)
  ctx.expect("R-C06-OWN", 8, "the eight closed-form checks")
  # the subgroup test asks whether Multiply(p, self.n) is the point at infinity: that is the order test only if Multiply returns the exact multiple n * p
  # (a multiplier reduced modulo the order answers infinity for every point) - shared with C11
  from . import c11
  got = ctx.borrow(c11.rule_scalar, "R-C06-PRED", lambda r: r.where.endswith("EcCurve.Multiply"))
  ctx.expect("R-C06-KEYGEN", 5, "generator emulation clauses")
  ctx.expect("R-C06-PRED", 13, "eleven predicates + the exact scalar multiple behind the subgroup test")
  ctx.expect("R-C06-TABLES", 3, "two prime tables + F4")
  ctx.expect("R-C06-DLOG-LOOP", 2, "membership loop + residue table")
  ctx.expect("R-C06-DENY-FORMAT", 2, "check side + storage side")
  ctx.expect("R-C06-KEYPAIR", 3, "table key, seed, regeneration")
  ctx.expect("R-C06-ENUM", 2, "exhaustiveness + binary curves")


def body_of(repo, where):
  for b in T.bodies(repo):
    if b.where() == where:
      return b
  raise Incomplete("%s vanished" % where, where.split(":")[0])


def positive_paths(b):
  """[(conds since loop head, visit)] for iterations that set result = True; and negatives; and skips."""
  pos, neg, skip = [], [], []
  for info in b.result_loops():
    for kind, val, s, since, vis in info["body_paths"]:
      evs = b.path_events(s, since)
      conds = [(c, pol) for c, pol, node in s.pc[len(vis["head"].pc):]]
      sets = [e for e in evs if e.kind == "call" and e.data["name"] == T.SET_RESULT]
      flagged = any(e.kind == "setattr" and e.data["attr"] == "result" for e in evs)
      if not sets:
        skip.append((conds, vis, s))
      elif flagged:
        pos.append((conds, vis, s))
      else:
        neg.append((conds, vis, s))
  return pos, neg, skip


def rule_pred(ctx):
  R = "R-C06-PRED"
  repo = ctx.repo
  # ---- CheckSizes
  b = body_of(repo, "rsa_single_checks:CheckSizes.Check")
  pos, neg, skip = positive_paths(b)
  if pos:
    K = sym.mk("idx", b.artifacts, pos[0][1]["k"])
    bl = sym.mk("bitlen", modulus_of(K))
    ok, d = regions.equivalent_dnf([p[0] for p in pos], lambda v: v[bl] < 2048, main=bl, spec_consts=(2048,))
    ctx.record(R, b.where(), "flag <=> bit_length(n) < 2048 (same key)", ok, d)
  else:
    ctx.violation(R, b.where(), "flag <=> bit_length(n) < 2048 (same key)", "no positive path")
  # ---- CheckExponents
  b = body_of(repo, "rsa_single_checks:CheckExponents.Check")
  pos, neg, skip = positive_paths(b)
  if pos:
    K = sym.mk("idx", b.artifacts, pos[0][1]["k"])
    E = sym.mk("call", lit("util:Bytes2Int"), sym.mk("attr", sym.mk("attr", K, "rsa_info"), "e"))
    ok, d = regions.equivalent_dnf([p[0] for p in pos], lambda v: v[E] != 65537, main=E, spec_consts=(65537,))
    ctx.record(R, b.where(), "flag <=> e != 65537 (same key)", ok, d)
  else:
    ctx.violation(R, b.where(), "flag <=> e != 65537 (same key)", "no positive path")
  # ---- CheckWeakCurve
  b = body_of(repo, "ec_single_checks:CheckWeakCurve.Check")
  pos, neg, skip = positive_paths(b)
  if pos:
    K = sym.mk("idx", b.artifacts, pos[0][1]["k"])
    curve = sym.mk("get", P("ref", "ec_util.CURVE_FACTORY"), sym.mk("attr", sym.mk("attr", K, "ec_info"), "curve_type"), P("lit", "None"))
    bl = sym.mk("bitlen", sym.mk("attr", curve, "n"))
    isnone = ("same", *sorted([repr(curve), repr(Const(None))]))
    ok, d = regions.equivalent_mixed([p[0] for p in pos], lambda v: (not v.truth(isnone)) and v[bl] < 224, mains=[bl], bool_atoms=[isnone], spec_consts=(224,))
    ctx.record(R, b.where(), "flag <=> curve known and order length < 224", ok, d)
    ok2, d2 = regions.equivalent_mixed([p[0] for p in skip], lambda v: v.truth(isnone), mains=[], bool_atoms=[isnone]) if skip else (False, "unknown curves are not skipped")
    ctx.record(R, b.where(), "skipped <=> curve unknown", ok2, d2)
  else:
    ctx.violation(R, b.where(), "flag <=> curve known and order length < 224", "no positive path")
  # ---- CheckValidECKey
  b = body_of(repo, "ec_single_checks:CheckValidECKey.Check")
  pos, neg, skip = positive_paths(b)
  if pos:
    K = sym.mk("idx", b.artifacts, pos[0][1]["k"])
    curve = sym.mk("get", P("ref", "ec_util.CURVE_FACTORY"), sym.mk("attr", sym.mk("attr", K, "ec_info"), "curve_type"), P("lit", "None"))
    valid = sym.mk("mcall", curve, lit("IsValidPublicKey"), sym.mk("call", lit("ec_util:PublicPoint"), sym.mk("attr", K, "ec_info")))
    isnone = ("same", *sorted([repr(curve), repr(Const(None))]))
    isvalid = ("truthy", repr(valid))
    ok, d = regions.equivalent_mixed([p[0] for p in pos], lambda v: v.truth(isnone) or not v.truth(isvalid), bool_atoms=[isnone, isvalid])
    ctx.record(R, b.where(), "flag <=> unknown curve or not IsValidPublicKey(PublicPoint(key))", ok, d)
  else:
    ctx.violation(R, b.where(), "flag <=> unknown curve or invalid point", "no positive path")
  # ---- IsValidPublicKey
  f = repo.func("ec_util", "EcCurve.IsValidPublicKey")
  w = sym.Walker(repo, f)
  w.run()
  p = P("param", "p")
  tru = []
  for e in w.events:
    if e.kind == "return" and isinstance(e.data["value"], Const) and e.data["value"].v is True:
      tru.append([(c, pol) for c, pol, node in e.state.pc])
    elif e.kind == "return" and isinstance(e.data["value"], tuple):
      # `return <condition>`: valid exactly when the condition holds on this path
      tru.append([(c, pol) for c, pol, node in e.state.pc] + [(e.data["value"], True)])
    elif e.kind == "return" and not (isinstance(e.data["value"], Const) and e.data["value"].v is False):
      ctx.incomplete(R, f.where, "return", "non-constant return %r" % (e.data["value"],))
  x, y = sym.mk("idx", p, Poly.const(0)), sym.mk("idx", p, Poly.const(1))
  mod = sym.mk("attr", SELF, "mod")
  h = sym.mk("attr", SELF, "h")
  on = ("truthy", repr(sym.mk("mcall", SELF, lit("OnCurve"), p)))
  isinf = ("same", *sorted([repr(p), repr(INF)]))
  q = sym.mk("mcall", SELF, lit("Multiply"), p, sym.mk("attr", SELF, "n"))
  qinf = ("same", *sorted([repr(q), repr(INF)]))
  spec = lambda v: v.truth(on) and not v.truth(isinf) and (v[h] <= 1 or v.truth(qinf)) and 0 <= v[x] <= v[mod] - 1 and 0 <= v[y] <= v[mod] - 1
  ok, d = regions.equivalent_mixed(tru, spec, mains=[x, y, h], bool_atoms=[on, isinf, qinf])
  ctx.record(R, f.where, "valid <=> on curve, finite, in subgroup (h > 1), 0 <= x, y <= p - 1", ok, d)
  # ---- OnCurve
  f = repo.func("ec_util", "EcCurve.OnCurve")
  w = sym.Walker(repo, f)
  w.run()
  okc = False
  okinf = False
  for e in w.events:
    if e.kind != "return":
      continue
    v = e.data["value"]
    if isinstance(v, Const) and v.v is True and any(bool_key(("cmp", f_[1], f_[2], f_[3])) == (isinf, True) for f_ in e.facts if f_[0] == "cmp"):
      okinf = True
    if isinstance(v, tuple) and v[0] == "cmp" and v[1] == "Eq":
      sides = [as_poly(v[2]), as_poly(v[3])]
      for a, b_ in (sides, sides[::-1]):
        if a.is_zero():
          ma = b_.as_atom()
          if ma is not None and ma.kind == "mod" and ma.args[1] == mod:
            a_, bb = sym.mk("attr", SELF, "a"), sym.mk("attr", SELF, "b")
            goal = ma.args[0] - (x ** 3 + a_ * x + bb - y * y)
            okc = goal.is_zero() or (ma.args[0] + (x ** 3 + a_ * x + bb - y * y)).is_zero()
  ctx.record(R, f.where, "on curve <=> p = inf or y^2 == x^3 + a x + b (mod p)", okc and okinf, "Horner form equals the Weierstrass equation" if okc and okinf else
             "OnCurve is not the Weierstrass equation / infinity not accepted")
  # ---- ROCA checks
  for cname, attr, det in (("CheckROCA", "_fc", "ROCAKeyDetector"), ("CheckROCAVariant", "_fcv", "ROCAKeyVariantDetector")):
    b = body_of(repo, "rsa_single_checks:%s.Check" % cname)
    pos, neg, skip = positive_paths(b)
    okp = False
    d = "no positive path"
    if pos:
      K = sym.mk("idx", b.artifacts, pos[0][1]["k"])
      weak = sym.mk("mcall", sym.mk("attr", SELF, attr), lit("IsWeak"), modulus_of(K))
      key = ("truthy", repr(weak))
      okp, d = regions.equivalent_mixed([p_[0] for p_ in pos], lambda v: v.truth(key), bool_atoms=[key])
    init = b.cls.methods.get("__init__")
    okd = init is not None and any(norm(s) == "self.%s = roca.%s()" % (attr, det) for s in init.node.body)
    ctx.record(R, b.where(), "flag <=> %s.IsWeak(n) (same key)" % det, bool(okp) and okd, d if okd else "detector attribute is not a %s" % det)
  # ---- detectors
  f = repo.func("roca", "ROCAKeyDetector.IsWeak")
  w = sym.Walker(repo, f)
  w.run()
  modulus = P("param", "modulus")
  probs = []
  loops = list(w.loop_info.values())
  if len(loops) != 1:
    probs.append("expected one loop over PRIMES")
  else:
    info = loops[0]
    if "roca.ROCAKeyDetector.PRIMES" not in repr(as_poly(info["iter"])) and "PRIMES" not in repr(as_poly(info["iter"])):
      probs.append("loop does not range over PRIMES")
    for kind, val, s, since, vis in info["body_paths"]:
      evs = [w.events[i] for i in s.trace[since:]]
      calls = [e for e in evs if e.kind == "call" and e.data["name"] == "meth:_HasDiscreteLog"]
      if len(calls) != 1:
        probs.append("membership test not applied once per prime")
        continue
      a = calls[0].data["args"]
      prime = sym.mk("idx", as_poly(vis["iter"]), as_poly(vis["k"])) if isinstance(vis["iter"], Poly) else None     # the loop's element, whatever it is called
      if prime is None or as_poly(a[2]) != as_poly(prime) or "F4" not in repr(as_poly(a[1])):
        probs.append("membership test is not HasDiscreteLog(N mod prime, F4, prime)")
      va = as_poly(a[0]).as_atom()
      if va is None or va.kind != "mod" or va.args[1] != as_poly(prime):
        probs.append("residue is not taken modulo the prime")
      else:
        inner = va.args[0].as_atom()
        if not (va.args[0] == modulus or (inner is not None and inner.kind == "mod" and inner.args[0] == modulus and "product_of_primes" in repr(inner.args[1]))):
          probs.append("residue is not N mod prime")
      truthy = any(f_[0] == "truthy" and as_poly(f_[1]) == as_poly(calls[0].data["value"]) for f_ in s.facts)
      falsy = any(f_[0] == "falsy" and as_poly(f_[1]) == as_poly(calls[0].data["value"]) for f_ in s.facts)
      if kind == "return":
        if not (falsy and isinstance(val, Const) and val.v is False):
          probs.append("early return is not `False` on the first prime that fails")
      elif kind in ("fall", "continue"):
        if not truthy:
          probs.append("loop continues although the prime's test failed")
      else:
        probs.append("loop left by %s" % kind)
  after = [e for e in w.events if e.kind == "return" and e.node is not None and not e.state.tags]
  if not (after and all(isinstance(e.data["value"], Const) and e.data["value"].v is True for e in after)):
    probs.append("does not return True after all primes passed")
  init = repo.func("roca", "ROCAKeyDetector.__init__")
  wi_ = sym.Walker(repo, init)
  wi_.run()
  PP = sym.mk("attr", SELF, "product_of_primes")
  sets_ = [e for e in wi_.events if e.kind == "setattr" and e.data["attr"] == "product_of_primes" and as_poly(e.data["base"]) == SELF]
  first_ = [e for e in sets_ if not e.state.tags]
  inl_ = [e for e in sets_ if e.state.tags]
  lp_ = [i_ for i_ in wi_.loop_info.values() if i_["visits"] and isinstance(i_["visits"][0]["iter"], Poly) and i_["visits"][0]["iter"] == sym.mk("attr", SELF, "PRIMES")]
  okpp = bool(first_) and all(as_poly(e.data["value"]).as_int() == 1 for e in first_) and len(lp_) == 1 and bool(inl_) and \
      all(isinstance(e.data["value"], Poly) and e.data["value"] == PP * sym.mk("idx", sym.mk("attr", SELF, "PRIMES"), as_poly(lp_[0]["visits"][0]["k"])) for e in inl_) and \
      all(bp[0] == "fall" for bp in lp_[0]["body_paths"])
  if not okpp:
    probs.append("product_of_primes is not the product of PRIMES")
  ctx.record(R, f.where, "weak <=> for all primes: N mod p is a power of F4", not probs, "; ".join(sorted(set(probs))) or "for-all loop: False on first failure, True after the loop")
  f = repo.func("roca", "ROCAKeyVariantDetector.IsWeak")
  w = sym.Walker(repo, f)
  w.run()
  probs = []
  loops = list(w.loop_info.values())
  if len(loops) != 1:
    probs.append("expected one loop over the residue tables")
  else:
    info = loops[0]
    if "quadratic_residues" not in repr(as_poly(info["iter"])):
      probs.append("loop does not range over self.quadratic_residues")
    for kind, val, s, since, vis in info["body_paths"]:
      # per-prime test: the table entry of this prime at index modulus % p, read from the path fact (shape-independent)
      newf = s.facts[len(vis["head"].facts):]
      QR_ = sym.mk("attr", SELF, "quadratic_residues")
      # the prime of this pass: the key of the k-th item (`.items()` / `.keys()`), or the k-th element when the table (a dict) is iterated itself
      key = sym.mk("idx", QR_, as_poly(vis["k"])) if isinstance(vis["iter"], Poly) and vis["iter"] == QR_ else sym.mk("key", QR_, as_poly(vis["k"]))
      want = sym.mk("idx", sym.mk("idx", sym.mk("attr", SELF, "quadratic_residues"), key), sym.mk("mod", modulus, key))
      tf = [fc for fc in newf if fc[0] in ("truthy", "falsy") and not isinstance(fc[1], Seq) and as_poly(fc[1]) == want]
      if len(tf) != 1:
        probs.append("per-prime test is not the residue-table entry qr[modulus % p] of the same prime")
        continue
      if kind == "return" and not (tf[0][0] == "falsy" and isinstance(val, Const) and val.v is False):
        probs.append("early return is not False on a non-residue")
      if kind in ("fall", "continue") and tf[0][0] != "truthy":
        probs.append("the loop goes on after a non-residue")
      if kind not in ("fall", "continue", "return"):
        probs.append("loop over the residue tables left by `%s`" % kind)
  roca_call = sym.mk("mcall", sym.mk("attr", SELF, "roca_key_detector"), lit("IsWeak"), modulus)
  okT = okF = False
  for kind, val, s in w.terminals:
    if kind != "return" or s.tags:
      continue
    outcomes = []
    if isinstance(val, Const) and isinstance(val.v, bool):
      outcomes.append((val.v, list(s.facts)))
    elif isinstance(val, tuple):
      outcomes.append((True, list(s.facts) + sym.facts_of(val, True)))
      outcomes.append((False, list(s.facts) + sym.facts_of(val, False)))
    for res, facts in outcomes:
      if res is True and any(f_[0] == "falsy" and not isinstance(f_[1], Seq) and as_poly(f_[1]) == roca_call for f_ in facts):
        okT = True
      if res is False and any(f_[0] == "truthy" and not isinstance(f_[1], Seq) and as_poly(f_[1]) == roca_call for f_ in facts):
        okF = True
  if not (okT and okF):
    probs.append("ROCA keys are not excluded (variant must be non-ROCA)")
  init = repo.func("roca", "ROCAKeyVariantDetector.__init__")
  wv_ = sym.Walker(repo, init)
  wv_.run()
  PR_ = sym.mk("attr", SELF, "PRIMES")
  lpv = [i_ for i_ in wv_.loop_info.values() if i_["visits"] and isinstance(i_["visits"][0]["iter"], Poly) and i_["visits"][0]["iter"] == PR_]
  okv = len(lpv) == 1 and all(bp[0] == "fall" for bp in lpv[0]["body_paths"])
  if okv:
    el_ = sym.mk("idx", PR_, as_poly(lpv[0]["visits"][0]["k"]))
    st_ = [e for e in wv_.events if e.kind == "store" and e.state.tags]
    okv = bool(st_) and all(isinstance(e.data.get("base"), Poly) and e.data["base"] == sym.mk("attr", SELF, "quadratic_residues") and as_poly(e.data["index"]) == el_ and
                            isinstance(e.data["value"], Poly) and e.data["value"] == sym.mk("mcall", SELF, lit("_QuadraticResidues"), el_) for e in st_)
  det_ = [e for e in wv_.events if e.kind == "setattr" and e.data["attr"] == "roca_key_detector" and isinstance(e.data["value"], Poly) and "ROCAKeyDetector" in repr(e.data["value"])]
  if not (okv and det_):
    probs.append("residue tables are not built for every prime of PRIMES")
  ctx.record(R, f.where, "weak <=> QR modulo all primes and not ROCA", not probs, "; ".join(sorted(set(probs))) or "for-all loop over the 48 residue tables, ROCA hits excluded")
  # ---- denylist
  b = body_of(repo, "rsa_single_checks:CheckOpensslDenylist.Check")
  pos, neg, skip = positive_paths(b)
  okp = False
  d = "no positive path"
  if pos:
    conds = [p_[0] for p_ in pos]
    okp = all(len(cs) == 1 and cs[0][1] and cs[0][0][0] == "cmp" and cs[0][0][1] == "In" and as_poly(cs[0][0][3]) == sym.mk("attr", SELF, "_weak_keylist") for cs in conds)
    d = "flag <=> keystr in self._weak_keylist" if okp else "flag condition is not membership of the key string in the supplied list"
  init = b.cls.methods.get("__init__")
  oki = init is not None and any(norm(s) == "self._weak_keylist = self._storage.GetOpensslDenylist()" for s in init.node.body) and \
      any(norm(s) == "self._storage = paranoid_storage or default_storage.DefaultStorage()" for s in init.node.body)
  ctx.record(R, b.where(), "flag <=> fingerprint in the supplied list", okp and oki, d if oki else "list is not taken from the supplied Storage")


def rule_tables(ctx):
  R = "R-C06-TABLES"
  repo = ctx.repo
  c = repo.cls("roca", "ROCAKeyDetector")
  pr = fold.try_fold(c.consts.get("PRIMES")) if "PRIMES" in c.consts else None
  want = [p for p in refmath.primes_below(174) if p >= 3]
  ctx.record(R, "roca:ROCAKeyDetector.PRIMES", "39 odd primes 3..173", list(pr or []) == want, "matches the sieve" if list(pr or []) == want else
             "table differs from the odd primes up to 173: missing %s extra %s" % (sorted(set(want) - set(pr or [])), sorted(set(pr or []) - set(want))))
  f4 = fold.try_fold(c.consts.get("F4")) if "F4" in c.consts else None
  ctx.record(R, "roca:ROCAKeyDetector.F4", "65537", f4 == 65537, "F4 = %r" % (f4,))
  c = repo.cls("roca", "ROCAKeyVariantDetector")
  pr = fold.try_fold(c.consts.get("PRIMES")) if "PRIMES" in c.consts else None
  want = [p for p in refmath.primes_below(230) if p >= 5]
  ctx.record(R, "roca:ROCAKeyVariantDetector.PRIMES", "48 primes 5..229", list(pr or []) == want, "matches the sieve" if list(pr or []) == want else
             "table differs from the primes 5..229: missing %s extra %s" % (sorted(set(want) - set(pr or [])), sorted(set(pr or []) - set(want))))


def rule_dlog_loop(ctx):
  R = "R-C06-DLOG-LOOP"
  repo = ctx.repo
  f = repo.func("roca", "ROCAKeyDetector._HasDiscreteLog")
  w = sym.Walker(repo, f)
  w.run()
  value, base, n = [P("param", x) for x in f.params()[:3]]
  probs = []
  loops = list(w.loop_info.values())
  if len(loops) != 1 or not loops[0].get("visits"):
    probs.append("expected one loop")
  else:
    info = loops[0]
    vis = info["visits"][0]
    # the running power: the carried variable that is compared with the value and multiplied by the base
    accn = [nm for nm in info["modified"] if isinstance(vis["head"].env.get(nm), Poly) and vis["head"].env[nm].as_atom() is not None and vis["head"].env[nm].as_atom().kind == "sym"
            and nm in vis["pre_env"] and vis["pre_env"][nm] is not None]
    ACC = accn[0] if len(accn) == 1 else "accumulator"
    if as_poly(vis["pre"].env.get(ACC)).as_int() != 1:
      probs.append("accumulator does not start at 1 (= base^0)")
    it = as_poly(vis["iter"]).as_atom()
    trips = None
    if it is not None and it.kind == "range":
      if len(it.args) == 1:
        trips = it.args[0]
      elif len(it.args) == 2:
        trips = it.args[1] - it.args[0]
    if trips is None or not (trips - (n - 1)).is_zero() and not ((trips - (n - 1)).as_int() or -1) >= 0:
      probs.append("loop runs %r times, fewer than the n - 1 elements of the multiplicative group" % (trips,))
    acc_h = as_poly(vis["head"].env.get(ACC))
    for kind, val, s, since, v in info["body_paths"]:
      hit = any(f_[0] == "cmp" and f_[1] == "Eq" and {repr(as_poly(f_[2])), repr(as_poly(f_[3]))} == {repr(acc_h), repr(value)} for f_ in s.facts)
      if kind == "return":
        if not (isinstance(val, Const) and val.v is True and hit):
          probs.append("True is not returned exactly when the current power equals the value")
      elif kind == "break":
        # `found = True; break` ... `return found`: the loop is left exactly at a hit
        if not hit:
          probs.append("the enumeration is left before the value was found")
      elif kind in ("fall", "continue"):
        acc_e = as_poly(s.env.get(ACC))
        if acc_e != sym.mk("mod", acc_h * sym.mk("mod", base, n), n):
          probs.append("accumulator update is not acc * (base mod n) mod n")
        if not any(f_[0] == "cmp" and f_[1] == "NotEq" for f_ in s.facts):
          probs.append("comparison does not precede the multiplication")
  after = [e for e in w.events if e.kind == "return" and e.node is not None and not e.state.tags]
  def came_from_hit(e):
    return any(f_[0] == "cmp" and f_[1] == "Eq" and repr(value) in (repr(as_poly(f_[2])), repr(as_poly(f_[3]))) for f_ in e.state.facts)
  falses = [e for e in after if isinstance(e.data["value"], Const) and e.data["value"].v is False and not came_from_hit(e)]
  trues = [e for e in after if isinstance(e.data["value"], Const) and e.data["value"].v is True and came_from_hit(e)]
  if not falses or len(falses) + len(trues) != len(after):
    probs.append("does not return False after the whole group was enumerated")
  ctx.record(R, f.where, "enumerates base^0 .. base^(n-2), compare-then-multiply", not probs, "; ".join(sorted(set(probs))) or "covers the subgroup generated by base for prime n")
  f = repo.func("roca", "ROCAKeyVariantDetector._QuadraticResidues")
  wq = sym.Walker(repo, f)
  wq.run()
  pp = P("param", [q for q in f.params() if q != "self"][0])
  ok = False
  alloc = sym.mk("listrep", P("seq", Poly.const(0)), pp)            # [False] * p
  loops = [i_ for i_ in wq.loop_info.values() if i_["visits"]]
  if len(loops) == 1:
    info = loops[0]
    vis = info["visits"][0]
    k = as_poly(vis["k"])
    rng = isinstance(vis["iter"], Poly) and as_poly(vis["iter"]) == sym.mk("range", pp)
    paths = [bp for bp in info["body_paths"] if bp[4] is vis]
    st = [e for e in wq.events if e.kind == "store" and e.state.tags]
    one = len({id(e.node) for e in st}) == 1 and all(kind == "fall" for kind, _, _, _, _ in paths) and len(paths) == 1
    good = bool(st) and all(as_poly(e.data["index"]) == sym.mk("mod", k * k, pp) and isinstance(e.data["value"], Const) and e.data["value"].v is True for e in st)
    tab = [nm for nm, v_ in vis["pre_env"].items() if isinstance(v_, Poly) and v_ == alloc and isinstance(vis["head"].env.get(nm), Poly) and st and as_poly(st[0].data["base"]) == vis["head"].env[nm]]
    rets = [t_ for t_ in wq.terminals if t_[0] == "return"]
    ret_ok = bool(tab) and bool(rets) and all(isinstance(t_[1], Poly) and t_[1] == vis["after_env"][tab[0]] for t_ in rets)
    ok = bool(rng and one and good and ret_ok)
  ctx.record(R, f.where, "a[i*i % p] = True for all i in range(p)", ok, "complete residue table of length p" if ok else "residue table construction changed")


def rule_deny_format(ctx):
  R = "R-C06-DENY-FORMAT"
  repo = ctx.repo
  b = body_of(repo, "rsa_single_checks:CheckOpensslDenylist.Check")
  # the key looked up in the list, as the walker sees it on the flagging path (temporaries and statement order do not matter):
  #   '%s:%s' % ('RSA-%d' % bit_length(n), sha1(('Modulus=%X\n' % n).encode()).hexdigest()[20:])
  probs = []
  pos, neg, skip = positive_paths(b)
  keyv = None
  for conds, vis, s_ in pos:
    for c_, pol in conds:
      if pol and c_[0] == "cmp" and c_[1] == "In" and isinstance(c_[2], Poly):
        keyv = c_[2]
  ka = keyv.as_atom() if keyv is not None else None

  def fmt_of(a_, text, n_args):
    return a_ is not None and a_.kind == "strfmt" and len(a_.args) == 1 + n_args and a_.args[0].as_atom() is not None and a_.args[0].as_atom().kind == "lit" and \
        a_.args[0].as_atom().args[0] == repr(text)
  if ka is None or not fmt_of(ka, "%s:%s", 2):
    probs.append("key string is not '%s:%s' % (keytype, n_hash)")
  else:
    K = sym.mk("idx", b.artifacts, pos[0][1]["k"])
    N = modulus_of(K)
    kt, nh = ka.args[1].as_atom(), ka.args[2].as_atom()
    if not (fmt_of(kt, "RSA-%d", 1) and as_poly(kt.args[1]) == sym.mk("bitlen", N)):
      probs.append("key type is not 'RSA-%d' % bit_length(n)")
    ok_hash = False
    okt = False
    if nh is not None and nh.kind == "slice" and len(nh.args) == 4:
      lo, hi, st = nh.args[1], nh.args[2], nh.args[3]
      lo_i = 0 if repr(lo) == "lit('None')" else as_poly(lo).as_int()
      hi_i = 40 if repr(hi) == "lit('None')" else as_poly(hi).as_int()
      if repr(st) == "lit('None')" and lo_i is not None and hi_i is not None:
        digest = list(range(40))
        ok_hash = digest[lo_i:hi_i] == digest[20:]
      hx = as_poly(nh.args[0]).as_atom()
      if hx is not None and hx.kind in ("pm", "mcall") and repr(hx.args[1]) == "lit('hexdigest')":
        sh = as_poly(hx.args[0]).as_atom()
        if sh is not None and sh.kind == "extcall" and repr(sh.args[0]) == "lit('hashlib.sha1')":
          en = as_poly(sh.args[1]).as_atom()
          if en is not None and en.kind in ("pm", "mcall") and repr(en.args[1]) == "lit('encode')" and (len(en.args) == 2 or repr(en.args[2]) in ('lit("\'utf-8\'")', 'lit("\'ascii\'")', 'lit("\'utf8\'")')):
            tx = as_poly(en.args[0]).as_atom()
            okt = fmt_of(tx, "Modulus=%X\n", 1) and as_poly(tx.args[1]) == N
    if not okt:
      probs.append("hashed text is not 'Modulus=%X\\n' % n (openssl-vulnkey format: upper-case hex, trailing newline)")
    if not ok_hash:
      probs.append("fingerprint is not the last 20 hex digits (digits 20..39) of sha1(text)")
  ctx.record(R, b.where(), "key = 'RSA-<bits>:' + sha1('Modulus=<HEX>\\n')[20:]", not probs, "; ".join(probs) or "check-side grammar")
  # storage side
  f = repo.func("data.default_storage", "DefaultStorage.GetOpensslDenylist")
  src = ast.unparse(f.node)
  probs = []
  m = re.search(r"re\.match\('([^']*)', line\)", src)
  if not m or m.group(1) != "^[0-9a-f]{20}$":
    probs.append("line filter is not ^[0-9a-f]{20}$ (20 lower-case hex digits as produced by hexdigest()[20:])")
  yields = [y for y in ast.walk(f.node) if isinstance(y, ast.Yield)]
  if not (len(yields) == 1 and yields[0].value is not None and ast.unparse(yields[0].value) == "'%s:%s' % (keytype, line)"):
    probs.append("stored key is not '%s:%s' % (keytype, line)")
  for kt_ in ("RSA-1024", "RSA-2048", "RSA-4096"):
    if "_ReadDenylist('%s'," % kt_ not in src:
      probs.append("key type %s not loaded" % kt_)
  if "line = line.strip()" not in src:
    probs.append("lines are not stripped")
  ctx.record(R, f.where, "stored keys 'RSA-<bits>:<20 hex>'", not probs, "; ".join(probs) or "storage-side grammar agrees (separator, digit count, case, key type pattern)")


def rule_keypair(ctx):
  R = "R-C06-KEYPAIR"
  repo = ctx.repo
  b = body_of(repo, "rsa_single_checks:CheckKeypairDenylist.Check")
  w = b.w
  src = ast.unparse(b.func.node)
  K = None
  for info in b.result_loops():
    for vis in info["visits"]:
      K = sym.mk("idx", b.artifacts, vis["k"])
  n = modulus_of(K) if K is not None else None
  gens = b.calls("cls:keypair_generator.Generator")
  gk = [e for e in b.events if e.kind == "call" and e.data["name"] == "meth:generate_key"]
  # the table key: what is tested for membership in self._table and used for the look-up is the top 64 bits of the modulus
  TAB = sym.mk("attr", SELF, "_table")
  keys = {repr(as_poly(f_[2])): as_poly(f_[2]) for e in gk for f_ in e.facts if f_[0] == "cmp" and f_[1] == "In" and isinstance(f_[2], Poly) and isinstance(f_[3], Poly) and f_[3] == TAB}
  ok1 = n is not None and len(keys) == 1 and list(keys.values())[0] == sym.mk("shr", n, sym.mk("bitlen", n) - 64)
  memb = bool(keys)
  ctx.record(R, b.where(), "table key = top 64 bits of n", ok1 and memb, "n >> (bit_length - 64), looked up in self._table" if ok1 and memb else "table key / membership test changed")
  # the seed handed to the generator: 32 bytes, byte 0 = metadata[0], then seed[metadata[i]] = metadata[i + 1] for i = 1, 3, 5, ... (values, not names)
  from pcstatic import wtable
  probs2 = []
  KEY = list(keys.values())[0] if len(keys) == 1 else None
  M = sym.mk("idx", TAB, KEY) if KEY is not None else None
  pair_stores = []
  for e in b.events:
    if e.kind != "store" or M is None:
      continue
    ia = as_poly(e.data["index"]).as_atom() if isinstance(e.data["index"], Poly) else None
    va = as_poly(e.data["value"]).as_atom() if isinstance(e.data["value"], Poly) else None
    if ia is not None and va is not None and ia.kind == "idx" and va.kind == "idx" and as_poly(ia.args[0]) == M and as_poly(va.args[0]) == M:
      pair_stores.append((e, as_poly(ia.args[1]), as_poly(va.args[1])))
  if M is None or not pair_stores:
    probs2.append("no (index, value) pairs of the table entry are written into the seed")
  seed_vars = set()
  for e, J, J1 in pair_stores:
    if not (J1 - J - 1).is_zero():
      probs2.append("a pair is not (metadata[i], metadata[i + 1])")
    loop = None
    for li in w.loop_info.values():
      if isinstance(li["node"], ast.For) and any(x is e.node for x in ast.walk(li["node"])):
        if loop is None or any(x is li["node"] for x in ast.walk(loop["node"])):
          loop = li
    vis = next((v_ for v_ in (loop["visits"] if loop else []) if as_poly(v_["k"]).as_atom() in J.all_atoms()), None)
    ra = as_poly(vis["iter"]).as_atom() if vis is not None and isinstance(vis["iter"], Poly) else None
    if ra is None or ra.kind != "range" or len(ra.args) != 3 or as_poly(ra.args[2]).as_int() != 2:
      probs2.append("the pairs are not taken in steps of two")
      continue
    lo, hi = as_poly(ra.args[0]), as_poly(ra.args[1])
    k = as_poly(vis["k"])
    if not (J - (k * 2 + 1)).is_zero() or not (hi - lo - (sym.mk("len", M) - 1)).is_zero():
      probs2.append("the pairs do not start at metadata[1] / do not run to the end of the entry (index %r over range(%r, %r, 2))" % (J, lo, hi))
    for nm, hv in vis["head"].env.items():
      if isinstance(hv, Poly) and hv == as_poly(e.data["base"]):
        seed_vars.add((nm, id(vis)))
        pre = vis["pre_env"].get(nm)
        after = vis["after_env"].get(nm)
        # initial seed: bytearray of 32 with byte 0 = metadata[0] (built in one expression, or allocated and then stored into)
        okinit = False
        pa_ = as_poly(pre).as_atom() if isinstance(pre, Poly) else None
        chain = []
        while pa_ is not None and pa_.kind == "upd":
          chain.append((as_poly(pa_.args[1]), as_poly(pa_.args[2])))
          pa_ = as_poly(pa_.args[0]).as_atom()
        if pa_ is not None and pa_.kind in ("bytearray", "extcall") and "bytearray" in repr(pa_)[:40]:
          arg = pa_.args[0] if pa_.kind == "bytearray" else pa_.args[1]
          size = as_poly(arg).as_int() if isinstance(arg, (Poly, int)) and not isinstance(arg, bool) else None
          if size is not None:
            cells = [Poly.const(0)] * size
          else:
            cells = wtable.list_items(arg, [])
          if cells is not None:
            cells = list(cells)
            for ix, vv in reversed(chain):
              if ix.as_int() is not None and 0 <= ix.as_int() < len(cells):
                cells[ix.as_int()] = vv
            okinit = len(cells) == 32 and cells[0] == sym.mk("idx", M, Poly.const(0)) and all(as_poly(c_).is_zero() for c_ in cells[1:])
        if not okinit:
          probs2.append("the seed does not start as 32 bytes with byte 0 = metadata[0] and zeros elsewhere (%r)" % (pre,))
        if not gens or not all(isinstance(g_.data["args"][0], Poly) and isinstance(after, Poly) and g_.data["args"][0] == after for g_ in gens):
          probs2.append("the generator is not given the reconstructed seed")
  if pair_stores and not seed_vars:
    probs2.append("the pairs are not written into the seed variable")
  ok2 = not probs2
  ctx.record(R, b.where(), "seed from metadata (first byte, then (index, value) pairs)", ok2, "32-byte seed as the storage docstring specifies" if ok2 else "seed reconstruction changed: " + "; ".join(sorted(set(probs2))))
  ok3 = bool(gk) and n is not None and all(e.data["args"] and as_poly(e.data["args"][0]) == sym.mk("bitlen", n) for e in gk) and bool(gens)
  ctx.record(R, b.where(), "regeneration with the modulus' own bit length", ok3, "Generator(seed).generate_key(n.bit_length())" if ok3 else "regeneration size is not n.bit_length()")
  init = b.cls.methods.get("__init__")
  ok4 = init is not None and any(norm(s) == "self._table = dict(self._storage.GetKeypairData().table)" for s in init.node.body)
  ctx.record(R, b.where(), "table from the supplied storage", ok4, "dict(storage.GetKeypairData().table)" if ok4 else "table source changed")


def rule_enum(ctx):
  R = "R-C06-ENUM"
  repo = ctx.repo
  from .c18 import curve_table
  ent = curve_table(repo)
  enum = proto_enum(repo, "CurveType")
  keys = [k.split(".")[-1] for k, _, _ in ent]
  want = sorted(k for k in enum if k != "CURVE_UNKNOWN")
  missing = sorted(set(want) - set(keys))
  extra = sorted(set(keys) - set(want))
  dup = len(keys) != len(set(keys))
  ctx.record(R, "ec_util:CURVE_FACTORY", "every CurveType but CURVE_UNKNOWN is a key", not missing and not extra and not dup,
             "%d/%d curve identifiers mapped" % (len(keys), len(want)) if not missing and not extra and not dup else "missing %s, unknown %s, duplicate=%s" % (missing, extra, dup))
  bad = []
  for k, kind, node in ent:
    name = k.split(".")[-1]
    binary = name.startswith("CURVE_SECT")
    if binary and kind != "none":
      bad.append("%s is a binary-field curve but maps to a curve object" % name)
    if not binary and kind != "curve":
      bad.append("%s is a prime-field curve but maps to None" % name)
  ctx.record(R, "ec_util:CURVE_FACTORY", "binary-field curves -> None, prime-field curves -> EcCurve", not bad, "; ".join(bad) or "10 binary-field ids map to None, 9 prime-field ids to EcCurve")


def rule_keygen(ctx):
  """The keypair check can only flag 'every key produced by the vulnerable generator' if keypair_generator.Generator replays the
  generator's control flow: which prime is kept and which is regenerated, the 30k+1 wheel, the byte window."""
  R = "R-C06-KEYGEN"
  repo = ctx.repo
  m = repo.mod("keypair_generator")
  f = repo.func("keypair_generator", "Generator.generate_key")
  bits = P("param", "bits")
  bad_draws = []

  def draw_model(w_, name, args, kwargs, node, st, recv):
    # every generate_prime call yields a prime of its own: two draws must not be mistaken for the same value
    if name == "meth:generate_prime":
      if not (len(args) == 1 and isinstance(args[0], Poly) and args[0] == sym.mk("fdiv", bits, Poly.const(2))):
        bad_draws.append(args)
      return P("prime", "g%d" % next(w_.fresh))
    return None
  w = sym.Walker(repo, f, call_model=draw_model)
  w.run()
  gp = lambda: sym.mk("mcall", SELF, lit("generate_prime"), sym.mk("fdiv", bits, Poly.const(2)))
  probs = []
  loops = [i for i in w.loop_info.values()]
  if len(loops) != 1 or not loops[0].get("visits"):
    probs.append("expected one retry loop")
  else:
    info = loops[0]
    vis = info["visits"][0]
    def is_draw(x_):
      return isinstance(x_, Poly) and x_.as_atom() is not None and x_.as_atom().kind == "prime"
    if bad_draws:
      probs.append("initial primes are not generate_prime(bits // 2) twice")
    head = vis["head"].env
    # roles, not names: the primes a pass looks at are loop-carried values or fresh generate_prime(bits // 2) draws; the ordering test names them
    carried = {nm: as_poly(head[nm]) for nm in info["modified"] if isinstance(head.get(nm), Poly) and head[nm].as_atom() is not None and head[nm].as_atom().kind == "sym"
               and is_draw(vis["pre_env"].get(nm))}
    if not carried:
      probs.append("no prime generated with generate_prime(bits // 2) is carried into the retry loop")
    cand = list(carried.values())

    def ordering(facts):
      """(big, small) from the path's comparison of two candidate primes"""
      for f_ in facts:
        if f_[0] != "cmp" or f_[1] not in ("Gt", "Lt", "GtE", "LtE") or not isinstance(f_[2], Poly) or not isinstance(f_[3], Poly):
          continue
        l_, r_ = f_[2], f_[3]
        if l_ == r_ or not ((any(l_ == c_ for c_ in cand) or is_draw(l_)) and (any(r_ == c_ for c_ in cand) or is_draw(r_))):
          continue
        return (l_, r_, f_[1] in ("Gt",)) if f_[1] in ("Gt", "GtE") else (r_, l_, f_[1] in ("Lt",))
      return None

    def accepted(facts, a_, b_):
      bl = sym.mk("bitlen", a_ * b_)
      eq = any(f_[0] == "cmp" and f_[1] == "Eq" and isinstance(f_[2], Poly) and isinstance(f_[3], Poly) and {repr(f_[2]), repr(f_[3])} == {repr(bl), repr(bits)} for f_ in facts)
      ne = any(f_[0] == "cmp" and f_[1] == "NotEq" and isinstance(f_[2], Poly) and isinstance(f_[3], Poly) and {repr(f_[2]), repr(f_[3])} == {repr(bl), repr(bits)} for f_ in facts)
      return True if eq else (False if ne else None)
    saw = {(True, True): 0, (True, False): 0, (False, True): 0, (False, False): 0}      # (accepted, strict-swap ordering)
    hl = len(vis["head"].facts)
    for kind, val, s, since, v in info["body_paths"]:
      if v is not vis:
        continue
      newf = s.facts[hl:]
      od = ordering(newf)
      if od is None:
        probs.append("a retry iteration does not order the primes (if q > p: swap) before testing the size")
        continue
      big, small, strict = od
      acc = accepted(newf, big, small)
      if acc is None:
        probs.append("a pass does not test bit_length(p * q) == bits")
        continue
      if kind == "return":
        if not (acc and isinstance(val, Seq) and len(val.items) == 2 and as_poly(val.items[0]) == big and as_poly(val.items[1]) == small):
          probs.append("accepted key is not (larger, smaller) under bit_length(p*q) == bits")
        saw[(True, strict)] += 1
      elif kind == "break":
        if not acc:
          probs.append("the retry loop is left although the modulus does not have `bits` bits")
        saw[(True, strict)] += 1
      elif kind in ("fall", "continue"):
        if acc:
          probs.append("a key of the right size is not accepted")
        ends = {nm: as_poly(s.env.get(nm)) if isinstance(s.env.get(nm), Poly) else None for nm in carried}
        if not any(e_ is not None and e_ == big for e_ in ends.values()):
          probs.append("on retry the larger prime is not the one that is kept (keypair.js discards the smaller one)")
        for nm, e_ in ends.items():
          if e_ is None or not (e_ == big or (is_draw(e_) and e_ != small and e_ != big)):
            probs.append("on retry q is not regenerated with generate_prime(bits // 2)")
        saw[(False, strict)] += 1
      else:
        probs.append("retry loop left by %s" % kind)
    if not all(saw.values()):
      probs.append("the swap `if q > p` is not evaluated in every iteration of the retry loop")
    # what is handed back after a `break`: the ordered pair of that pass
    for kind, val, s in w.terminals:
      if kind != "return" or not s.tags == [] or any(bp[1] is val for bp in info["body_paths"]) or not isinstance(val, Seq):
        continue          # (the fall-off after `while True` is unreachable; a pair returned after the loop came through a `break`)
      od = ordering(s.facts)
      endless = isinstance(info["node"], ast.While) and isinstance(info["node"].test, ast.Constant) and bool(info["node"].test.value)
      if od is None and endless:
        continue          # `while True` has no normal exit: the state after it is only reached through a break
      if od is None or not (isinstance(val, Seq) and len(val.items) == 2 and as_poly(val.items[0]) == od[0] and as_poly(val.items[1]) == od[1]):
        probs.append("accepted key is not (larger, smaller) under bit_length(p*q) == bits")
  ctx.record(R, f.where, "retry loop: order, test n.bit_length() == bits, regenerate the smaller prime", not probs, "; ".join(sorted(set(probs))) or
             "each iteration swaps so that p >= q, accepts iff the modulus has `bits` bits, otherwise replaces q")
  # wheel table: increments visit exactly the residues coprime to 30 starting from 1
  tab = fold.try_fold(m.consts.get("GCD_30_DELTA")) if "GCD_30_DELTA" in m.consts else None
  okt = isinstance(tab, list) and len(tab) == 8 and sum(tab) == 30
  if okt:
    r = 1
    seen = []
    for d in tab:
      r = (r + d) % 30
      seen.append(r)
    import math
    okt = sorted(seen) == sorted(x for x in range(30) if math.gcd(x, 30) == 1)
  ctx.record(R, "keypair_generator:GCD_30_DELTA", "30k+1 wheel increments", okt, "8 increments, sum 30, visiting exactly the residues coprime to 30 from 1" if okt else "wheel table %r is not the mod-30 wheel" % (tab,))
  g = repo.func("keypair_generator", "Generator.generate_prime")
  wg = sym.Walker(repo, g)
  wg.run()
  psb = P("param", "p_size_bits")
  nbytes = sym.mk("fdiv", psb, Poly.const(8))
  asg = {}
  for e in wg.events:
    if e.kind == "assign":
      asg.setdefault(e.data["name"], []).append(e)
    if e.kind == "augassign":
      asg.setdefault(e.data["name"] + "+=", []).append(e)
  okw = okl = False          # decided below, from the value the candidate is built from
  # prime search: read from the loop structure of the walker (names, augmented vs plain assignment and statement order are irrelevant)
  bits = P("param", [q for q in g.params() if q != "self"][0])
  search = None
  for info in wg.loop_info.values():
    if not isinstance(info["node"], ast.While):
      continue
    for vis in info["visits"]:
      hf = vis["head"].facts[len(vis["pre"].facts):]
      for fc in hf:
        if fc[0] == "falsy" and not isinstance(fc[1], Seq):
          a = as_poly(fc[1]).as_atom()
          if a is not None and a.kind == "is_prime" and as_poly(a.args[1]).as_int() == 1:
            search = (info, vis, as_poly(a.args[0]))
  okm = oka = okp = False
  whym = whyp = ""
  if search is None:
    whym = whyp = "no `while not is_prime(candidate, 1)` loop found"
  else:
    info, vis, cand = search
    cname = [nm for nm, v_ in vis["head"].env.items() if not isinstance(v_, (Seq, Const, tuple)) and v_ is not None and as_poly(v_) == cand]
    pre = as_poly(vis["pre_env"][cname[0]]) if cname and vis["pre_env"].get(cname[0]) is not None else None
    if pre is not None:
      msb = sym.mk("pow", Poly.const(2), bits - 1)
      ms = [a for a in pre.all_atoms() if a.kind == "bor" and any(as_poly(x) == msb for x in a.args) and any("from_bytes" in repr(x) for x in a.args)]
      if ms:
        okm = True
        Mv = Poly.atom(ms[0])
        # byte window: from_bytes(X[1 : size + 1]) where X leaves a filling loop that runs while len(X) <= size (so X has more than size bytes)
        for x_ in ms[0].args:
          fa = as_poly(x_).as_atom()
          if fa is not None and len(fa.args) > 2 and "from_bytes" in repr(fa.args[1]):
            wa = as_poly(fa.args[2]).as_atom()
            if wa is not None and wa.kind == "slice" and as_poly(wa.args[1]).as_int() == 1 and (as_poly(wa.args[2]) - (nbytes + 1)).is_zero() and repr(wa.args[3]) == "lit('None')":
              okw = True
              X = as_poly(wa.args[0])
              for inf2 in wg.loop_info.values():
                if not isinstance(inf2["node"], ast.While):
                  continue
                for v3 in inf2["visits"]:
                  for nm3, av in v3["after_env"].items():
                    if isinstance(av, Poly) and av == X and isinstance(v3["head"].env.get(nm3), Poly):
                      LH = sym.mk("len", v3["head"].env[nm3])
                      for bp in inf2["body_paths"]:
                        for c_, pol, node in bp[2].pc:
                          if node is inf2["node"] and pol and c_[0] == "cmp" and ((c_[1] == "LtE" and as_poly(c_[2]) == LH and (as_poly(c_[3]) - nbytes).is_zero()) or
                                                                                    (c_[1] == "Lt" and as_poly(c_[2]) == LH and (as_poly(c_[3]) - nbytes - 1).is_zero()) or
                                                                                    (c_[1] == "GtE" and as_poly(c_[3]) == LH and (as_poly(c_[2]) - nbytes).is_zero())):
                            okl = True
        oka = (pre - (Mv + 31 - sym.mk("mod", Mv, Poly.const(30)))).is_zero()
      whym = "" if okm and oka else ("candidate before the search is %s" % (repr(pre)[:120],))
    # wheel walk
    idxs = [nm for nm in info["modified"] if nm in vis["pre_env"] and isinstance(vis["pre_env"][nm], (Const, Poly)) and as_poly(vis["pre_env"][nm]).is_zero()]
    for kind, val, s_, since, v2 in info["body_paths"]:
      if v2 is not vis or kind != "fall" or not cname:
        continue
      for ix in idxs:
        IH = as_poly(vis["head"].env[ix])
        step = as_poly(s_.env[cname[0]]) - cand
        want = sym.mk("idx", P("ref", "keypair_generator.GCD_30_DELTA"), sym.mk("mod", IH, Poly.const(8)))
        want2 = sym.mk("idx", P("ref", "keypair_generator.GCD_30_DELTA"), sym.mk("band", *sorted([IH, Poly.const(7)], key=repr)))     # x & 7 == x % 8
        if ((step - want).is_zero() or (step - want2).is_zero()) and (as_poly(s_.env[ix]) - IH - 1).is_zero():
          okp = True
    conf = False
    for kind, val, s_ in wg.terminals:
      if kind == "return" and not isinstance(val, (Seq, Const)) and cname and as_poly(val) == as_poly(vis["after_env"][cname[0]]):
        conf = any(fc[0] == "truthy" and not isinstance(fc[1], Seq) and as_poly(fc[1]).as_atom() is not None and as_poly(fc[1]).as_atom().kind == "is_prime"
                   and as_poly(as_poly(fc[1]).as_atom().args[0]) == as_poly(val) and as_poly(as_poly(fc[1]).as_atom().args[1]).as_int() == 10 for fc in s_.facts)
    if not okp:
      whyp = "the candidate is not advanced by GCD_30_DELTA[idx % 8] with idx running from 0 in steps of 1"
    elif not conf:
      okp = False
      whyp = "the prime is not returned under the 10-round confirmation"
  ctx.record(R, g.where, "byte window prime_bytes[1 : size+1] of more than size bytes", okw and okl, "first keystream byte skipped, p_size_bits // 8 bytes used" if okw and okl else
             "byte window of the candidate changed")
  ctx.record(R, g.where, "msb set, aligned to 30k + 1", okm and oka, "p = from_bytes(..) | 2^(bits-1); p += 31 - p % 30" if okm and oka else "msb / alignment step changed: " + whym)
  ctx.record(R, g.where, "wheel walk until probable prime, then 10-round confirmation", okp, "candidate advanced along the wheel with a running index" if okp else "prime search loop changed: " + whyp)
  init = repo.func("keypair_generator", "Generator.__init__")
  wi = sym.Walker(repo, init)
  wi.run()

  def sha_chain(p_):
    """(k, root) with p_ = sha1(..sha1(root).digest()..).digest() applied k times (call identities ignored)."""
    k_ = 0
    while True:
      a_ = as_poly(p_).as_atom() if not isinstance(p_, (Seq, Const, tuple)) and p_ is not None else None
      if a_ is not None and a_.kind in ("pm", "mcall") and len(a_.args) == 2 and repr(a_.args[1]) == "lit('digest')":
        in_ = as_poly(a_.args[0]).as_atom()
        if in_ is not None and in_.kind == "extcall" and repr(in_.args[0]) == "lit('hashlib.sha1')" and len(in_.args) >= 2:
          p_ = in_.args[1]
          k_ += 1
          continue
      return k_, p_

  def head16(p_):
    a_ = as_poly(p_).as_atom() if not isinstance(p_, (Seq, Const, tuple)) and p_ is not None else None
    if a_ is not None and a_.kind == "slice" and len(a_.args) == 4 and (repr(a_.args[1]) == "lit('None')" or as_poly(a_.args[1]).as_int() == 0) and as_poly(a_.args[2]).as_int() == 16 \
       and repr(a_.args[3]) == "lit('None')":
      return a_.args[0]
    return None
  seedp = P("param", [q for q in init.params() if q != "self"][0])
  attrs = {}
  for e in wi.events:
    if e.kind == "setattr" and as_poly(e.data["base"]) == SELF:
      attrs[e.data["attr"]] = e.data["value"]
  oki = attrs.get("key") is not None and attrs.get("seed") is not None and head16(attrs["key"]) is not None and head16(attrs["seed"]) is not None
  if oki:
    k1, r1 = sha_chain(head16(attrs["key"]))
    k2, r2 = sha_chain(head16(attrs["seed"]))
    oki = k1 == 2 and k2 == 3 and as_poly(r1) == seedp and as_poly(r2) == seedp
  if oki and "orig_key" in attrs:
    k0, r0 = sha_chain(attrs["orig_key"])
    oki = k0 == 2 and as_poly(r0) == seedp
  ctx.record(R, init.where, "PRNG state = sha1 chain of the seed, 16-byte key and counter", oki, "key = sha1(sha1(seed))[:16], seed = sha1(key)[:16]" if oki else "seed expansion changed")
