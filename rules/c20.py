"""C20 - bundled generators return exactly the requested bits, reproducibly (bit-width proof, purity, constants)."""
from __future__ import annotations
import ast, re
from pcstatic import sym, bitwidth, fold
from pcstatic.core import Incomplete
from pcstatic.loader import norm, Cls
from pcstatic.poly import Poly, Atom, P
from pcstatic.sym import Const, Seq, as_poly

META = {
    "level": "proof",
    "trusted_base": ["Python ast parser", "int.from_bytes / to_bytes / bytes slicing / shift / mask semantics", "random.getrandbits(n) < 2^n",
                     "os.urandom(k), hashlib digest(k), numpy Generator.bytes(k) return exactly k bytes", "pcstatic walker + bit-width interpreter"],
    "assumptions": ["n >= 1", "the stream fidelity of the Java / truncated-LCG emulations is decided only as constants and update shape, not as a bit stream"],
    "explanation": ("For every concrete RandomBits body, every path to return and every residue of n modulo the moduli the body tests, "
                    "n is written c*q + r and an upper bound on bit_length(result) is derived as a linear form in q from byte lengths, shifts and masks; "
                    "obligation bound <= n. Purity: entropy sources only on the unseeded path, no instance state written."),
}
MOD = "randomness_tests.rng"
UNSEEDABLE = {"Urandom": "documented: os.urandom cannot be seeded (`del seed`)",
              "SubsetSum": "documented: generators are drawn from os.urandom on every call (`del seed`)"}
ENTROPY_PREFIXES = ("os.urandom", "secrets.", "time.", "random.random", "random.randint", "random.randrange", "random.randbytes",
                    "random.SystemRandom", "uuid.", "os.getpid", "os.getrandom", "datetime.")


def rng_classes(repo):
  m = repo.mod(MOD)
  base = m.classes.get("Rng")
  if base is None:
    raise Incomplete("rng.Rng vanished", MOD)
  out = []
  for c in m.classes.values():
    if c is base:
      continue
    if any(k is base for k in repo.mro(c)):
      out.append(c)
  return m, base, out


def run(ctx):
  repo = ctx.repo
  m, base, classes = rng_classes(repo)
  bodies = [(c, c.methods["RandomBits"]) for c in classes if "RandomBits" in c.methods]
  rule_width(ctx, bodies)
  rule_pure(ctx, bodies)
  rule_const(ctx)
  rule_registry(ctx, m, base, classes)
  # a local read on a path that has not bound it raises UnboundLocalError instead of producing the result (analysis shared with C18)
  from . import c18 as _c18
  n_def = _c18.rule_defined(ctx, "R-C20-DEFINED", "C20")
  n_att = _c18.rule_attrs(ctx, "R-C20-ATTRS", "C20")
  ctx.expect("R-C20-DEFINED", 22, "functions of rng")
  ctx.expect("R-C20-WIDTH", 13, "13 concrete RandomBits bodies")
  ctx.expect("R-C20-PURE", 13, "13 concrete RandomBits bodies")
  ctx.expect("R-C20-REGISTRY", 2, "registry + lookup")
  ctx.expect("R-C20-CONST", 8, "Java + truncated LCG clauses")


def instances(repo, c):
  """[(registry name, {attribute: int})] for the instances of class c in RNGS: constructor defaults and arguments folded, attributes read off __init__."""
  m = repo.mod(MOD)
  node = m.consts.get("RNGS")
  init = repo.find_method(c, "__init__")
  if not isinstance(node, ast.Dict) or init is None:
    return []
  a = init.node.args
  names = [x.arg for x in a.args][1:]
  defaults = dict(zip(names[len(names) - len(a.defaults):], a.defaults))
  w = sym.Walker(repo, init)
  w.run()
  sets = {}
  for e in w.events:
    if e.kind == "setattr" and isinstance(e.data["value"], Poly) and repr(as_poly(e.data["base"])) == "param('self')":
      sets[e.data["attr"]] = e.data["value"]
  out = []
  for k, v in zip(node.keys, node.values):
    if not (isinstance(k, ast.Constant) and isinstance(v, ast.Call) and isinstance(v.func, ast.Name) and v.func.id == c.name):
      continue
    given = dict(defaults)
    for nm, x in zip(names, v.args):
      given[nm] = x
    for kw in v.keywords:
      given[kw.arg] = kw.value
    vals = {}
    for nm, x in given.items():
      try:
        fv = fold.try_fold(x)
      except Exception:
        fv = None
      if isinstance(fv, int) and not isinstance(fv, bool):
        vals[nm] = fv
    attrs = {}
    for at, val in sets.items():
      p_ = val
      for nm, iv in vals.items():
        p_ = p_.deep_subst(Atom("param", nm), Poly.const(iv))
      p_ = sym.rebuild(p_)
      if p_.as_int() is not None:
        attrs[at] = p_.as_int()
    out.append((k.value, attrs))
  return out


def rule_width(ctx, bodies):
  R = "R-C20-WIDTH"
  total = 0
  for c, f in bodies:
    res, w = bitwidth.analyse(ctx.repo, f)
    total += len(res)
    if w.unmodelled:
      ctx.incomplete(R, f.where, "unmodelled", "; ".join(sorted(set(w.unmodelled))))
    if not res:
      ctx.incomplete(R, f.where, "returns", "no return path analysed")
      continue
    unknown = [r for r in res if r["ok"] is None]
    bad = [r for r in res if r["ok"] is False]
    if unknown and not bad:
      # the bound depends on how the instance was constructed: decide it for every instance of this class in the registry
      insts = instances(ctx.repo, c)
      if insts:
        still = []
        for nm, attrs in insts:
          extra = set()
          for _ in range(3):
            res_i, _w = bitwidth.analyse(ctx.repo, f, inst=attrs, extra_moduli=extra)
            need = {int(m_.group(1)) for r in res_i if r["ok"] is None for m_ in [re.search(r"needs residues modulo (\d+)", r["detail"])] if m_}
            if not need or need <= extra:
              break
            extra |= need
          total += len(res_i)
          for r in res_i:
            r["construct"] = "%s [RNGS[%r]: %s]" % (r["construct"], nm, ", ".join("%s=%d" % kv for kv in sorted(attrs.items()) if kv[1] < 2**16))
          still += [r for r in res_i if r["ok"] is None]
          bad += [r for r in res_i if r["ok"] is False]
        unknown = still
    if unknown:
      seen = set()
      for r in unknown:
        k = (r["construct"], r["detail"])
        if k in seen:
          continue
        seen.add(k)
        ctx.incomplete(R, f.where, r["construct"], "cannot bound the result: %s (%s)" % (r["detail"], r["residue"]))
    if bad:
      groups = {}
      for r in bad:
        groups.setdefault(r["construct"], []).append(r)
      for construct, rs in groups.items():
        residues = sorted({r["residue"].split("+")[-1].strip() for r in rs}, key=int)
        modulus = rs[0]["residue"].split("*")[0].replace("n = ", "")
        key = "%s @ n %% %s in {%s}" % (construct, modulus, ",".join(residues))
        ctx.violation(R, f.where, key, "%s on the path [%s]: the result can exceed 2^n - 1" % (rs[0]["detail"], " & ".join(rs[0]["path"][-2:])),
                      sample=rs[0])
    if not bad and not unknown:
      ctx.ok(R, f.where, "all return paths", "%d (path, residue) obligations: bit_length(result) <= n" % len(res), sample=res[0])
  ctx.extra["width_obligations"] = total


def rule_pure(ctx, bodies):
  R = "R-C20-PURE"
  repo = ctx.repo
  for c, f in bodies:
    where = f.where
    w = sym.Walker(repo, f)
    w.run()
    params = f.params()
    allargs = [a.arg for a in f.node.args.args + f.node.args.kwonlyargs]
    if "seed" not in allargs:
      ctx.violation(R, where, "signature", "RandomBits has no seed parameter")
      continue
    seed = P("param", "seed")
    probs = []
    deleted = any(isinstance(s, ast.Delete) and any(isinstance(t, ast.Name) and t.id == "seed" for t in s.targets) for s in f.node.body)
    if deleted or c.name in UNSEEDABLE:
      if c.name in UNSEEDABLE and deleted:
        ctx.ok(R, where, "unseedable", "frozen exception: " + UNSEEDABLE[c.name])
      elif deleted:
        ctx.violation(R, where, "del seed", "generator discards its seed but is not a documented unseedable generator")
      else:
        ctx.ok(R, where, "unseedable", "frozen exception: " + UNSEEDABLE[c.name])
      continue
    for e in w.events:
      if e.kind == "setattr" and as_poly(e.data["base"]) == P("param", "self"):
        probs.append("instance attribute self.%s written in RandomBits (result would depend on earlier calls)" % e.data["attr"])
      if e.kind == "augstore" and "self." in norm(e.node).split("=")[0]:
        probs.append("instance state updated in RandomBits: %s" % norm(e.node))
      if e.kind != "call":
        continue
      name = e.data["name"]
      if name.startswith("ext:") and name[4:].startswith(ENTROPY_PREFIXES):
        unseeded = any((f_[0] == "cmp" and f_[1] in ("Is", "Eq") and as_poly(f_[2]) == seed and isinstance(f_[3], Const) and f_[3].v is None)
                       or (f_[0] == "falsy" and as_poly(f_[1]) == seed) for f_ in e.facts)
        if not unseeded:
          probs.append("entropy source %s is reachable when a seed is given: %s" % (name[4:], norm(e.node)))
      if name == "ext:random.getrandbits":
        tr = [w.events[i] for i in e.state.trace]
        seeded = any(x.kind == "call" and x.data["name"] == "ext:random.seed" and x.data["args"] and as_poly(x.data["args"][0]) == seed for x in tr)
        if not seeded:
          probs.append("random.getrandbits is not dominated by random.seed(seed)")
      if name.startswith("meth:") and name[5:] == "bit_generator":
        kw = e.data["kwargs"]
        a0 = e.data["args"]
        passed = ("seed" in kw and as_poly(kw["seed"]) == seed) or (a0 and as_poly(a0[0]) == seed)
        if not passed:
          probs.append("numpy bit generator is not constructed from the seed")
      if name.startswith("repo:") and name.endswith("._Generators"):
        probs.append("entropy helper called")
    # the seeded result must use the seed: on seeded paths the returned term or its inputs mention seed (or random.seed/bit_generator)
    uses_seed = any("param('seed')" in repr(as_poly(v)) for e in w.events for v in ([e.data.get("value")] if e.kind in ("assign", "augassign") else [])
                    if v is not None and not isinstance(v, tuple)) or \
        any(e.kind == "call" and any("param('seed')" in repr(as_poly(a)) for a in list(e.data["args"]) + list(e.data["kwargs"].values()) if not isinstance(a, tuple))
            for e in w.events)
    if not uses_seed:
      probs.append("the seed never flows into the computation")
    ctx.record(R, where, "seeded path is deterministic", not probs, "; ".join(sorted(set(probs))) or
               "entropy sources only under `seed is None`/falsy seed; no instance state written; seed flows into the state")


def assigns_of(fn, name):
  return [s for s in ast.walk(fn) if isinstance(s, ast.Assign) and len(s.targets) == 1 and isinstance(s.targets[0], ast.Name) and s.targets[0].id == name]


def rule_const(ctx):
  R = "R-C20-CONST"
  repo = ctx.repo
  m = repo.mod(MOD)
  # ---- java.util.Random
  c = m.classes.get("JavaRandom")
  if c is None or "RandomBits" not in c.methods:
    raise Incomplete("JavaRandom.RandomBits vanished", MOD)
  f = c.methods["RandomBits"]
  w = sym.Walker(repo, f)
  w.run()
  want = {"a": 0x5DEECE66D, "c": 0xB, "mask": (1 << 48) - 1}
  A, Cc, M = Poly.const(want["a"]), Poly.const(want["c"]), Poly.const(want["mask"])
  seed = P("param", "seed")
  loops = [i for i in w.loop_info.values() if isinstance(i["node"], ast.For)]
  ok_step = ok_out = ok_store = ok_seed = False
  consts = {}
  if len(loops) == 1 and loops[0].get("visits"):
    info = loops[0]
    for kind, val, s, since, visit in info["body_paths"]:
      evs = [w.events[i] for i in s.trace[since:]]
      # the state: the loop-carried variable updated to (a * state + c) & mask (whatever it is called and however the step is spelled)
      new_state = None
      for nm in info["modified"]:
        sh_, se_ = visit["head"].env.get(nm), s.env.get(nm)
        if not isinstance(sh_, Poly) or not isinstance(se_, Poly) or sh_.as_atom() is None:
          continue
        ua = se_.as_atom()
        if ua is not None and ua.kind == "band" and len(ua.args) == 2:
          for lin, msk in ((ua.args[0], ua.args[1]), (ua.args[1], ua.args[0])):
            lin, msk = as_poly(lin), as_poly(msk)
            if msk.as_int() is None or lin.degree_in(sh_.as_atom()) != 1:
              continue
            c0 = lin.subst(sh_.as_atom(), Poly.const(0))
            a0 = lin.subst(sh_.as_atom(), Poly.const(1)) - c0
            if a0.as_int() is not None and c0.as_int() is not None:
              consts = {"a": a0.as_int(), "c": c0.as_int(), "mask": msk.as_int()}
              new_state = se_
              pre_ = visit["pre_env"].get(nm)
              if isinstance(pre_, Poly):
                pa_ = pre_.as_atom()
                if pa_ is not None and pa_.kind == "band" and len(pa_.args) == 2:
                  for x_, m_ in ((pa_.args[0], pa_.args[1]), (pa_.args[1], pa_.args[0])):
                    xa_ = as_poly(x_).as_atom()
                    if as_poly(m_) == M and xa_ is not None and xa_.kind == "bxor" and len(xa_.args) == 2 and any(as_poly(z) == A for z in xa_.args):
                      ok_seed = True
      if new_state is None:
        continue
      ok_step = consts == want
      stores = [e for e in evs if e.kind == "store"]
      if len(stores) == 1:
        v = as_poly(stores[0].data["value"]).as_atom()
        if v is not None and v.kind == "pm" and bitwidth.lit_of(v.args[1]) == "to_bytes" and v.args[2] == Poly.const(4):
          ok_out = as_poly(v.args[0]) == sym.mk("shr", new_state, Poly.const(16))
          lo, hi, stp = stores[0].data.get("slice_lo"), stores[0].data.get("slice_hi"), stores[0].data.get("slice_step")
          k = as_poly(visit["k"])
          ok_store = lo is not None and hi is not None and stp is None and (lo - k * 4).is_zero() and (hi - k * 4 - 4).is_zero()
  ctx.record(R, f.where, "LCG constants", consts == want, "multiplier 0x5DEECE66D, increment 0xB, 48-bit mask" if consts == want else
             "constants %s differ from java.util.Random's %s" % (consts, want))
  ctx.record(R, f.where, "seed scrambling", ok_seed, "state0 = (seed ^ a) & mask" if ok_seed else "initial state is not (seed ^ 0x5DEECE66D) & mask")
  ctx.record(R, f.where, "state update", ok_step, "state = (state * a + c) & mask" if ok_step else "state update is not the 48-bit LCG step")
  ctx.record(R, f.where, "output = state >> 16", ok_out, "upper 32 bits of the new state" if ok_out else "output is not the new state >> 16")
  ctx.record(R, f.where, "4 bytes per step at ba[4j:4j+4]", ok_store, "one 4-byte word per LCG step, stored at consecutive offsets" if ok_store else
             "the output word is not stored as 4 bytes at ba[4*j : 4*(j+1)]")
  rets = [e for e in w.events if e.kind == "return" and e.node is not None]
  okb = bool(rets) and all(bitwidth.is_from_bytes(as_poly(e.data["value"]).as_atom()) and bitwidth.lit_of(as_poly(e.data["value"]).as_atom().args[3]) == "'big'"
                           for e in rets if as_poly(e.data["value"]).as_atom() is not None) and all(as_poly(e.data["value"]).as_atom() is not None for e in rets)
  ctx.record(R, f.where, "big-endian assembly", okb, "int.from_bytes(ba, 'big') as BigInteger(n, rnd)" if okb else "result is not assembled big-endian")
  # ---- truncated LCG
  c = m.classes.get("TruncLcgRand")
  if c is None or "RandomBits" not in c.methods or "__init__" not in c.methods:
    raise Incomplete("TruncLcgRand vanished", MOD)
  f = c.methods["RandomBits"]
  w = sym.Walker(repo, f)
  w.run()
  osz = sym.mk("attr", P("param", "self"), "output_size")
  loops = [i for i in w.loop_info.values() if isinstance(i["node"], ast.For)]
  ok_step = ok_out = False
  if len(loops) == 1 and loops[0].get("visits"):
    info = loops[0]
    for kind, val, s, since, visit in info["body_paths"]:
      evs = [w.events[i] for i in s.trace[since:]]
      a_ = sym.mk("attr", P("param", "self"), "a")
      c_ = sym.mk("attr", P("param", "self"), "c")
      # the state by role: the loop-carried variable whose value at the end of the pass is the LCG step of its value at the head
      st_as, sh = [], None
      for nm_ in info["modified"]:
        hv_, ev_ = visit["head"].env.get(nm_), s.env.get(nm_)
        if isinstance(hv_, Poly) and isinstance(ev_, Poly) and hv_.as_atom() is not None and hv_.as_atom().kind == "sym" and \
           ev_ == sym.mk("mod", hv_ * a_ + c_, sym.mk("pow", Poly.const(2), osz * 2)):
          sh = hv_
          st_as = [e for e in evs if e.kind in ("assign", "augassign") and e.data["name"] == nm_]
      if sh is not None and len(st_as) == 1 and as_poly(st_as[0].data["value"]) == sym.mk("mod", sh * a_ + c_, sym.mk("pow", Poly.const(2), osz * 2)):
        ok_step = True
        # the output of the step, by value: whatever is turned into bytes and stored into the buffer on this pass
        outs = []
        for e in evs:
          if e.kind == "store" and isinstance(e.data.get("value"), Poly):
            va = e.data["value"].as_atom()
            if va is not None and va.kind == "pm" and bitwidth.lit_of(va.args[1]) == "to_bytes":
              outs.append(as_poly(va.args[0]))
        if len(outs) == 1 and outs[0] == sym.mk("shr", as_poly(st_as[0].data["value"]), osz):
          ok_out = True
  ctx.record(R, f.where, "state update", ok_step, "state = (state * a + c) mod 2^(2*output_size)" if ok_step else "state update is not the LCG step modulo 2^(2*output_size)")
  ctx.record(R, f.where, "output = upper half", ok_out, "output = state >> output_size" if ok_out else "output is not the upper half of the new state")
  init = c.methods["__init__"]
  tab = None
  for s_ in ast.walk(init.node):
    if isinstance(s_, ast.Dict):
      t_ = fold.try_fold(s_)
      if isinstance(t_, dict) and t_ and all(isinstance(k_, int) and isinstance(v_, int) for k_, v_ in t_.items()):
        tab = t_
  ok = isinstance(tab, dict) and list(tab) == sorted(tab) and all(isinstance(k, int) and isinstance(v, int) and v % 2 == 1 and v < 2 ** k for k, v in tab.items())
  ctx.record(R, init.where, "multiplier table", ok, "keys ascending (first key >= 2*output_size is selected), odd multipliers below 2^state_size" if ok else
             "multiplier table is not an ascending {state_size: odd multiplier < 2^state_size} map: %r" % (list(tab) if isinstance(tab, dict) else tab,))
  from pcstatic import refmath
  same = isinstance(tab, dict) and tab == refmath.TRUNC_LCG_MULTIPLIERS and all(v_ % 8 == 5 for v_ in refmath.TRUNC_LCG_MULTIPLIERS.values())
  diff = sorted(k_ for k_ in set(tab or {}) | set(refmath.TRUNC_LCG_MULTIPLIERS) if (tab or {}).get(k_) != refmath.TRUNC_LCG_MULTIPLIERS.get(k_)) if isinstance(tab, dict) else []
  ctx.record(R, init.where, "published multipliers", same, "12 entries equal the L'Ecuyer / Steele-Vigna multipliers (each = 5 mod 8: full period)" if same else
             "multiplier(s) for state size %s differ from the published values: the generator no longer emulates the documented LCG" % diff)
  # selection: the first table entry (ascending state sizes) with state size >= 2 * output_size, the largest as fall-back; increment 1
  wi = sym.Walker(repo, init)
  wi.run()
  SELF_ = P("param", "self")
  osz_p = P("param", [q for q in init.params() if q != "self"][0])
  sets = [e for e in wi.events if e.kind == "setattr" and as_poly(e.data["base"]) == SELF_]
  cone = any(e.data["attr"] == "c" and isinstance(e.data["value"], (Const, Poly)) and as_poly(e.data["value"]).as_int() == 1 for e in sets) and \
      not any(e.data["attr"] == "c" and as_poly(e.data["value"]).as_int() != 1 for e in sets if not isinstance(e.data["value"], (Seq, tuple)))
  sel = brk = False
  for info in wi.loop_info.values():
    it = as_poly(info["iter"]).as_atom() if not isinstance(info["iter"], Seq) and info["iter"] is not None else None
    if it is None or it.kind != "items":
      continue
    for kind, val, s_, since, vis in info["body_paths"]:
      key = sym.mk("key", it.args[0], as_poly(vis["k"]))
      newf = s_.facts[len(vis["head"].facts):]
      if kind == "break":
        cs = [c12_canon(fc) for fc in newf]
        cs = [c_ for c_ in cs if c_ is not None]
        evs = [wi.events[x] for x in s_.trace if x >= since]
        st_a = [e for e in evs if e.kind == "setattr" and e.data["attr"] == "a"]
        sizes = [osz_p] + [sym.mk("attr", SELF_, e.data["attr"]) for e in sets if not isinstance(e.data["value"], (Seq, Const, tuple)) and as_poly(e.data["value"]) == osz_p]
        if len(cs) == 1 and any((cs[0][0] - (x_ * 2 - key)).is_zero() for x_ in sizes) and cs[0][1] == 0 and len(st_a) == 1 and as_poly(st_a[0].data["value"]) == sym.mk("idx", it.args[0], key):
          sel = brk = True
  fallback = any(e.data["attr"] == "a" and not e.state.tags and isinstance(tab, dict) and as_poly(e.data["value"]).as_int() == tab[max(tab)] for e in sets) if isinstance(tab, dict) and tab else False
  sel = sel and fallback
  ctx.record(R, init.where, "multiplier selection", sel and brk and cone, "first state size >= 2*output_size, increment 1" if sel and brk and cone else
             "multiplier selection / increment differs from the documented generator")


def seed_value(e):
  v = e.state.env.get("seed")
  return v if v is not None else P("param", "seed")


def rule_registry(ctx, m, base, classes):
  R = "R-C20-REGISTRY"
  repo = ctx.repo
  node = m.consts.get("RNGS")
  if not isinstance(node, ast.Dict):
    raise Incomplete("rng.RNGS is not a dict literal", MOD)
  probs = []
  names = []
  for k, v in zip(node.keys, node.values):
    if not (isinstance(k, ast.Constant) and isinstance(k.value, str)):
      probs.append("non-literal generator name")
      continue
    names.append(k.value)
    if not (isinstance(v, ast.Call) and isinstance(v.func, ast.Name) and v.func.id in m.classes):
      probs.append("%s is not an instance of a class of this module" % k.value)
      continue
    c = m.classes[v.func.id]
    if not any(x is base for x in repo.mro(c)) or c is base:
      probs.append("%s: %s is not a subclass of Rng" % (k.value, c.name))
      continue
    rb = repo.find_method(c, "RandomBits")
    if rb is None or rb.cls is base:
      probs.append("%s: %s does not override RandomBits" % (k.value, c.name))
  if len(set(names)) != len(names):
    probs.append("duplicate generator names")
  ctx.record(R, MOD + ":RNGS", "registry", not probs, "; ".join(probs) or "%d names, all instances of Rng subclasses overriding RandomBits" % len(names))
  g = m.funcs.get("GetRng")
  ok = False
  if g is not None:
    w = sym.Walker(repo, g)
    w.run()
    raises = [e for e in w.events if e.kind == "raise"]
    rets = [e for e in w.events if e.kind == "return" and e.node is not None]
    name = P("param", g.params()[0])
    ok = bool(raises) and all(any(f_[0] == "cmp" and f_[1] == "NotIn" and as_poly(f_[2]) == name for f_ in e.facts) for e in raises) and \
        bool(rets) and all(as_poly(e.data["value"]) == sym.mk("idx", P("ref", MOD + ".RNGS"), name) for e in rets)
  ctx.record(R, MOD + ":GetRng", "lookup", ok, "raises for unknown names, returns RNGS[name] otherwise" if ok else "GetRng does not raise for unknown names / return RNGS[name]")


def c12_canon(fc):
  from .c12 import canon_le
  return canon_le(fc) if fc[0] == "cmp" and fc[1] in ("Lt", "LtE", "Gt", "GtE") else None
