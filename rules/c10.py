"""C10 - small and structured discrete logarithms are always found (coverage inequalities of the baby-step/giant-step search)."""
from __future__ import annotations
import ast
from pcstatic import sym, fold
from pcstatic.core import Incomplete
from pcstatic.loader import norm
from pcstatic.poly import Poly, Atom, P
from pcstatic.sym import Const, Seq, as_poly
from .c02 import walk, SELF, G as GEN, lit, INF

META = {
    "level": "other",
    "trusted_base": ["Python ast parser", "floor-division lemmas (x//t)*t >= x - t + 1 and ceil(x/m)*m >= x for t, m >= 1", "pcstatic walker + polynomial normal form",
                     "BatchAddX / Multiply / PointSequence compute the group law on the run (formulas: C11)"],
    "assumptions": ["table_size >= 1 (n * len(points) >= 1)", "int(math.sqrt(.)) is exact for the magnitudes used (2^32 * batch size)"],
    "explanation": ("Window adjacency and reach of the giant-step search are proved as inequalities over the extracted step / size expressions (symbolic in the "
                    "table size T and the bound n); table index coverage by the ceiling lemma; cache consistency; multiplier families and the 2^32 bound; duplicate skip."),
}


def run(ctx):
  rule_cover(ctx)
  rule_table(ctx)
  rule_cache(ctx)
  rule_forms(ctx)
  rule_dup(ctx)
  from . import c02
  ctx.borrow(c02.rule_release, "R-C10-DUP", lambda r: r.where.endswith("BatchDLOfDifferences"))
  # the searches compare x-coordinates of p + q and p - q: the batched x-only additions must agree with Add on every mixture of special cases (shared with C11)
  from . import c11
  ctx.borrow(c11.rule_dispatch, "R-C10-ARITH", lambda r: r.where.endswith(("BatchAddX", "BatchAddSubtractX")))
  ctx.borrow(c11.rule_formula, "R-C10-ARITH", lambda r: r.where.endswith(("BatchAddX", "BatchAddSubtractX")))
  rule_lookup(ctx)
  ctx.expect("R-C10-LOOKUP", 2, "BatchDL and BatchDLOfDifferences")
  from . import template as _T
  _T.rule_all_curves(ctx, "R-C10-CURVES", lambda w_: w_.startswith(("ec_single_checks:", "ec_aggregate_checks:")))
  ctx.expect("R-C10-CURVES", 2, "the two per-curve EC searches")
  ctx.expect("R-C10-ARITH", 5, "dispatch and formulas of BatchAddX / BatchAddSubtractX")
  ctx.expect("R-C10-COVER", 4, "candidates, step, adjacency, reach")
  ctx.expect("R-C10-TABLE", 4, "table coverage + point sequence")
  ctx.expect("R-C10-CACHE", 2, "two cached searches")
  ctx.expect("R-C10-FORMS", 4, "two multiplier families, bound, enumeration")
  ctx.expect("R-C10-DUP", 5, "skip + pair coverage + comparison-list alignment and both relation stores (shared with C02)")


def apply_floor_lemma(D, positive_atoms):
  """Lower-bounds D by replacing each product fdiv(A, t) * t (t a polynomial assumed >= 1) with A - t + 1.
  Returns (lower bound polynomial, list of lemma instances) or (None, reason)."""
  used = []
  for _ in range(4):
    fds = [a for a in D.atoms() if a.kind == "fdiv"]
    if not fds:
      break
    F = fds[0]
    A, t = F.args
    # D = c(F-free) + F * q  -> need q == k * t with k >= 0 integer
    q = Poly()
    rest = Poly()
    for mono, c in D.t.items():
      if any(a == F for a, _ in mono):
        e = [e_ for a, e_ in mono if a == F][0]
        if e != 1:
          return None, "non-linear occurrence of %r" % (F,)
        m2 = tuple((a, e_) for a, e_ in mono if a != F)
        q = q + Poly({m2: c})
      else:
        rest = rest + Poly({mono: c})
    # q must be k*t
    k = None
    if t.is_zero():
      return None, "zero divisor"
    (m0, c0) = next(iter(t.t.items()))
    if m0 in q.t:
      k = q.t[m0] / c0
      if not (q - t * k).is_zero():
        k = None
    if k is None:
      return None, "floor division %r is not multiplied by its divisor" % (F,)
    if k > 0:
      D = rest + (A - t + 1) * k
      used.append("(%r // t) * t >= %r - t + 1" % (A, A))
    else:
      # negative coefficient: upper bound F*t <= A
      D = rest + A * k
      used.append("(%r // t) * t <= %r" % (A, A))
  return D, used


def provably_nonneg(D, pos_atoms, min_val=0):
  """D >= min_val given every atom in pos_atoms >= 1 and all other atoms unconstrained: requires D = c0 + sum c_i * a_i with c_i >= 0 on
  positive atoms only."""
  c0 = 0
  low = 0
  for mono, c in D.t.items():
    if mono == ():
      c0 = c
      continue
    if not all(a in pos_atoms for a, _ in mono):
      return False
    if c < 0:
      return False
    low += c   # each positive atom >= 1
  return c0 + low >= min_val


def rule_cover(ctx):
  R = "R-C10-COVER"
  repo = ctx.repo
  f, w = walk(repo, "BatchDL")
  n = P("param", "n")
  points = P("param", "points")
  ps = [e for e in w.events if e.kind == "call" and e.data["name"] == "meth:PointSequence"]
  if not ps:
    ctx.violation(R, f.where, "giant steps", "no giant-step sequence is built")
    return
  e = ps[0]
  base_arg, Gn = as_poly(e.data["args"][0]), as_poly(e.data["args"][1])
  ba = base_arg.as_atom()
  if ba is None or ba.kind != "mcall" or ba.args[1] != lit("Multiply") or ba.args[2] != GEN:
    ctx.violation(R, f.where, "giant step point", "giant steps are not multiples of the generator")
    return
  step = -ba.args[3]            # giant step size t (points are p - j*t*G)
  # the table size by role: what the baby-step table is (re)built with - self.PointTable(base, T) - whatever the local is called
  T_val = None
  for e2 in w.events:
    if e2.kind == "call" and e2.data["name"] == "meth:PointTable" and len(e2.data["args"]) >= 2 and isinstance(e2.data["args"][1], Poly):
      T_val = e2.data["args"][1]
  if T_val is None:
    T_val = e.state.env.get("table_size")
  if T_val is None:
    ctx.incomplete(R, f.where, "table size", "no table size found (second argument of self.PointTable)")
    return
  T = as_poly(T_val)
  Ta = T.as_atom()
  if Ta is None:
    ctx.incomplete(R, f.where, "table size", "table size is not atomic: %r" % (T,))
    return
  want_T = sym.mk("math.sqrt", n * sym.mk("len", points))
  okT = T == want_T or repr(T) == repr(want_T)
  ctx.record(R, f.where, "table size T = isqrt(n * len(points))", okT, "baby-step table covers |i| < T" if okT else "table size is %r" % (T,))
  # candidates
  cands = None
  for ev in w.events:
    if ev.kind == "loophead" and isinstance(ev.data["iter"], Seq) and len(ev.data["iter"].items) == 2:
      cands = [as_poly(x) for x in ev.data["iter"].items]
      jst = ev.state
  ok = False
  detail = "candidate list not found"
  if cands is not None:
    # j = enumerate index of BatchAddX(p, list_c); tab = self._table[x]
    tabs = [a for a in cands[0].atoms() if a.kind == "idx" and a.args[0] == sym.mk("attr", SELF, "_table")]
    js = [a for a in cands[0].atoms() if a.kind == "sym"]
    if len(tabs) == 1 and js:
      tab = Poly.atom(tabs[0])
      j = None
      for a in js:
        if (cands[0] - (Poly.atom(a) * step + tab)).is_zero():
          j = Poly.atom(a)
      if j is not None and (cands[1] - (j * step - tab)).is_zero():
        ok = True
        detail = "candidates j*t + i and j*t - i for the table hit i at giant step j (x-coordinate identifies +-i)"
      else:
        detail = "candidates are %r, expected j*t + i and j*t - i with the giant step t = %r" % (cands, step)
  ctx.record(R, f.where, "candidates {j*t + i, j*t - i}", ok, detail)
  # adjacency: t <= 2T - 1
  D = (T * 2 - 1) - step
  okA = provably_nonneg(D, {Ta})
  ctx.record(R, f.where, "adjacency: t <= 2T - 1", okA, "windows [j*t - (T-1), j*t + (T-1)] leave no gap (t = %r)" % (step,) if okA else
             "giant step %r exceeds 2T - 1: residual %r is not provably >= 0, values between consecutive windows are never tested" % (step, D))
  # reach: (G-1)*t + (T-1) >= n - 1
  D = (Gn - 1) * step + (T - 1) - (n - 1)
  LB, used = apply_floor_lemma(D, {Ta})
  if LB is None:
    fd = [a for a in Gn.all_atoms() if a.kind == "fdiv"]
    if fd and not (as_poly(fd[0].args[1]) - step).is_zero():
      ctx.record(R, f.where, "reach: (G-1)*t + T - 1 >= n - 1", False, "the number of giant steps G = %r divides by %r but the search advances by t = %r: "
                 "(G - 1) * t can stop short of n - 1" % (Gn, as_poly(fd[0].args[1]), step))
    else:
      ctx.record(R, f.where, "reach: (G-1)*t + T - 1 >= n - 1", None, "cannot bound: %s" % used)
  else:
    okR = provably_nonneg(LB, {Ta})
    ctx.record(R, f.where, "reach: (G-1)*t + T - 1 >= n - 1", okR, "lower bound %r >= 0 by %s (G = %r)" % (LB, used, Gn) if okR else
               "with G = %r giant steps the last window ends below n - 1: lower bound %r is not provably >= 0" % (Gn, LB))
  # the sequence enumerated is the one built; every giant step is examined (no exit from the inner loops)
  probs = []
  for info in w.loop_info.values():
    for kind, val, s, since, vis in info["body_paths"]:
      if kind in ("break", "return"):
        probs.append("search loop left by `%s`" % kind)
  # every giant step's x-coordinate is looked up in the table (the table holds None -> 0 for the point at infinity, so an exact multiple of t
  # is found through x = None as well): each pass of the giant-step loop must decide `x in self._table` for its own x
  table = sym.mk("attr", SELF, "_table")
  n_giant = 0
  for info in w.loop_info.values():
    it = None if isinstance(info["iter"], Seq) else as_poly(info["iter"]).as_atom()
    if it is None or it.kind != "enumerate" or "BatchAddX" not in repr(it.args[0]):
      continue
    for kind, val, s, since, vis in info["body_paths"]:
      n_giant += 1
      itv = as_poly(vis["iter"]).as_atom() if not isinstance(vis["iter"], Seq) else it
      x = sym.mk("idx", itv.args[0], as_poly(vis["k"]))
      newf = s.facts[len(vis["head"].facts):]
      looked = any(fc[0] == "cmp" and fc[1] in ("In", "NotIn") and not isinstance(fc[2], Seq) and as_poly(fc[2]) == x and not isinstance(fc[3], Seq) and as_poly(fc[3]) == table
                   for fc in newf)
      if not looked:
        probs.append("a giant step is passed over without looking its x-coordinate up in the table (%s): logs at that offset are lost" %
                     (" & ".join("%s %s" % (fc[1], "x" if not isinstance(fc[2], Seq) and as_poly(fc[2]) == x else "..") for fc in newf if fc[0] == "cmp") or "unconditional"))
  if n_giant == 0:
    probs.append("giant-step loop over BatchAddX(p, list_c) not found")
  ctx.record(R, f.where, "all giant steps and both signs examined", not probs, "; ".join(sorted(set(probs))) or "no exit from the search loops; every giant step is looked up")


def rule_table(ctx):
  R = "R-C10-TABLE"
  repo = ctx.repo
  f, w = walk(repo, "PointTable")
  base, N = P("param", "base"), P("param", "n")
  # the two sequences by role: `low` is what BatchAddX adds a point of `high` to (whatever the locals are called, temporaries or not)
  lo = hi = None
  for info in w.loop_info.values():
    for vis in info.get("visits", []):
      if not isinstance(vis.get("iter"), Poly):
        continue
      for t_ in vis["iter"].all_atoms():
        if t_.kind == "mcall" and len(t_.args) == 4 and t_.args[1] == lit("BatchAddX"):
          lo = as_poly(t_.args[3])
          pa_ = as_poly(t_.args[2]).as_atom()
          if pa_ is not None and pa_.kind == "idx":
            hi = as_poly(pa_.args[0])
            ha_ = hi.as_atom()
            if ha_ is not None and ha_.kind == "enumerate":
              hi = as_poly(ha_.args[0])
  def seq_len(v):
    a_ = v.as_atom() if v is not None else None
    return as_poly(a_.args[3]) if a_ is not None and a_.kind == "mcall" and len(a_.args) == 4 and a_.args[1] == lit("PointSequence") else None
  m, r = seq_len(lo), seq_len(hi)
  if m is None or r is None or m.as_atom() is None:
    ctx.incomplete(R, f.where, "m, r", "table dimensions not found")
    return
  D = r * m - N
  LB, used = apply_floor_lemma(D, {m.as_atom()})
  ok = LB is not None and provably_nonneg(LB, {m.as_atom()})
  ctx.record(R, f.where, "m * r >= N", ok, "indices i*m + j cover [0, N): %s" % used if ok else "m*r - N has lower bound %r: the table may miss the largest indices" % (LB,))
  okm = m == sym.mk("math.sqrt", N)
  ctx.record(R, f.where, "m = isqrt(N)", okm, "two sequences of about sqrt(N) points" if okm else "m is %r" % (m,))
  want_lo = sym.mk("mcall", SELF, lit("PointSequence"), base, m)
  want_hi = sym.mk("mcall", SELF, lit("PointSequence"), sym.mk("mcall", SELF, lit("Multiply"), base, m), r)
  ctx.record(R, f.where, "sequences: j*base (j < m), i*m*base (i < r)", lo == want_lo and hi == want_hi,
             "low = PointSequence(base, m), high = PointSequence(m*base, r)" if lo == want_lo and hi == want_hi else "sequences are %r / %r" % (lo, hi))
  stores = [e for e in w.events if e.kind == "store"]
  okS = bool(stores)
  why = ""
  for e in stores:
    v = sym.resolve_counters(w, as_poly(e.data["value"]))          # a running offset `offset += m` reads as i * m
    # value i*m + j with i, j the enumerate indices of high / BatchAddX(p, low)
    syms = [a for a in v.atoms() if a.kind == "sym"]
    good = False
    for a in syms:
      for b in syms:
        if (v - (Poly.atom(a) * m + Poly.atom(b))).is_zero() and a != b:
          good = True
    key = as_poly(e.data["index"]).as_atom()
    if not good:
      okS = False
      why = "stored index is %r, expected i*m + j" % (v,)
    if key is None or key.kind != "idx" or "BatchAddX" not in repr(key.args[0]):
      okS = False
      why = "table is not keyed by the x-coordinate of high[i] + low[j]"
  exits = any(kind in ("break", "return") for info in w.loop_info.values() for kind, _, _, _, _ in info["body_paths"])
  # every (i, j) iteration stores exactly one entry (a conditional store would leave holes, e.g. the point at infinity at index 0)
  inner = [i for i in w.loop_info.values() if "BatchAddX" in repr(as_poly(i["iter"]))]
  for info in inner:
    for kind, val, s_, since, vis in info["body_paths"]:
      n_st = len([1 for i_ in s_.trace[since:] if w.events[i_].kind == "store"])
      if n_st != 1:
        okS = False
        why = "an (i, j) iteration stores %d table entries (a skipped entry leaves a hole in [0, N))" % n_st
  if not inner:
    okS = False
    why = "no loop over BatchAddX(high[i], low)"
  ctx.record(R, f.where, "res[x(i*m*base + j*base)] = i*m + j for every (i, j)", okS and not exits, why or "nested loops without exits, one store per (i, j)")
  # PointSequence
  f, w = walk(repo, "PointSequence")
  base, k = P("param", "base"), P("param", "n")
  probs = []
  stores = [e for e in w.events if e.kind == "store"]
  first = [e for e in stores if not e.state.tags]
  if not (first and all(as_poly(e.data["index"]).as_int() == 0 and isinstance(e.data["value"], Seq) and [as_poly(x).as_int() for x in e.data["value"].items] == [1, 1, 0] for e in first)):
    probs.append("res[0] is not the point at infinity")
  inl = [e for e in stores if e.state.tags]
  if not inl:
    probs.append("no recurrence")
  for e in inl:
    i = as_poly(e.data["index"])
    v = as_poly(e.data["value"]).as_atom()
    resv = e.state.env.get("res")
    if v is None or v.kind != "mcall" or v.args[1] != lit("AddJacobian") or v.args[3] != sym.mk("mcall", SELF, lit("AffineToJacobian"), base):
      probs.append("step is not AddJacobian(res[i-1], base)")
      continue
    prev = v.args[2].as_atom()
    if prev is not None and prev.kind == "sym":
      # the previous element carried in a variable: it starts as the element stored at index 0 and ends every pass as the element just stored
      okc = False
      for info in w.loop_info.values():
        for vis in info.get("visits", []):
          for nm, hv in vis["head"].env.items():
            if isinstance(hv, Poly) and hv.as_atom() == prev:
              pre = vis["pre_env"].get(nm)
              start_ok = pre is not None and not isinstance(pre, tuple) and any(as_poly(pre) == as_poly(e0.data["value"]) for e0 in first if not isinstance(e0.data["value"], tuple))
              ends = [bp[2].env.get(nm) for bp in info["body_paths"] if bp[4] is vis]
              okc = start_ok and bool(ends) and all(isinstance(x, Poly) and x == as_poly(e.data["value"]) for x in ends)
      if not okc:
        probs.append("step does not add base to the previous element")
      continue
    if prev is None or prev.kind != "idx" or not (prev.args[1] - (i - 1)).is_zero():
      probs.append("step does not add base to the previous element")
  for info in w.loop_info.values():
    for vis in info.get("visits", []):
      ra_ = as_poly(vis["iter"]).as_atom() if isinstance(vis["iter"], Poly) else None
      rr_ = [as_poly(x_) for x_ in ra_.args] if ra_ is not None and ra_.kind == "range" else None
      if rr_ is None or (len(rr_) == 3 and rr_[2].as_int() != 1):
        probs.append("loop is not range(1, n)")
        continue
      lo_, hi_ = (Poly.const(0), rr_[0]) if len(rr_) == 1 else (rr_[0], rr_[1])
      kk_ = as_poly(vis["k"])
      # any spelling of "indices 1 .. n-1, one per pass": n - 1 passes, pass t (0-based) stores element t + 1
      if not (hi_ - lo_ - (k - 1)).is_zero() or not all((as_poly(e.data["index"]) - kk_ - 1).is_zero() for e in inl):
        probs.append("loop is not range(1, n)")
  rets = [e for e in w.events if e.kind == "return" and e.node is not None]
  if not all(as_poly(e.data["value"]).as_atom() is not None and as_poly(e.data["value"]).as_atom().kind == "mcall" and as_poly(e.data["value"]).as_atom().args[1] == lit("BatchJacobianToAffine") for e in rets):
    probs.append("result is not converted with BatchJacobianToAffine")
  want_alloc = sym.mk("listrep", P("seq", P("lit", "None")), k)
  bases = [as_poly(e.data["base"]) for e in first if isinstance(e.data.get("base"), Poly)]
  alloc = [e for e in w.events if e.kind == "assign" and not e.state.tags and isinstance(e.data["value"], Poly) and as_poly(e.data["value"]) == want_alloc]
  if not alloc or not bases or any(b_ != want_alloc for b_ in bases):
    probs.append("result list does not have n entries")
  ctx.record(R, f.where, "k points 0*base .. (k-1)*base", not probs, "; ".join(sorted(set(probs))) or "res[0] = inf, res[i] = res[i-1] + base for i in range(1, n)")


def cache_rule(ctx, R, fname, size_name):
  repo = ctx.repo
  f, w = walk(repo, fname)
  probs = []
  sets = [e for e in w.events if e.kind == "setattr" and as_poly(e.data["base"]) == SELF]
  tab = [e for e in sets if e.data["attr"] == "_table"]
  siz = [e for e in sets if e.data["attr"] == "_table_size"]
  other = [e for e in sets if e.data["attr"] not in ("_table", "_table_size")]
  if other:
    probs.append("writes other instance state: %s" % sorted({e.data["attr"] for e in other}))
  if not tab or not siz:
    probs.append("table / size not both written")
  cur = sym.mk("attr", SELF, "_table_size")
  for e in tab + siz:
    # guard: requested > self._table_size
    if not any(f_[0] == "cmp" and ((f_[1] == "Gt" and as_poly(f_[3]) == cur) or (f_[1] == "Lt" and as_poly(f_[2]) == cur)) for f_ in e.facts):
      probs.append("cache rewritten without the guard `requested > self._table_size`")
  req = None
  for e in tab:
    v = as_poly(e.data["value"]).as_atom()
    if v is None or v.kind != "mcall" or v.args[1] != lit("PointTable") or v.args[2] != GEN:
      probs.append("table is not PointTable(g, size)")
      continue
    req = v.args[3]
  for e in siz:
    if req is not None and as_poly(e.data["value"]) != req:
      probs.append("stored size %r differs from the size the table was built for (%r)" % (as_poly(e.data["value"]), req))
    tr = [w.events[i] for i in e.state.trace]
    if not any(x.kind == "setattr" and x.data["attr"] == "_table" for x in tr):
      probs.append("_table_size written without rebuilding _table")
  for e in tab + siz:
    for f_ in e.facts:
      if f_[0] == "cmp" and f_[1] == "Gt" and as_poly(f_[3]) == cur and req is not None and as_poly(f_[2]) != req:
        probs.append("guard compares %r but the table is built for %r" % (as_poly(f_[2]), req))
  # the size left behind by earlier calls decides only whether to rebuild: it must not flow into the search arithmetic (step, count, bounds)
  ca = cur.as_atom()
  for e in w.events:
    if e.kind == "setattr":
      continue
    vals = [e.data.get(k_) for k_ in ("value", "rhs", "index", "iter")] + (list(e.data.get("args", [])) if e.kind == "call" else [])
    for v in vals:
      if isinstance(v, Poly) and ca in v.all_atoms():
        probs.append("`%s` computes with self._table_size, the size cached by an earlier call: the search depends on the history of the curve object" %
                     (norm(e.node)[:70] if e.node is not None else e.kind))
  # lookups into the table happen after the ensure-block on every path
  ctx.record(R, f.where, "cache descriptor = contents", not probs, "; ".join(sorted(set(probs))) or
             "_table and _table_size written together under `requested > _table_size`, table built for exactly the stored size (%r)" % (req,))


def rule_cache(ctx):
  cache_rule(ctx, "R-C10-CACHE", "BatchDL", "table_size")
  cache_rule(ctx, "R-C10-CACHE", "BatchDLOfDifferences", "max_diff")


def rule_forms(ctx):
  """Multiplier families of ExtendedBatchDL, read from what is appended (value) and over which range (loop iterable) - independent of names."""
  R = "R-C10-FORMS"
  repo = ctx.repo
  f, w = walk(repo, "ExtendedBatchDL")
  BITS = sym.mk("bitlen", sym.mk("attr", SELF, "n"))
  fam1 = fam2 = False
  d1 = d2 = ""
  seen = set()
  for e in w.events:
    if not (e.kind == "mutate" and e.data["method"] == "append" and e.data["args"]) or id(e.node) in seen:
      continue
    seen.add(id(e.node))
    v = e.data["args"][0]
    if isinstance(v, (Seq, Const, tuple)):
      continue
    v = sym.resolve_sums(w, as_poly(v))          # a multiplier accumulated by an inner loop reads as the sum it computes
    loops_of = [i_ for i_ in w.loop_info.values() if any(x is e.node for x in ast.walk(i_["node"])) and i_["visits"]]
    if len(loops_of) != 1 or isinstance(loops_of[0]["visits"][0]["iter"], Seq):
      continue
    vis = loops_of[0]["visits"][0]
    ra = as_poly(vis["iter"]).as_atom()
    if ra is None or ra.kind != "range":
      continue
    a_ = list(ra.args)
    start = Poly.const(0) if len(a_) == 1 else as_poly(a_[0])
    stop = as_poly(a_[0]) if len(a_) == 1 else as_poly(a_[1])
    step = as_poly(a_[2]) if len(a_) == 3 else Poly.const(1)
    k = as_poly(vis["k"])
    var = start + k * step
    va = v.as_atom()
    if va is not None and va.kind == "pow" and as_poly(va.args[0]).as_int() == 2 and as_poly(va.args[1]) == var:
      # shifts j = start, start + step, ... < stop: need 0, 8, 16, ..., bits - 32 among them
      st_i, sp_i = start.as_int(), step.as_int()
      slack = (stop - BITS).as_int()
      if st_i == 0 and sp_i is not None and sp_i > 0 and 8 % sp_i == 0 and slack is not None and slack >= -31:
        fam1 = True
      else:
        d1 = "shift family range(%r, %r, %r) does not cover j = 0, 8, ..., bits - 32" % (start, stop, step)
    elif va is not None and va.kind == "sum":
      m_ = as_poly(va.args[0]).as_atom()
      good = False
      if m_ is not None and m_.kind == "map":
        elt, bv, src = m_.args
        bvp = Poly.atom(bv) if not isinstance(bv, Poly) else bv
        sa = as_poly(src).as_atom()
        if as_poly(elt) == sym.mk("pow", Poly.const(2), bvp * 32) and sa is not None and sa.kind == "range" and len(sa.args) == 1 and as_poly(sa.args[0]) == var:
          good = True
      if good:
        Q = sym.mk("fdiv", BITS, Poly.const(32))
        if start.as_int() == 2 and step.as_int() == 1 and (stop - Q).as_int() is not None and (stop - Q).as_int() >= 1:
          fam2 = True
        else:
          d2 = "repetition family range(%r, %r) does not cover 2 .. bits // 32 words" % (start, stop)
  # the same family written as a comprehension: [2 ** j for j in range(0, bits - 31, 8)] = map(2^(start + step * b), b, range(start, stop, step))
  if not fam1:
    for e in w.events:
      if e.kind != "assign" or not isinstance(e.data["value"], Poly):
        continue
      ma = e.data["value"].as_atom()
      if ma is None or ma.kind != "map" or len(ma.args) != 3 or not isinstance(ma.args[0], Poly):
        continue
      elt, bv, src = ma.args
      ea, sa = elt.as_atom(), as_poly(src).as_atom()
      if ea is None or ea.kind != "pow" or as_poly(ea.args[0]).as_int() != 2 or sa is None or sa.kind != "range":
        continue
      a_ = list(sa.args)
      start = Poly.const(0) if len(a_) == 1 else as_poly(a_[0])
      stop = as_poly(a_[0]) if len(a_) == 1 else as_poly(a_[1])
      step = as_poly(a_[2]) if len(a_) == 3 else Poly.const(1)
      bvp = Poly.atom(bv) if not isinstance(bv, Poly) else bv
      if as_poly(ea.args[1]) != start + bvp * step:
        continue
      st_i, sp_i, slack = start.as_int(), step.as_int(), (stop - BITS).as_int()
      if st_i == 0 and sp_i is not None and sp_i > 0 and 8 % sp_i == 0 and slack is not None and slack >= -31:
        fam1 = True
      else:
        d1 = "shift family range(%r, %r, %r) does not cover j = 0, 8, ..., bits - 32" % (start, stop, step)
  ctx.record(R, f.where, "multipliers 2^j, j = 0, 8, ..., bits - 32", fam1, "32-bit values shifted by whole bytes" if fam1 else (d1 or "shift family not found"))
  ctx.record(R, f.where, "multipliers sum_{i<w} 2^(32 i), 2 <= w <= bits // 32", fam2, "32-bit word repeated w times" if fam2 else (d2 or "repetition family not found"))
  calls = [e for e in w.events if e.kind == "call" and e.data["name"] == "meth:BatchDL"]
  okb = bool(calls) and all(len(e.data["args"]) > 1 and (as_poly(e.data["args"][1]).as_int() or 0) >= 2 ** 32 for e in calls)
  ctx.record(R, f.where, "search bound >= 2^32", okb, "BatchDL(all_points, 2**32)" if okb else "search bound below 2^32")
  exits = any(kind in ("break", "return") for info in w.loop_info.values() for kind, _, _, _, _ in info["body_paths"])
  # the list searched has one slot per (multiplier, point): its allocation is [None] * (len(multipliers) * len(points)) in either order
  points = P("param", [q for q in f.params() if q != "self"][0])
  oka = False
  for info in w.loop_info.values():
    for vis in info["visits"]:
      for nm, pv in vis["pre_env"].items():
        if pv is None or isinstance(pv, (Seq, Const, tuple)):
          continue
        pa = as_poly(pv).as_atom()
        if pa is not None and pa.kind == "listrep" and len(pa.args) == 2:
          size = as_poly(pa.args[1])
          lens = [a for a in size.atoms() if a.kind == "len"]
          if len(lens) == 2 and (size - Poly.atom(lens[0]) * Poly.atom(lens[1])).is_zero() and any(as_poly(a.args[0]) == points for a in lens):
            oka = True
  # ... or the list is filled by two nested loops appending once per (multiplier, point): slot k_outer * len(points) + k_inner
  if not oka:
    npts_ = sym.mk("len", points)
    for e in w.events:
      if e.kind == "store" and e.data.get("synthetic"):
        idx_ = as_poly(e.data["index"])
        ks_ = [a for a in idx_.atoms() if a.kind == "sym"]
        if len(ks_) == 2 and any((idx_ - (Poly.atom(x) * npts_ + Poly.atom(y))).is_zero() for x in ks_ for y in ks_ if x != y):
          oka = True
  ctx.record(R, f.where, "every (multiplier, point) pair enumerated", not exits and oka, "len(multipliers) * len(points) slots, nested loops without exits" if not exits and oka else
             "pair enumeration incomplete")


def rule_dup(ctx):
  R = "R-C10-DUP"
  repo = ctx.repo
  f, w = walk(repo, "BatchDLOfDifferences")
  probs = []
  conts = [e for e in w.events if e.kind == "continue"]
  for e in conts:
    last = e.state.pc[-1] if e.state.pc else None
    TABLE = sym.mk("attr", P("param", "self"), "_table")

    def reason(c_, pol_):
      """the condition (under its polarity) says: the candidate is None (identical points), or it is simply not in the table (no hit to follow up)"""
      if not (isinstance(c_, tuple) and c_):
        return False
      if c_[0] == "not":
        return reason(c_[1], not pol_)
      if c_[0] in ("and", "or"):
        disj = (c_[0] == "or") == pol_
        parts = [reason(x_, pol_) for x_ in c_[1]]
        return all(parts) if disj else any(parts)
      if c_[0] == "cmp" and len(c_) == 4:
        op = c_[1] if pol_ else {"Is": "IsNot", "IsNot": "Is", "Eq": "NotEq", "NotEq": "Eq", "In": "NotIn", "NotIn": "In"}.get(c_[1])
        if op in ("Is", "Eq") and isinstance(c_[3], Const) and c_[3].v is None and isinstance(c_[2], (Poly, Seq)) and "BatchAddX" in repr(as_poly(c_[2])):
          return True
        if op == "NotIn" and isinstance(c_[3], Poly) and c_[3] == TABLE and isinstance(c_[2], Poly) and "BatchAddX" in repr(c_[2]):
          return True
      return False
    ok = last is not None and reason(last[0], last[1])
    if not ok:
      probs.append("a pair is skipped for a reason other than `x is None` (identical points): %s" % (norm(e.node) if e.node else ""))
  for info in w.loop_info.values():
    for kind, val, s, since, vis in info["body_paths"]:
      if kind in ("break", "return"):
        probs.append("pair loop left by `%s`" % kind)
  ctx.record(R, f.where, "only identical points are skipped", not probs, "; ".join(sorted(set(probs))) or "single skip `x is None`, no exits")
  inner = [i for i in w.loop_info.values() if isinstance(i["node"], ast.For) and not isinstance(i["iter"], Seq) and "BatchAddX" in repr(as_poly(i["iter"]))]
  ok = bool(inner)
  for info in inner:
    a = as_poly(info["iter"]).as_atom()
    if not (a is not None and a.kind == "enumerate" and a.args[0].as_atom() is not None and a.args[0].as_atom().kind == "mcall" and a.args[0].as_atom().args[1] == lit("BatchAddX")):
      ok = False
      continue
    ba = a.args[0].as_atom()
    if "points" not in repr(ba.args[2]) or "negated" not in repr(ba.args[3]):
      ok = False
      ctx.note("pair loop iterates %r" % (ba,))
  # table lookups are on the ensured table of size max_diff
  ctx.record(R, f.where, "every (points[i], earlier/other point) pair examined once", ok, "x(p - q) for all q in other_points + points[:i] via one batched addition" if ok else
             "pair enumeration changed")
  # early return guard: only when there is nothing to compare
  first_loop = min([i["node"].lineno for i in w.loop_info.values()] or [10 ** 9])
  early = [e for e in w.events if e.kind == "return" and e.node is not None and e.node.lineno < first_loop]
  oke = True
  points = P("param", "points")
  for e in early:
    # the guard taken: every disjunct must be `not points` or `len(points) + len(other_points) < 2`
    last = None
    for c, pol, node in e.state.pc:
      if pol and node is not None and hasattr(node, "test") and "points" in norm(node.test) and "is None" not in norm(node.test):
        last = c
    if last is None:
      oke = False
      continue
    other = e.state.env.get("other_points")
    lo = Poly.const(len(other.items)) if isinstance(other, Seq) else sym.mk("len", as_poly(other))
    total = sym.mk("len", points) + lo
    disj = last[1] if last[0] == "or" else [last]
    for d in disj:
      if d[0] == "not" and d[1][0] == "truthy" and as_poly(d[1][1]) == points:
        continue
      if d[0] == "cmp" and ((d[1] == "Lt" and as_poly(d[2]) == total and as_poly(d[3]).as_int() == 2) or
                            (d[1] == "LtE" and as_poly(d[2]) == total and as_poly(d[3]).as_int() == 1)):
        continue
      if d[0] == "cmp" and d[1] in ("Lt", "LtE") and as_poly(d[2]) == sym.mk("len", points) and (as_poly(d[3]).as_int() or 0) <= 1:
        continue   # len(points) < 1 is `not points`
      oke = False
  ctx.record(R, f.where, "early return only without pairs", oke, "returns early only when points is empty or fewer than two points overall" if oke else
             "early return under another condition: pairs would be skipped")


def rule_lookup(ctx, R="R-C10-LOOKUP"):
  """Both searches look a candidate x up in the baby-step table: the entry `self._table[x]` may only be read for candidates that are in the table
  (KeyError otherwise), and every candidate that is in the table must reach the verification Multiply(base, dl) - a hit that is not followed up is a
  missed key."""
  repo = ctx.repo
  from .c11 import curve_cls
  cls = curve_cls(repo)
  TAB = sym.mk("attr", P("param", "self"), "_table")
  for name in ("BatchDL", "BatchDLOfDifferences"):
    f = repo.find_method(cls, name)
    w = sym.Walker(repo, f)
    w.run()
    probs = []
    n_look = 0
    hits = set()
    for e in w.events:
      vals = []
      if e.kind == "call":
        vals = [x for x in e.data["args"] if isinstance(x, Poly)]
      elif e.kind in ("assign", "store", "return") and isinstance(e.data.get("value"), Poly):
        vals = [e.data["value"]]
      for v in vals:
        for a in v.all_atoms():
          if a.kind == "idx" and as_poly(a.args[0]) == TAB:
            n_look += 1
            key = as_poly(a.args[1])
            ok_in = any(fc[0] == "cmp" and fc[1] == "In" and isinstance(fc[2], Poly) and fc[2] == key and isinstance(fc[3], Poly) and fc[3] == TAB for fc in e.state.facts)
            if not ok_in:
              probs.append("line %s reads self._table[%r] without having tested that the candidate is in the table" % (getattr(e.node, "lineno", "?"), key))
            elif e.kind == "call" and e.data["name"] == "meth:Multiply":
              hits.add(repr(key))
    if n_look == 0:
      probs.append("the table is never consulted")
    elif not hits:
      probs.append("a candidate found in the table is never verified with Multiply(base, dl)")
    ctx.record(R, f.where, "table entries read only for candidates in the table; hits verified", not probs, "; ".join(sorted(set(probs))[:3]) or
               "%d reads of self._table[x], all under `x in self._table`, feeding Multiply(base, dl)" % n_look)
