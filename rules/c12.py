"""C12 - NIST SP 800-22 statistics: embedded tables, table/consumer consistency, minimum sizes, cusum sign invariant."""
from __future__ import annotations
import ast, math, re
from fractions import Fraction
from pcstatic import sym, fold, regions, refmath
from pcstatic.core import Incomplete
from pcstatic.loader import norm
from pcstatic.poly import Poly, Atom, P
from pcstatic.sym import Const, Seq, as_poly

META = {
    "level": "other",
    "trusted_base": ["Python ast parser", "reference derivations in pcstatic/refmath.py (exact longest-run recurrence, finite rank distribution at n = 128 as the asymptotic limit, "
                     "Maurer series in double precision with fsum, Rueppel's linear-complexity distribution)", "NIST SP 800-22 rev 1a minimum sizes as transcribed in the rule"],
    "assumptions": ["tables are compared with tolerance one unit in the last printed digit (NIST truncates in places)",
                    "p-value numerics (floats) and invariance properties are not decided"],
    "explanation": ("Literal probability tables are folded from the source and compared with independently derived exact distributions; table shapes are "
                    "matched with their consumers; every InsufficientDataError guard is compared with the documented minimum by region equivalence; a sign "
                    "analysis shows the cumulative-sum extrema range over a set containing S_0 = 0."),
}
MOD = "randomness_tests.nist_suite"
EXT = "randomness_tests.extended_nist_suite"


TABLE_SHAPES = {
    # what the embedded table looks like, for when the local that holds it has another name
    "params": lambda v: isinstance(v, ast.List) and len(v.elts) >= 2 and all(isinstance(x, ast.List) and len(x.elts) == 5 for x in v.elts),
    "precomputed": lambda v: isinstance(v, ast.List) and len(v.elts) >= 5 and all(isinstance(x, ast.Constant) and isinstance(x.value, float) for x in v.elts),
    "distribution_table": lambda v: isinstance(v, ast.Dict) and len(v.keys) >= 8 and all(isinstance(x, ast.Tuple) and len(x.elts) == 2 for x in v.values),
    "min_n": lambda v: isinstance(v, ast.Dict) and len(v.keys) >= 8 and all(isinstance(x, ast.Constant) and isinstance(x.value, int) for x in v.values),
    "pi": lambda v: isinstance(v, ast.List) and len(v.elts) == 7,
}


def local_assign(f, name):
  """Assignments of the embedded table: by the pinned name, else by the table's shape (the literal is what matters, not what it is called)."""
  al = [s for s in ast.walk(f.node) if isinstance(s, ast.Assign) and len(s.targets) == 1 and isinstance(s.targets[0], ast.Name)]
  out = [s for s in al if s.targets[0].id == name]
  if not out and name in TABLE_SHAPES:
    out = [s for s in al if TABLE_SHAPES[name](s.value)]
  return out


def decimals_of(node):
  """number of printed decimals of a float literal as written in the source."""
  return None


def literal_text(src, node):
  seg = ast.get_source_segment(src, node)
  return seg if seg is not None else ast.unparse(node)


def tol_of(text):
  """one unit in the last printed digit of a decimal literal."""
  t = text.lower().strip()
  mant, _, exp = t.partition("e")
  e = int(exp) if exp else 0
  if "." in mant:
    d = len(mant.split(".")[1])
  else:
    d = 0
  return 10.0 ** (e - d)


def unclamp(p):
  """min(1, max(0, x)) / max(0, min(1, x)) -> x: clamping to [0, 1] is the identity on the values a p-value formula denotes."""
  while True:
    a = p.as_atom()
    if a is None or a.kind not in ("min", "max") or len(a.args) != 2:
      return p
    want = 1.0 if a.kind == "min" else 0.0
    ivs = [interval(x) for x in a.args]
    hit = [i for i, iv in enumerate(ivs) if iv == (want, want)]
    if len(hit) != 1:
      return p
    p = as_poly(a.args[1 - hit[0]])


def run(ctx):
  tier = ctx.tier
  rule_tables(ctx, tier)
  rule_consist(ctx)
  rule_rank_blocks(ctx)
  rule_cycles(ctx)
  rule_rankdp(ctx)
  rule_domain(ctx)
  ctx.expect("R-C12-DOMAIN", 3, "two Igamc arguments of Serial + the divisor of Runs")
  ctx.expect("R-C12-RANKDP", 2, "recurrence + result of RankDistribution")
  ctx.expect("R-C12-CYCLES", 1, "the digit loop of RandomWalk")
  rule_minsize(ctx)
  rule_cusum(ctx)
  rule_formula(ctx)
  rule_pure(ctx)
  rule_ladder(ctx)
  rule_template(ctx)
  rule_universal(ctx)
  rule_excursion_gate(ctx, exact=True)     # C12: the p-values NIST assigns exist from exactly 500 cycles on (C13 only needs >= 500)
  rule_bits(ctx)
  rule_overlap(ctx)
  ctx.expect("R-C12-OVERLAP", 4, "transition matrix, distribution, tallies, defaults")
  # a local read on a path that has not bound it raises UnboundLocalError instead of producing the result (analysis shared with C18)
  from . import c18 as _c18
  n_def = _c18.rule_defined(ctx, "R-C12-DEFINED", "C12")
  n_att = _c18.rule_attrs(ctx, "R-C12-ATTRS", "C12")
  ctx.expect("R-C12-DEFINED", 55, "functions of the statistical test modules")
  rule_range(ctx)
  rule_block(ctx)
  rule_universal_params(ctx)
  ctx.expect("R-C12-BITS", 2, "entry count + digit mapping")
  ctx.expect("R-C12-UNIVERSAL", 2, "statistic + p-value")
  ctx.expect("R-C12-TEMPLATE", 3, "border test, default set, validation")
  ctx.expect("R-C12-LADDER", 5, "loop condition, guard agreement, matrix shape, block-frequency ladder, Universal's L by n")
  ctx.expect("R-C12-PURE", 56, "every function of the five modules behind the statistical tests")
  ctx.expect("R-C12-FORMULA", 22, "statistic formulas of ten tests, compared at their sinks")
  ctx.expect("R-C12-TABLES", 60, "17 longest-run + 6 + 33 rank + universal + 11 min_n + 14 linear complexity + 3 excursions")
  ctx.expect("R-C12-MINSIZE", 10, "nine InsufficientDataError guards + the 500-cycle gate of the excursion tests")
  ctx.expect("R-C12-CUSUM", 2, "two extrema")
  ctx.expect("R-C12-CONSIST", 9, "five shape obligations + the row groups of the rank test")


# ------------------------------------------------------------------ TABLES
def rule_tables(ctx, tier):
  R = "R-C12-TABLES"
  repo = ctx.repo
  m = repo.mod(MOD)
  src = m.src
  # ---- (a) longest runs
  f = repo.func(MOD, "LongestRuns")
  pa = local_assign(f, "params")
  if len(pa) != 1 or not isinstance(pa[0].value, ast.List):
    raise Incomplete("LongestRuns.params is not a single literal list", MOD)
  rows = pa[0].value.elts
  doc_min = {8: 128, 128: 6272, 10000: 750000}
  for row in rows:
    vals = fold.try_fold(row)
    if not (isinstance(vals, list) and len(vals) == 5 and isinstance(row, ast.List)):
      ctx.incomplete(R, f.where, "params row", "row is not [min_n, M, v_lower, v_upper, pi]")
      continue
    min_n, M, lo, hi, pi = vals
    ctx.record(R, f.where, "params[M=%d].min_n" % M, doc_min.get(M) == min_n, "min_n = %d (SP 800-22 2.4.2: %s)" % (min_n, doc_min.get(M)))
    if len(pi) != hi - lo + 1:
      ctx.violation(R, f.where, "params[M=%d].pi length" % M, "%d probabilities for classes %d..%d" % (len(pi), lo, hi))
      continue
    exact = refmath.longest_run_classes(M, lo, hi)
    pinode = row.elts[4]
    for i, (lit_node, have, want) in enumerate(zip(pinode.elts, pi, exact)):
      text = literal_text(src, lit_node)
      tol = tol_of(text)
      ok = abs(have - float(want)) <= tol * (1 + 1e-9)
      ctx.record(R, f.where, "params[M=%d].pi[%d]=%s" % (M, i, text), ok,
                 "exact %.6f, embedded %s (tolerance %.0e)" % (float(want), text, tol))
    tot = sum(pi)
    ctx.record(R, f.where, "params[M=%d].pi sums to 1" % M, abs(tot - 1) < 5e-4, "sum = %.6f" % tot)
  # ---- (b) rank distribution (precomputed) and (c) asymptotic survival function
  probs = refmath.rank_probs_from_finite(128, 40)
  f = repo.func(MOD, "RankDistribution")
  pre = local_assign(f, "precomputed")
  if len(pre) != 1 or not isinstance(pre[0].value, ast.List):
    raise Incomplete("RankDistribution.precomputed is not a literal list", MOD)
  for i, node in enumerate(pre[0].value.elts):
    text = literal_text(src, node)
    have = fold.try_fold(node)
    want = float(probs[i])
    ok = isinstance(have, float) and abs(have - want) <= tol_of(text) * (1 + 1e-9)
    ctx.record(R, f.where, "precomputed[%d]=%s" % (i, text), ok, "P(rank = n - %d) = %.10f" % (i, want))
  em = repo.mod(EXT)
  node = em.consts.get("ASYMPTOTIC_RANK_SF")
  if not isinstance(node, ast.List):
    raise Incomplete("ASYMPTOTIC_RANK_SF is not a literal list", EXT)
  sf = [sum(probs[k:]) for k in range(len(node.elts))]
  for k, ln in enumerate(node.elts):
    text = literal_text(em.src, ln)
    have = fold.try_fold(ln)
    want = float(sf[k]) if k < len(sf) else None
    ok = False
    if isinstance(have, (int, float)) and want is not None:
      # six significant digits: one unit in the last printed digit
      ok = abs(have - want) <= tol_of(text if "." in text or "e" in text.lower() else text + ".0") * (1 + 1e-9) or ("%.6g" % want) == ("%.6g" % have)
    ctx.record(R, EXT + ":ASYMPTOTIC_RANK_SF", "[%d]=%s" % (k, text), ok, "P(rank <= n - %d) = %.6g" % (k, want if want is not None else float("nan")))
  # ---- (d) universal
  f = repo.func(MOD, "UniversalDistribution")
  dt = local_assign(f, "distribution_table")
  if len(dt) != 1 or not isinstance(dt[0].value, ast.Dict):
    raise Incomplete("UniversalDistribution.distribution_table is not a literal dict", MOD)
  maxL = 16 if tier == "thorough" else 10
  for kn, vn in zip(dt[0].value.keys, dt[0].value.values):
    L = fold.try_fold(kn)
    if not isinstance(L, int) or not isinstance(vn, ast.Tuple) or len(vn.elts) != 2:
      ctx.incomplete(R, f.where, "distribution_table entry", "unexpected shape")
      continue
    if L > maxL:
      continue
    mean, var = refmath.universal_mean_var(L)
    for nm, node, want in (("mean", vn.elts[0], mean), ("variance", vn.elts[1], var)):
      text = literal_text(src, node)
      have = fold.try_fold(node)
      ok = isinstance(have, float) and abs(have - want) <= tol_of(text) * (1 + 1e-6)
      ctx.record(R, f.where, "distribution_table[%d].%s=%s" % (L, nm, text), ok, "series gives %.8f" % want)
  keys = [fold.try_fold(k) for k in dt[0].value.keys]
  ctx.record(R, f.where, "distribution_table keys", keys == list(range(1, 17)), "block sizes 1..16" if keys == list(range(1, 17)) else "keys %s" % keys)
  f = repo.func(MOD, "Universal")
  mn = local_assign(f, "min_n")
  if len(mn) != 1 or not isinstance(mn[0].value, ast.Dict):
    raise Incomplete("Universal.min_n is not a literal dict", MOD)
  tab = fold.try_fold(mn[0].value)
  for L, v in sorted(tab.items()):
    ctx.record(R, f.where, "min_n[%d]=%d" % (L, v), v == 1010 * 2 ** L * L, "1010 * 2^L * L = %d" % (1010 * 2 ** L * L))
  ctx.record(R, f.where, "min_n keys", sorted(tab) == list(range(6, 17)), "L = 6..16")
  # ---- (e) linear complexity
  f = repo.func(MOD, "LinearComplexityImpl")
  # the table handed to ChiSquare, and the parity of m on the path that binds it (read from the path facts: any spelling of the test, either branch order)
  wl_ = sym.Walker(repo, f)
  wl_.run()
  m_par = sym.mk("mod", P("param", f.params()[1]), Poly.const(2))
  chis = [e for e in wl_.events if e.kind == "call" and str(e.data["name"]).endswith(":ChiSquare") and len(e.data["args"]) >= 2]
  used = set()
  for e in chis:
    used.add(repr(e.data["args"][1]))
  parity_of = {}
  for e in wl_.events:
    if e.kind != "assign" or not isinstance(e.node, ast.Assign) or repr(e.data["value"]) not in used:
      continue
    pr = set()
    for fc in e.facts:
      if fc[0] == "cmp" and fc[1] in ("Eq", "NotEq") and isinstance(fc[2], Poly) and fc[2] == m_par and isinstance(fc[3], Poly) and fc[3].as_int() in (0, 1):
        pr.add((fc[1] == "Eq") == (fc[3].as_int() == 0))
    parity_of.setdefault(id(e.node), set()).update(pr if pr else {None})
  pis = [a for a in ast.walk(f.node) if isinstance(a, ast.Assign) and id(a) in parity_of]
  if len(pis) < 2:
    ctx.incomplete(R, f.where, "pi", "pi is not selected by the parity of m")
  for a in pis:
    if parity_of[id(a)] not in ({True}, {False}):
      ctx.incomplete(R, f.where, "pi", "pi is not selected by the parity of m")
      continue
    even = parity_of[id(a)] == {True}
    have = fold.try_fold(a.value)
    want = refmath.linear_complexity_classes(500 if even else 501)
    if not isinstance(have, list) or len(have) != 7:
      ctx.violation(R, f.where, "pi (%s m)" % ("even" if even else "odd"), "expected 7 classes")
      continue
    for i, (h, w_) in enumerate(zip(have, want)):
      ok = abs(h - float(w_)) < 1e-12
      ctx.record(R, f.where, "pi[%s][%d]" % ("even" if even else "odd", i), ok, "Rueppel distribution gives %s" % (w_.limit_denominator(1000),))
  # ---- (f) random excursions distribution (symbolic)
  f = repo.func(MOD, "RandomExcursionsDistribution")
  w = sym.Walker(repo, f)
  w.run()
  x = P("param", "x")
  mc = P("param", "max_cnt")
  t = sym.mk("tdiv", Poly.const(1), sym.mk("abs", x) * 2)
  stores = [e for e in w.events if e.kind == "store"]
  got = {}
  for e in stores:
    got[repr(as_poly(e.data["index"]))] = (as_poly(e.data["value"]), e)
  def kterm(e):
    return as_poly(e.data["index"])
  ok0 = any(as_poly(e.data["index"]).as_int() == 0 and (as_poly(e.data["value"]) - (1 - t)).is_zero() for e in stores)
  ctx.record(R, f.where, "pi[0] = 1 - 1/(2|x|)", ok0, "NIST 3.14")
  okk = False
  for e in stores:
    if e.state.tags:
      k = as_poly(e.data["index"])
      want = t * t * sym.mk("pow", 1 - t, k - 1)
      if (as_poly(e.data["value"]) - want).is_zero():
        # loop range(1, max_cnt)
        for info in w.loop_info.values():
          for v in info.get("visits", []):
            if as_poly(v["iter"]) == sym.mk("range", Poly.const(1), mc) and k == v["k"] + 1:
              okk = True
  ctx.record(R, f.where, "pi[k] = 1/(4x^2) (1 - 1/(2|x|))^(k-1), 1 <= k < max_cnt", okk, "NIST 3.14")
  okl = any(as_poly(e.data["index"]) == mc and (as_poly(e.data["value"]) - t * sym.mk("pow", 1 - t, mc - 1)).is_zero() for e in stores)
  ctx.record(R, f.where, "pi[max] = 1/(2|x|) (1 - 1/(2|x|))^(max-1)", okl, "NIST 3.14")


# ------------------------------------------------------------------ CONSIST
def rule_consist(ctx):
  """Histogram tests: statistic -> class index -> chi-square against a table with the same number of classes.  Everything is read from the
  symbolic values of the walker (names, temporaries and statement order are irrelevant); class functions are compared with
  clamp(T, 0, K) on a grid straddling both breakpoints (pcstatic/gridval.py)."""
  R = "R-C12-CONSIST"
  repo = ctx.repo
  from pcstatic import gridval
  # ---- LongestRuns ladder
  f = repo.func(MOD, "LongestRuns")
  w = sym.Walker(repo, f)
  w.run()
  n = P("param", "n")
  ladder = None
  for info in w.loop_info.values():
    it = None if isinstance(info["iter"], Seq) else as_poly(info["iter"]).as_atom()
    rows, order = None, None
    if isinstance(info["iter"], Seq):
      rows, order = [as_poly(x).as_atom() for x in info["iter"].items], "forward"
    elif it is not None and it.kind == "slice" and it.args[0].as_atom() is not None and it.args[0].as_atom().kind == "seq" \
        and repr(it.args[1]) == repr(P("lit", "None")) and repr(it.args[2]) == repr(P("lit", "None")) and as_poly(it.args[3]).as_int() == -1:
      rows, order = [as_poly(x).as_atom() for x in it.args[0].as_atom().args][::-1], "reversed"
    elif it is not None and it.kind == "reversed" and it.args[0].as_atom() is not None and it.args[0].as_atom().kind == "seq":
      rows, order = [as_poly(x).as_atom() for x in it.args[0].as_atom().args][::-1], "reversed"
    elif it is not None and it.kind == "seq":
      rows, order = [as_poly(x).as_atom() for x in it.args], "forward"
    if rows and all(r is not None and r.kind == "seq" and len(r.args) == 5 for r in rows):
      ladder = (info, rows, order)
  if ladder is None:
    ctx.incomplete(R, f.where, "parameter ladder scanned from the largest min_n down", "no loop over the literal parameter rows found")
  else:
    info, rows, order = ladder
    mins = [as_poly(r.args[0]).as_int() for r in rows]
    desc = all(a is not None for a in mins) and all(a > b for a, b in zip(mins, mins[1:]))
    vis = info["visits"][0]
    row = sym.mk("idx", as_poly(info["iter"]), as_poly(vis["k"])) if not isinstance(info["iter"], Seq) else None
    sel = True
    why = []
    for kind, val, s_, since, v2 in info["body_paths"]:
      newf = s_.facts[len(v2["head"].facts):]
      cs = [canon_le(fc) for fc in newf]
      cs = [c for c in cs if c is not None]
      m0 = sym.mk("idx", row, Poly.const(0)) if row is not None else None
      if kind == "break":
        # n >= row[0]  <=>  row[0] - n <= 0
        if not (m0 is not None and len(cs) == 1 and (cs[0][0] - (m0 - n)).is_zero() and cs[0][1] == 0):
          sel = False
          why.append("a row is selected under a condition other than n >= min_n")
      elif kind == "fall":
        if not (m0 is not None and len(cs) == 1 and (cs[0][0] - (n - m0)).is_zero() and cs[0][1] == -1):
          sel = False
          why.append("a row is passed over under a condition other than n < min_n")
      else:
        sel = False
        why.append("ladder loop left by %s" % kind)
    if not desc:
      why.append("rows are not visited in strictly descending order of min_n (%s): the first hit is not the largest admissible parameter set" % mins)
    ctx.record(R, f.where, "parameter ladder scanned from the largest min_n down", desc and sel,
               "; ".join(sorted(set(why))) or "rows visited with min_n = %s (%s), the first with n >= min_n is taken" % (mins, order))
    # every row: len(pi) == v_upper - v_lower + 1
    bad = [mins[i] for i, r in enumerate(rows) if not (as_poly(r.args[4]).as_atom() is not None and as_poly(r.args[4]).as_atom().kind == "seq" and
           as_poly(r.args[2]).as_int() is not None and as_poly(r.args[3]).as_int() is not None and
           len(as_poly(r.args[4]).as_atom().args) == as_poly(r.args[3]).as_int() - as_poly(r.args[2]).as_int() + 1)]
    ctx.record(R, f.where, "each row has v_upper - v_lower + 1 probabilities", not bad, "all %d rows" % len(rows) if not bad else "row(s) with min_n %s have a class count different from their table" % bad)
  # ---- histogram shape of the four chi-square tests
  def lr_spec(hi):
    row = hi["pi"].as_atom().args[0] if hi["pi"].as_atom() is not None and hi["pi"].as_atom().kind == "idx" else None
    if row is None or as_poly(hi["pi"].as_atom().args[1]).as_int() != 4:
      return None
    lo, up = sym.mk("idx", row, Poly.const(2)), sym.mk("idx", row, Poly.const(3))
    st = hi["stat"]
    grid = [{lo.as_atom(): a, up.as_atom(): a + d, st.as_atom(): x} for a in (0, 1, 4) for d in (1, 3, 6) for x in range(0, a + d + 4)]
    return st - lo, up - lo, grid, "clamp(x - v_lower, 0, v_upper - v_lower), table of the same row"
  def rank_spec(hi):
    r, k = P("param", "r"), P("param", "k")
    st = hi["stat"]
    grid = [{r.as_atom(): rv, k.as_atom(): kv, st.as_atom(): x} for rv in (3, 6) for kv in (1, 2, 4) for x in range(0, rv + 1)]
    want_pi = sym.mk("call", P("lit", MOD + ":RankDistribution"), r, P("param", "c"), k)
    return (r - st, k, grid, "min(k, r - rank), table RankDistribution(r, c, k)") if hi["pi"] == want_pi else None
  def ov_spec(hi):
    st = hi["stat"]
    grid = [{st.as_atom(): x} for x in range(0, 10)]
    want_pi = sym.mk("call", P("lit", MOD + ":OverlappingTemplateMatchingDistribution"), P("param", "n"), P("param", "m"), Poly.const(5))
    return (st, Poly.const(5), grid, "min(5, count), table OverlappingTemplateMatchingDistribution(n, m, 5)") if hi["pi"] == want_pi else None
  def lc_spec(hi):
    m = P("param", "m")
    st = hi["stat"]
    grid = [{m.as_atom(): mv, st.as_atom(): x} for mv in (10, 11, 24) for x in range(0, mv + 1)]
    pa = hi["pi"].as_atom()
    if pa is None or pa.kind != "seq" or len(pa.args) != 7:
      return None
    return st - sym.mk("fdiv", m + 1, Poly.const(2)) + 3, Poly.const(6), grid, "clamp(L - (m+1)//2 + 3, 0, 6), seven probabilities"
  for fname, stat_name, spec in (("LongestRuns", "util:LongestRunOfOnes", lr_spec), ("BinaryMatrixRankImpl", "util:BinaryMatrixRank", rank_spec),
                                 ("OverlappingTemplateMatchingImpl", "util:OverlappingRunsOfOnes", ov_spec),
                                 ("LinearComplexityImpl", "berlekamp_massey:LinearComplexity", lc_spec)):
    f = repo.func(MOD, fname)
    w = sym.Walker(repo, f)
    w.run()
    his = histograms(w, stat_name)
    if not his:
      ctx.incomplete(R, f.where, "histogram", "no ChiSquare(v, pi, k) over a class-count list found")
      continue
    probs = []
    text = ""
    for hi in his:
      if hi.get("error"):
        probs.append(hi["error"])
        continue
      sp = spec(hi)
      if sp is None:
        probs.append("the probability table handed to ChiSquare is not the one that belongs to the class function")
        continue
      T, K, grid, text = sp
      if not (hi["N"] - (hi["K"] + 1)).is_zero():
        probs.append("the class-count list has %r entries but ChiSquare is told %r degrees (needs k + 1)" % (hi["N"], hi["K"]))
      if not (hi["K"] - K).is_zero():
        probs.append("ChiSquare degrees %r instead of %r" % (hi["K"], K))
      for env in grid:
        try:
          t, k = gridval.ev(T, env), gridval.ev(K, env)
          want = max(0, min(k, t))
          app = []
          for idx, facts in hi["pieces"]:
            hs = [gridval.holds(fc, env) for fc in facts]
            if any(h is None for h in hs):
              raise gridval.Unknown("path condition outside the class function's variables: %r" % (facts,))
            if all(hs):
              app.append(gridval.ev(idx, env))
          if len(app) != 1:
            probs.append("%d classes are incremented for one block (statistic class %d)" % (len(app), t))
            break
          if app[0] != want:
            probs.append("class index %d where %d is specified (unclamped class %d of 0..%d)" % (app[0], want, t, k))
            break
        except gridval.Unknown as ex:
          probs.append("class function not evaluable: %s" % ex)
          break
    ctx.record(R, f.where, "classes, counts and table agree", not probs, "; ".join(sorted(set(probs))) or "%d ChiSquare site(s): index = %s; len(v) = k + 1; +1 per block" % (len(his), text))
  # ---- RankDistribution: k leading classes and the lumped tail, k + 1 entries
  f = repo.func(MOD, "RankDistribution")
  w = sym.Walker(repo, f)
  w.run()
  k = P("param", "k")
  NONE = P("lit", "None")
  okr, why = True, []
  n_pre = n_gen = 0
  for kind, val, s_ in w.terminals:
    if kind != "return" or isinstance(val, Seq):
      continue
    v = as_poly(val)
    src = None
    for a in v.all_atoms():
      if a.kind == "sum":
        sl = a.args[0].as_atom()
        if sl is not None and sl.kind == "slice":
          src = sl.args[0]
    if src is None:
      okr = False
      why.append("a return is not `classes + [lumped tail]`")
      continue
    sa = src.as_atom()
    if sa is not None and sa.kind == "seq":
      n_pre += 1
      want = sym.mk("seq", sym.mk("sum", sym.mk("slice", src, k, NONE, NONE))) + sym.mk("slice", src, NONE, k, NONE)
      gate = [canon_le(fc) for fc in s_.facts]
      gate = [c for c in gate if c is not None]
      r_, c_ = P("param", "r"), P("param", "c")
      sq = any(fc[0] == "cmp" and fc[1] == "Eq" and not isinstance(fc[2], Seq) and (as_poly(fc[2]) - as_poly(fc[3]) in (r_ - c_, c_ - r_)) for fc in s_.facts)
      big = any((c[0] - (-r_)).is_zero() and c[1] <= -31 for c in gate)
      small = any((c[0] - k).is_zero() and c[1] <= len(sa.args) - 1 for c in gate)
      if not (sq and big and small):
        okr = False
        why.append("asymptotic table used outside square matrices with r >= 31 and k <= %d" % (len(sa.args) - 1))
    else:
      n_gen += 1
      want = sym.mk("seq", sym.mk("sum", sym.mk("slice", src, NONE, -k, NONE))) + sym.mk("slice", sym.mk("slice", src, -k, NONE, NONE), NONE, NONE, Poly.const(-1))
    if v != want:
      okr = False
      why.append("return is not [p(rank r), ..., p(rank r-k+1), p(rank <= r-k)]: %r" % (v,))
  if n_pre < 1 or n_gen < 1:
    okr = False
    why.append("expected an asymptotic and an exact branch")
  ctx.record(R, f.where, "k + 1 probabilities: k leading classes and the lumped tail", okr, "; ".join(sorted(set(why))) or
             "asymptotic branch (r == c, r >= 31, k within the table) and exact branch both return the k top ranks in deficiency order plus the summed tail")
  # ---- LargeBinaryMatrixRank: p = SF[size - rank], 0 beyond the table
  f = repo.func(EXT, "LargeBinaryMatrixRank")
  w = sym.Walker(repo, f)
  w.run()
  SF = P("ref", EXT + ".ASYMPTOTIC_RANK_SF")
  apps = [e for e in w.events if e.kind == "mutate" and e.data["method"] == "append"]
  okl, why = bool(apps), []
  for e in apps:
    a = e.data["args"][0] if e.data["args"] else None
    pv = a.items[1] if isinstance(a, Seq) and len(a.items) == 2 else None
    if pv is None:
      okl = False
      why.append("appended value is not (name, p-value)")
      continue
    ranks = [x for x in (as_poly(pv).all_atoms() if not isinstance(pv, Const) else []) if x.kind == "call" and str(x.args[0]).find("BinaryMatrixRank") >= 0]
    facts = [canon_le(fc) for fc in e.facts]
    facts = [c for c in facts if c is not None]
    L = sym.mk("len", SF)
    if isinstance(pv, Const) or as_poly(pv).is_zero():
      # needs deficiency >= len(SF)
      if not any(c[1] == 0 and (c[0].atoms() and any(x.kind == "len" for x in c[0].all_atoms())) for c in facts):
        okl = False
        why.append("p-value 0 is not conditioned on the deficiency exceeding the table")
      continue
    pa = as_poly(pv).as_atom()
    if pa is None or pa.kind != "idx" or pa.args[0] != SF:
      okl = False
      why.append("p-value is not read from ASYMPTOTIC_RANK_SF")
      continue
    d = as_poly(pa.args[1])
    sizes = [x for x in d.atoms() if x.kind == "sym"]
    rk = [x for x in d.atoms() if x.kind == "call" and "BinaryMatrixRank" in repr(x.args[0])]
    if not (len(sizes) == 1 and len(rk) == 1 and (d - (Poly.atom(sizes[0]) - Poly.atom(rk[0]))).is_zero()):
      okl = False
      why.append("table index is not size - rank")
    if not any((c[0] - (d - L)).is_zero() and c[1] == -1 for c in facts):
      okl = False
      why.append("table lookup is not guarded by deficiency < len(table)")
  ctx.record(R, f.where, "survival function indexed by the rank deficiency", okl, "; ".join(sorted(set(why))) or "p = SF[size - rank] under size - rank < len(SF), else 0")


def histograms(w, stat_name):
  """ChiSquare(v, pi, k) sites with v a class-count list: [{N, K, pi, stat, pieces[(index, facts)]}]."""
  out = []
  seen = set()
  for e in w.events:
    if e.kind != "call" or not e.data["name"].endswith(":ChiSquare") or len(e.data["args"]) < 3:
      continue
    V, PI, K = e.data["args"][:3]
    if isinstance(V, Seq):
      continue
    V = as_poly(V)
    key = repr(V)
    if key in seen:
      continue
    seen.add(key)
    hi = {"K": as_poly(K), "pi": as_poly(PI) if not isinstance(PI, Seq) else sym.mk("seq", *[as_poly(x) for x in PI.items])}
    pa = hi["pi"].as_atom()
    if pa is not None and pa.kind == "idx" and pa.args[0].as_atom() is not None and pa.args[0].as_atom().kind == "ref":
      # table read back from a module-level memo: take the value stored under the same key (soundness of the memo: R-C12-PURE)
      for x in w.events:
        if x.kind == "store" and as_poly(x.data["base"]) == pa.args[0] and repr(as_poly(x.data["index"]) if not isinstance(x.data["index"], Seq) else
                                                                                 sym.mk("seq", *[as_poly(y) for y in x.data["index"].items])) == repr(pa.args[1]):
          hi["pi"] = as_poly(x.data["value"])
    loop = None
    for info in w.loop_info.values():
      for vis in info["visits"]:
        for nm, sv in vis["after_env"].items():
          if not isinstance(sv, Seq) and as_poly(sv) == V:
            loop = (info, vis, nm)
    if loop is None:
      hi["error"] = "the counts handed to ChiSquare are not filled by a loop"
      out.append(hi)
      continue
    info, vis, nm = loop
    init = vis["pre_env"].get(nm)
    ia = as_poly(init).as_atom() if init is not None and not isinstance(init, Seq) else None
    if isinstance(init, Seq) and all(as_poly(x).is_zero() for x in init.items):
      hi["N"] = Poly.const(len(init.items))
    elif ia is not None and ia.kind == "listrep" and ia.args[0].as_atom() is not None and ia.args[0].as_atom().kind == "seq" \
        and len(ia.args[0].as_atom().args) == 1 and as_poly(ia.args[0].as_atom().args[0]).is_zero():
      hi["N"] = as_poly(ia.args[1])
    else:
      hi["error"] = "the class-count list does not start as zeros"
      out.append(hi)
      continue
    head = as_poly(vis["head"].env[nm])
    pieces = []
    stat = None
    for kind, val, s_, since, v2 in info["body_paths"]:
      if v2 is not vis:
        continue
      if kind != "fall":
        hi["error"] = "counting loop left by %s" % kind
        break
      evs = [w.events[i] for i in s_.trace if i >= since] if hasattr(s_, "trace") else []
      stores = [x for x in evs if x.kind == "store" and as_poly(x.data["base"]) == head]
      if len(stores) != 1:
        hi["error"] = "%d class counts are written for one block" % len(stores)
        break
      st = stores[0]
      idx = as_poly(st.data["index"])
      if not (as_poly(st.data["value"]) - sym.mk("idx", head, idx) - 1).is_zero():
        hi["error"] = "a class count is not incremented by exactly one"
        break
      facts = list(s_.facts[len(vis["head"].facts):])
      pieces.append((idx, facts))
      for src in [idx] + [as_poly(x) for fc in facts if fc[0] == "cmp" for x in fc[2:4] if not isinstance(x, Seq)]:
        for a in src.all_atoms():
          if a.kind == "call" and str(a.args[0].as_atom().args[0] if isinstance(a.args[0], Poly) and a.args[0].as_atom() is not None else "").endswith(stat_name):
            stat = Poly.atom(a)
    if "error" not in hi:
      if stat is None:
        hi["error"] = "the class index does not depend on %s" % stat_name
      hi["pieces"], hi["stat"] = pieces, stat
    out.append(hi)
  return out


# ------------------------------------------------------------------ MINSIZE
def rule_minsize(ctx):
  R = "R-C12-MINSIZE"
  repo = ctx.repo
  n = P("param", "n")
  bs = P("param", "block_size")
  specs = [
      (MOD, "BlockFrequency", lambda v, t: v[n] < 100, n, "n < 100", {}),
      (MOD, "LongestRuns", lambda v, t: v[n] < 128, n, "n < 128", {}),
      (MOD, "BinaryMatrixRank", None, None, "n < 38 * r * c", {}),
      (MOD, "BinaryMatrixRankImpl", None, None, "len(rows) // r < 1", {}),
      (MOD, "NonOverlappingTemplateMatching", None, None, "n // blocks < 4", {}),
      (MOD, "Universal", lambda v, t: v[n] < 387840, n, "n < 387840", {}),
      (MOD, "LinearComplexity", None, None, "block_size < 10 or block_size * 200 > n", {}),
      (EXT, "LargeBinaryMatrixRank", lambda v, t: v[n] < 4096, n, "n < 64 * 64", {}),
  ]
  for mod, fn, spec, main, text, _ in specs:
    f = repo.func(mod, fn)
    w = sym.Walker(repo, f)
    w.run()
    raises = [e for e in w.events if e.kind == "raise" and e.node is not None and e.node.exc is not None and "InsufficientDataError" in ast.unparse(e.node.exc)]
    if not raises:
      ctx.violation(R, f.where, "raise InsufficientDataError", "the insufficient-data condition is never raised (documented: %s)" % text)
      continue
    paths = [[(c, pol) for c, pol, node in e.state.pc] for e in raises]
    if fn == "LongestRuns":
      # for-else ladder: raise iff no row qualifies; rows fold to min_n values -> raise iff n < min(min_n)
      pa = local_assign(f, "params")
      rows = fold.try_fold(pa[0].value) if pa else None
      lo = min(r[0] for r in rows) if isinstance(rows, list) and rows else None
      in_else = any(isinstance(x, ast.For) and any(isinstance(y, ast.Raise) for z in x.orelse for y in ast.walk(z)) for x in ast.walk(f.node))
      # the row is taken (break) exactly under n >= row[0]: canonical comparison read from the walker (shape-independent)
      gate = False
      for info in w.loop_info.values():
        if not any(isinstance(y, ast.Raise) for z in getattr(info["node"], "orelse", []) for y in ast.walk(z)) or isinstance(info["iter"], Seq):
          continue
        brk = [bp for bp in info["body_paths"] if bp[0] == "break"]
        gate = bool(brk)
        for kind, val, s_, since, v2 in brk:
          row0 = sym.mk("idx", sym.mk("idx", as_poly(info["iter"]), as_poly(v2["k"])), Poly.const(0))
          cs = [canon_le(fc) for fc in s_.facts[len(v2["head"].facts):]]
          cs = [c for c in cs if c is not None]
          if not (len(cs) == 1 and (cs[0][0] - (row0 - n)).is_zero() and cs[0][1] == 0):
            gate = False
      ok = lo == 128 and in_else and gate
      ctx.record(R, f.where, "raise iff n < 128", ok, "for-else over the ladder: raised iff n is below every min_n; smallest min_n = %s" % lo)
      continue
    if spec is not None:
      verdict, detail = regions.equivalent_dnf(paths, lambda v, s=spec: s(v, None), main=main)
      ctx.record(R, f.where, "raise iff " + text, verdict, detail)
      continue
    # multi-variable guards: compare the guard terms symbolically
    if fn == "BinaryMatrixRank":
      r_, c_ = P("param", "r"), P("param", "c")
      cs = P("param", "check_size")
      good = False
      for e in raises:
        fs = e.facts
        has = any(f_[0] == "cmp" and f_[1] == "Lt" and as_poly(f_[2]) == n and (as_poly(f_[3]) - 38 * r_ * c_).is_zero() for f_ in fs) or \
            any(f_[0] == "cmp" and f_[1] == "Gt" and as_poly(f_[3]) == n and (as_poly(f_[2]) - 38 * r_ * c_).is_zero() for f_ in fs)
        guarded = any(f_[0] == "truthy" and as_poly(f_[1]) == cs for f_ in fs)
        good = has and guarded
      # negative path must carry the complement
      ctx.record(R, f.where, "raise iff check_size and " + text, good, "guard n < 38*r*c under check_size" if good else "guard is not n < 38 * r * c")
    elif fn == "BinaryMatrixRankImpl":
      rows_, r_ = P("param", "rows"), P("param", "r")
      nm = sym.mk("fdiv", sym.mk("len", rows_), r_)
      verdict, detail = regions.equivalent_dnf(paths, lambda v: v[nm] < 1, main=nm)
      ctx.record(R, f.where, "raise iff " + text, verdict, detail)
    elif fn == "NonOverlappingTemplateMatching":
      blocks_ = P("param", "blocks")
      bsz = sym.mk("fdiv", n, blocks_)
      # only the branch m is None raises; compare on block_size
      pths = [[(c, pol) for c, pol in p if "block" in repr(c)] for p in paths]
      verdict, detail = regions.equivalent_dnf(pths, lambda v: v[bsz] < 4, main=bsz)
      mnone = all(any(f_[0] == "cmp" and f_[1] == "Is" and as_poly(f_[2]) == P("param", "m") for f_ in e.facts) for e in raises)
      ctx.record(R, f.where, "raise iff m is None and " + text, verdict if mnone else False, detail if mnone else "raise is not restricted to automatic template length selection")
    elif fn == "LinearComplexity":
      a1 = regions.equivalent_dnf([p for p in paths if len(p) == 1], lambda v: v[bs] < 10, main=bs)
      two = [p for p in paths if len(p) == 2]
      good2 = False
      for e in raises:
        if any(f_[0] == "cmp" and ((f_[1] == "Gt" and (as_poly(f_[2]) - bs * 200).is_zero() and as_poly(f_[3]) == n) or
                                   (f_[1] == "Lt" and (as_poly(f_[3]) - bs * 200).is_zero() and as_poly(f_[2]) == n)) for f_ in e.facts):
          good2 = True
      ctx.record(R, f.where, "raise iff block_size < 10", a1[0], a1[1])
      ctx.record(R, f.where, "raise iff 200 * block_size > n", good2, "at least 200 blocks required" if good2 else "guard is not block_size * 200 > n")


# ------------------------------------------------------------------ CUSUM
def rule_cusum(ctx):
  """The two cumulative-sums distances are max(A, -B) and max(A - S, S - B) with A = max of the walk, B = its min and S its end point, all including
  S_0 = 0: so A >= 0 >= B must hold at the use.  Proved by sign analysis on the walker's values: an extremum is 0-clamped (max(0, .) / min(0, .)), or it
  is the exit value of a loop in which it starts at 0 and only ever moves away from 0 (new > old under the path's own comparison)."""
  R = "R-C12-CUSUM"
  repo = ctx.repo
  f = repo.func(MOD, "RandomWalk")
  w = sym.Walker(repo, f)
  w.run()
  calls = {}
  for e in w.events:
    if e.kind == "call" and e.data["name"].endswith(":CumulativeSumsPValue") and len(e.data["args"]) >= 2:
      calls.setdefault(id(e.node), []).append(e)
  if len(calls) != 2:
    raise Incomplete("RandomWalk: expected two CumulativeSumsPValue call sites (forward and reverse), found %d" % len(calls), f.where)

  def monotone(v, direction):
    """v is the exit value of a loop variable that starts at 0 and on every pass stays or moves in `direction` (+1 up, -1 down)."""
    for info in w.loop_info.values():
      for vis in info["visits"]:
        for nm, sv in vis["after_env"].items():
          if sv is None or isinstance(sv, (Seq, Const, tuple)) or as_poly(sv) != v:
            continue
          pre = vis["pre_env"].get(nm)
          if not (isinstance(pre, (Const, Poly)) and as_poly(pre).is_zero()):
            return False
          old = as_poly(vis["head"].env[nm])
          for kind, val, s_, since, v2 in info["body_paths"]:
            if v2 is not vis:
              continue
            if kind not in ("fall", "continue"):
              return False
            new = s_.env.get(nm)
            if new is None or isinstance(new, (Seq, Const, tuple)):
              return False
            new = as_poly(new)
            if new == old:
              continue
            # new = max(old, x) never moves down, new = min(old, x) never moves up
            na_ = new.as_atom()
            if na_ is not None and na_.kind == ("max" if direction > 0 else "min") and any(as_poly(x_) == old for x_ in na_.args):
              continue
            ok_ = False
            for fc in s_.facts[len(vis["head"].facts):]:
              cl = canon_le(fc)
              if cl is None:
                continue
              # direction +1: need old - new <= c with c <= 0 ; direction -1: new - old <= c with c <= 0
              want = (old - new) if direction > 0 else (new - old)
              if (cl[0] - (want - const_term(want))).is_zero() and cl[1] + const_term(want) <= 0:
                ok_ = True
            if not ok_:
              return False
          return True
    return False

  def signed(v, direction):
    """direction +1: v >= 0 ; -1: v <= 0."""
    if v.is_zero():
      return True
    a = v.as_atom()
    if a is not None and a.kind == ("max" if direction > 0 else "min") and any(as_poly(x).is_zero() for x in a.args):
      return True
    return monotone(v, direction)

  def exact(v, direction, facts):
    """The extremum is exact, not only on the right side of 0.  The loop tracks an extremum only outside the band of counted states, so its exit value
    is the walk's extremum only when it is known to be non-zero at the use; the 0-clamped fall-back (extremum of the counted states) is the walk's extremum
    only when the loop value of that side is known to be 0."""
    def knows(u, nonzero):
      for fc in facts:
        if fc[0] in ("truthy", "falsy") and isinstance(fc[1], Poly) and fc[1] == u and (fc[0] == "truthy") == nonzero:
          return True
        if fc[0] == "cmp" and isinstance(fc[2], Poly) and isinstance(fc[3], Poly) and fc[2] == u and fc[3].is_zero():
          ops = ("NotEq", "Gt" if direction > 0 else "Lt") if nonzero else ("Eq", "LtE" if direction > 0 else "GtE")
          if fc[1] in ops:
            return True
      return False
    if v.is_zero():
      return True
    a = v.as_atom()
    if a is not None and a.kind == ("max" if direction > 0 else "min") and any(as_poly(x).is_zero() for x in a.args):
      # the fall-back: some loop-tracked extremum of this side is known to be 0 here
      cands = {Poly.atom(t_) for fc in facts for q_ in fc[1:] if isinstance(q_, Poly) for t_ in q_.all_atoms() if t_.kind == "sym"}
      return any(monotone(u, direction) and knows(u, False) for u in cands)
    if monotone(v, direction):
      return knows(v, True)
    return True

  rows = {"forward": [], "reverse": []}
  for evs in calls.values():
    for e in evs:
      d = as_poly(e.data["args"][1]).as_atom()
      if d is None or d.kind != "max" or len(d.args) != 2:
        rows["forward"].append("a distance is not the maximum of two excursions")
        continue
      p1, p2 = as_poly(d.args[0]), as_poly(d.args[1])
      # split into (A - S, S - B): S is the walk's end point = exit value of the loop variable that is also added to / subtracted
      best = None
      inexact = None
      for x, y in ((p1, p2), (p2, p1)):
        for sA in [None] + [a_ for a_ in x.atoms() if a_.kind == "sym"]:
          S = Poly.atom(sA) if sA is not None else Poly.const(0)
          A, B = x + S, S - y
          if sA is not None and (S.as_atom() in A.atoms() or S.as_atom() in B.atoms()):
            continue
          if signed(A, +1) and signed(B, -1):
            best = (A, B, S)
            if not exact(A, +1, e.facts):
              inexact = "the maximum %r is used on a path that does not fix whether the walk ever rose above the band of counted states (loop value only when non-zero, fall-back only when it is 0)" % (A,)
            elif not exact(B, -1, e.facts):
              inexact = "the minimum %r is used on a path that does not fix whether the walk ever fell below the band of counted states (loop value only when non-zero, fall-back only when it is 0)" % (B,)
      kind = "reverse" if any(a_.kind == "sym" and a_ in p1.atoms() and a_ in p2.atoms() for a_ in p1.atoms()) else "forward"
      if best is None:
        rows[kind].append("max(%r, %r): no reading as (max - end, end - min) with max >= 0 >= min: an extremum can lie on the wrong side of S_0 = 0" % (p1, p2))
      else:
        rows[kind].append(inexact or "")
  for kind in ("forward", "reverse"):
    bad = sorted({x for x in rows[kind] if x})
    ctx.record(R, f.where, "%s distance uses extrema that include S_0 = 0" % kind, bool(rows[kind]) and not bad, "; ".join(bad)[:400] or
               "%d path(s): max >= 0 >= min at the use (0-clamped fall-back, or started at 0 and only moved away from it)" % len(rows[kind]))


# ------------------------------------------------------------------ FORMULA (term shape of the statistics, modulo field axioms)
from pcstatic import ratfun


def _lit(s):
  return P("lit", s)


def _call(name, *a):
  return sym.mk("call", _lit(name), *a)


def _td(a, b):
  return sym.mk("tdiv", as_poly(a) if not isinstance(a, Poly) else a, as_poly(b) if not isinstance(b, Poly) else b)


def _c(x):
  return Poly.const(x)


def _fl(s):
  return P("lit", s)   # decimal literal as written, e.g. '0.7'


def cmp_terms(ctx, R, where, construct, got, want, text):
  if got is None:
    ctx.record(R, where, construct, None, "value not found")
    return
  ok, d = ratfun.equal_terms(got, want)
  ctx.record(R, where, construct, ok, text if ok else "differs from the SP 800-22 formula (%s): %s" % (text, d))


def last_assign(w, name, in_loop=None):
  out = None
  for e in w.events:
    if e.kind in ("assign", "augassign") and e.data["name"] == name:
      if in_loop is None or bool(e.state.tags) == in_loop:
        out = e
  return out


def rule_formula(ctx):
  R = "R-C12-FORMULA"
  repo = ctx.repo
  U = "randomness_tests.util:"
  bits, n = P("param", "bits"), P("param", "n")
  sqrt = lambda x: sym.mk("math.sqrt", x)
  erfc = lambda x: sym.mk("math.erfc", x)
  igamc = lambda a, b: _call(U + "Igamc", a, b)
  # ---- Frequency
  f = repo.func(MOD, "Frequency")
  w = sym.Walker(repo, f)
  w.run()
  ret = [e.data["value"] for e in w.events if e.kind == "return" and e.node is not None]
  ones = _call(U + "BitCount", bits)
  want = erfc(_td(_td(sym.mk("abs", ones * 2 - n), sqrt(n)), sqrt(_c(2))))
  cmp_terms(ctx, R, f.where, "p = erfc(|2*ones - n| / sqrt(n) / sqrt(2))", as_poly(ret[0]) if ret else None, want, "2.1.4")
  # ---- Runs
  f = repo.func(MOD, "Runs")
  w = sym.Walker(repo, f)
  w.run()
  allret = [e for e in w.events if e.kind == "return" and e.node is not None]
  # the frequency prerequisite of 2.3.4 step 2 (`p = 0 when |pi - 1/2| >= 2 / sqrt(n)`) may precede the formula: a constant 0 returned under exactly that test
  pi = _td(ones, n)
  pre = [e for e in allret if (isinstance(e.data["value"], Const) and isinstance(e.data["value"].v, (int, float)) and not isinstance(e.data["value"].v, bool) and e.data["value"].v == 0) or
         (isinstance(e.data["value"], Poly) and e.data["value"].is_zero())]
  ret = [e.data["value"] for e in allret if e not in pre]
  for e in pre:
    tau_ok = any(fc[0] == "cmp" and fc[1] == "GtE" and isinstance(fc[2], Poly) and isinstance(fc[3], Poly) and
                 any(fc[2] == sym.mk("abs", pi - h_) for h_ in (_td(_c(1), _c(2)), P("lit", "0.5"), _fl("0.5"))) and ratfun.equal_terms(fc[3], _td(_c(2), sqrt(n)))[0] for fc in e.facts)
    ctx.record(R, f.where, "prerequisite: p = 0 when |pi - 1/2| >= 2 / sqrt(n)", tau_ok, "2.3.4 step 2" if tau_ok else
               "0 is returned under a test that is not |pi - 1/2| >= 2 / sqrt(n)")
  V = _call(U + "Runs", bits, n)
  want = erfc(_td(sym.mk("abs", V - n * 2 * pi * (1 - pi)), sqrt(n * 2) * 2 * pi * (1 - pi)))
  cmp_terms(ctx, R, f.where, "p = erfc(|V - 2n pi(1-pi)| / (2 sqrt(2n) pi(1-pi)))", as_poly(ret[0]) if ret else None, want, "2.3.4")
  # ---- BlockFrequencyImpl
  f = repo.func(MOD, "BlockFrequencyImpl")
  w = sym.Walker(repo, f)
  w.run()
  ret = [e.data["value"] for e in w.events if e.kind == "return" and e.node is not None]
  blocks, m = P("param", "blocks"), P("param", "m")
  bv = Atom("bv", "s0")
  pis = Poly.atom(Atom("map", _td(_call(U + "BitCount", sym.mk("idx", blocks, Poly.atom(bv))), m), bv, blocks))
  bv2 = Atom("bv", "s1")
  x = sym.mk("idx", pis, Poly.atom(bv2))
  chi = m * 4 * sym.mk("sum", Poly.atom(Atom("map", (x - _td(_c(1), _c(2))) ** 2, bv2, pis)))
  want = igamc(_td(sym.mk("len", blocks), _c(2)), _td(chi, _c(2)))
  cmp_terms(ctx, R, f.where, "p = igamc(N/2, 4M sum(pi_i - 1/2)^2 / 2)", as_poly(ret[0]) if ret else None, want, "2.2.4")
  # ---- ChiSquare
  f = repo.func(MOD, "ChiSquare")
  w = sym.Walker(repo, f)
  w.run()
  count, prob, k = P("param", "count"), P("param", "prob"), P("param", "k")
  for e in [e for e in w.events if e.kind == "return" and e.node is not None]:
    kk = e.state.env.get("k")
    kv = as_poly(kk)
    tot = sym.mk("sum", count)
    z = sym.mk("zip", count, prob)
    bv = Atom("bv", "s2")
    c_ = sym.mk("idx", count, Poly.atom(bv))
    p_ = sym.mk("idx", prob, Poly.atom(bv))
    chi = sym.mk("sum", Poly.atom(Atom("map", _td((c_ - tot * p_) ** 2, tot * p_), bv, z)))
    want = igamc(_td(kv, _c(2)), _td(chi, _c(2)))
    dflt = any(f_[0] == "cmp" and f_[1] == "Is" and as_poly(f_[2]) == k for f_ in e.facts)
    if dflt and kv != sym.mk("len", count) - 1:
      ctx.violation(R, f.where, "default degrees of freedom", "k defaults to %r, expected len(count) - 1" % (kv,))
    cmp_terms(ctx, R, f.where, "p = igamc(k/2, sum (c - n p)^2/(n p) / 2)%s" % (" [k default]" if dflt else ""), as_poly(e.data["value"]), want, "chi-square")
  # The remaining statistics are compared at their *sinks* (the p-value that is appended / returned), where the walker has inlined every
  # intermediate value: local names, temporaries and statement order do not matter.  Opaque loop-carried lists are taken from the sink itself.
  def sinks(w, label=None, all_paths=False):
    """(label parts, p-value Poly, event) for every `<list>.append((label, p))` (one per statement, or one per path through it)."""
    out = []
    seen = set()
    for e in w.events:
      if e.kind == "mutate" and e.data["method"] == "append" and e.data["args"] and isinstance(e.data["args"][0], Seq) and len(e.data["args"][0].items) == 2:
        lab, pv = e.data["args"][0].items
        if isinstance(pv, (Seq, Const, tuple)) or (id(e.node) in seen and not all_paths):
          continue
        if label is not None and label not in repr(lab):
          continue
        seen.add(id(e.node))
        out.append((lab, as_poly(pv), e))
    return out

  def indexed_syms(p):
    """Opaque symbols that are subscripted somewhere in p."""
    out = []
    for a in p.all_atoms():
      if a.kind == "idx" and as_poly(a.args[0]).as_atom() is not None and as_poly(a.args[0]).as_atom().kind == "sym":
        if as_poly(a.args[0]) not in out:
          out.append(as_poly(a.args[0]))
    return out

  def label_value(lab, skip=0):
    """The (skip+1)-th non-literal component of an f-string label."""
    a = as_poly(lab).as_atom() if not isinstance(lab, (Seq, Const, tuple)) else None
    vals = [x for x in (a.args if a is not None and a.kind == "fstr" else []) if not (as_poly(x).as_atom() is not None and as_poly(x).as_atom().kind == "lit")]
    return as_poly(vals[skip]) if len(vals) > skip else None

  # ---- NonOverlappingTemplateMatchingImpl: p = igamc(N/2, sum_blocks (W - mean)^2 / variance / 2)
  f = repo.func(MOD, "NonOverlappingTemplateMatchingImpl")
  w = sym.Walker(repo, f)
  w.run()
  m = P("param", "m")
  blocks = P("param", "blocks")
  two_m = sym.mk("pow", _c(2), m)
  mean = _td(n - m + 1, two_m)
  var = n * (_td(_c(1), two_m) - _td(m * 2 - 1, sym.mk("pow", _c(2), m * 2)))
  sk = sinks(w)
  if not sk:
    ctx.record(R, f.where, "p = igamc(N/2, chi2/2)", None, "no (label, p-value) is appended")
  for lab, pv, e in sk[:1]:
    Ws = [a for a in pv.all_atoms() if a.kind == "idx" and "FrequencyCount" in repr(a.args[0]) and any(x.kind in ("bv", "cbv") for x in Poly.atom(a).all_atoms())]
    if not Ws:
      ctx.record(R, f.where, "p = igamc(N/2, chi2/2)", False, "the statistic does not count template occurrences per block")
      continue
    Wt = Poly.atom(Ws[0])
    bvs = [x for x in Wt.all_atoms() if x.kind == "bv"]
    chi = sym.mk("sum", Poly.atom(Atom("map", _td((Wt - mean) ** 2, var), bvs[0], blocks)))
    cmp_terms(ctx, R, f.where, "p = igamc(N/2, sum (W - mean)^2 / variance / 2), mean = (n-m+1)/2^m, variance = n(1/2^m - (2m-1)/2^(2m))", pv,
              igamc(_td(sym.mk("len", blocks), _c(2)), _td(chi, _c(2))), "2.7.4")
  # ---- UniversalDistribution: (expected value, c * sqrt(variance / K)) from the same table row
  f = repo.func(MOD, "UniversalDistribution")
  w = sym.Walker(repo, f)
  w.run()
  L, K = P("param", "block_size"), P("param", "k")
  cwant = _fl("0.7") - _td(_fl("0.8"), L) + (_c(4) + _td(_c(32), L)) * _td(sym.mk("pow", K, _td(_c(-3), L)), _c(15))
  rets = [(k_, v_, s_) for k_, v_, s_ in w.terminals if k_ == "return" and isinstance(v_, Seq) and len(v_.items) == 2]
  if not rets:
    ctx.record(R, f.where, "sigma = c sqrt(variance / K)", None, "no (expected value, sigma) pair is returned")
  for k_, v_, s_ in rets[:1]:
    ev_, sd = as_poly(v_.items[0]), as_poly(v_.items[1])
    ea = ev_.as_atom()
    row = ea.args[0] if ea is not None and ea.kind == "idx" and as_poly(ea.args[1]).as_int() == 0 else None
    if row is None:
      ctx.record(R, f.where, "sigma = c sqrt(variance / K)", False, "the expected value is not the first entry of a table row")
    else:
      variance = sym.mk("idx", row, _c(1))
      cmp_terms(ctx, R, f.where, "sigma = c sqrt(variance / K), c = 0.7 - 0.8/L + (4 + 32/L) K^(-3/L) / 15", sd, cwant * sqrt(_td(variance, K)), "2.9.4")
      ra = as_poly(row).as_atom()
      ctx.record(R, f.where, "table row selected by the block size", ra is not None and ra.kind == "idx" and as_poly(ra.args[1]) == L, "expected value and variance of L = block_size")
  # ---- Serial: p1, p2 from psi^2_m, psi^2_{m-1}, psi^2_{m-2}
  f = repo.func(MOD, "Serial")
  w = sym.Walker(repo, f)
  w.run()
  for tag, want_f, txt in (("p-value1", lambda v, mm: igamc(sym.mk("pow", _c(2), mm - 2), _td(v(mm) - v(mm - 1), _c(2))), "p1 = igamc(2^(m-2), (psi_m - psi_{m-1}) / 2)"),
                           ("p-value2", lambda v, mm: igamc(sym.mk("pow", _c(2), mm - 3), _td(v(mm) - v(mm - 1) * 2 + v(mm - 2), _c(2))), "p2 = igamc(2^(m-3), (psi_m - 2 psi_{m-1} + psi_{m-2}) / 2)")):
    sk = sinks(w, tag, all_paths=True)
    if not sk:
      ctx.record(R, f.where, txt, None, "no `%s` is appended" % tag)
      continue
    # a clamp written as a branch gives a second sink whose argument is the constant 0: the formula is read off the path that keeps the difference
    sk = sorted(sk, key=lambda t_: 0 if len(indexed_syms(t_[1])) == 1 else 1)
    lab, pv, e = sk[0]
    mm = label_value(lab)
    vs = indexed_syms(pv)
    if mm is None or len(vs) != 1:
      ctx.record(R, f.where, txt, False, "p-value is not a function of one psi^2 list and the m of its label")
      continue
    # a clamp of the difference at 0 (max(0, d)) is the identity wherever the formula is defined (d >= 0 in exact arithmetic): compared without it
    pv_ = pv
    if isinstance(pv_, Poly):
      for t_ in list(pv_.all_atoms()):
        if t_.kind == "max" and len(t_.args) == 2 and any(as_poly(a_).is_zero() or repr(a_) == "lit('0.0')" for a_ in t_.args):
          other_ = [a_ for a_ in t_.args if not (as_poly(a_).is_zero() or repr(a_) == "lit('0.0')")]
          if len(other_) == 1:
            pv_ = sym.rebuild(pv_.deep_subst(t_, as_poly(other_[0])))
    cmp_terms(ctx, R, f.where, txt, pv_, want_f(lambda j: sym.mk("idx", vs[0], j), mm), "2.11.4")
  psi_ok = None
  for e in w.events:
    if e.kind == "store" and not isinstance(e.data["value"], (Seq, Const, tuple)) and "sum" in repr(sym.resolve_sums(w, as_poly(e.data["value"]))):
      val = sym.resolve_sums(w, as_poly(e.data["value"]))         # an accumulator loop reads as the sum it computes
      mm = as_poly(e.data["index"])
      srcs = [a for a in val.all_atoms() if a.kind == "sum"]
      src = as_poly(srcs[0].args[0]).as_atom() if srcs else None
      if src is None or src.kind != "map":
        continue
      cnt = as_poly(src.args[2])
      bv = Atom("bv", "s3")
      sumc = sym.mk("sum", Poly.atom(Atom("map", sym.mk("idx", cnt, Poly.atom(bv)) ** 2, bv, cnt)))
      ok_, d_ = ratfun.equal_terms(val, _td(sumc * sym.mk("pow", _c(2), mm), n) - n)
      fc_ok = "FrequencyCount" in repr(cnt) or cnt.as_atom() is not None
      psi_ok = (ok_, d_)
      break
  ctx.record(R, f.where, "psi^2_m = (2^m / n) sum c^2 - n", None if psi_ok is None else psi_ok[0], "2.11.4" if psi_ok and psi_ok[0] else
             ("no psi^2 store found" if psi_ok is None else "differs from the SP 800-22 formula (2.11.4): %s" % psi_ok[1]))
  # ---- ApproximateEntropy
  f = repo.func(MOD, "ApproximateEntropy")
  w = sym.Walker(repo, f)
  w.run()
  sk = sinks(w)
  if not sk:
    ctx.record(R, f.where, "p = igamc(2^(m-1), n (ln 2 - ApEn(m)))", None, "no (label, p-value) is appended")
  for lab, pv, e in sk[:1]:
    mm = label_value(lab)
    ph = indexed_syms(pv)
    if mm is None or len(ph) != 1:
      ctx.record(R, f.where, "p = igamc(2^(m-1), n (ln 2 - ApEn(m)))", False, "p-value is not a function of one phi list and the m of its label")
      continue
    ap = sym.mk("idx", ph[0], mm) - sym.mk("idx", ph[0], mm + 1)
    chi = n * 2 * (sym.mk("math.log", _c(2)) - ap)
    cmp_terms(ctx, R, f.where, "p = igamc(2^(m-1), n (ln 2 - ApEn(m)))", pv, igamc(sym.mk("pow", _c(2), mm - 1), _td(chi, _c(2))), "2.12.4")
  # ---- ComputeApproximateEntropy: phi = sum over the non-zero counts of (c / n) ln(c / n), n = sum of the counts
  f = repo.func(MOD, "ComputeApproximateEntropy")
  w = sym.Walker(repo, f)
  w.run()
  fr = P("param", f.params()[0])
  probs = []
  loops = [li for li in w.loop_info.values() if li["visits"] and isinstance(li["visits"][0]["iter"], Poly) and li["visits"][0]["iter"] == fr]
  rets = [t_ for t_ in w.terminals if t_[0] == "return"]
  if len(loops) != 1 or not rets:
    ctx.record(R, f.where, "phi = sum (c/n) ln(c/n) over non-zero counts", None, "expected one loop over the counts")
  else:
    li = loops[0]
    vis = li["visits"][0]
    c_ = sym.mk("idx", fr, as_poly(vis["k"]))
    tot = sym.mk("sum", fr)
    term = _td(c_, tot) * sym.mk("math.log", _td(c_, tot))
    acc = [n_ for n_, v_ in (vis.get("after_env") or {}).items() if isinstance(v_, Poly) and all(isinstance(t_[1], Poly) and t_[1] == v_ for t_ in rets)]
    if not acc:
      probs.append("the value returned is not the accumulated sum")
    else:
      a0 = vis["pre_env"].get(acc[0])
      if not (isinstance(a0, Const) and a0.v == 0 or isinstance(a0, Poly) and a0.is_zero()):
        probs.append("the sum does not start at 0")
      hv = vis["head"].env.get(acc[0])
      for kind, val, st_, since, v_ in li["body_paths"]:
        if v_ is not vis:
          continue
        if kind not in ("fall", "continue"):
          probs.append("the loop over the counts is left early")
          continue
        newf = st_.facts[len(vis["head"].facts):]
        nz = any(fc[0] == "truthy" and isinstance(fc[1], Poly) and fc[1] == c_ for fc in newf) or any(fc[0] == "cmp" and fc[1] in ("NotEq", "Gt") and isinstance(fc[2], Poly) and fc[2] == c_ and as_poly(fc[3]).is_zero() for fc in newf)
        zero = any(fc[0] == "falsy" and isinstance(fc[1], Poly) and fc[1] == c_ for fc in newf) or any(fc[0] == "cmp" and fc[1] in ("Eq", "LtE") and isinstance(fc[2], Poly) and fc[2] == c_ and as_poly(fc[3]).is_zero() for fc in newf)
        delta = as_poly(st_.env.get(acc[0])) - as_poly(hv) if isinstance(st_.env.get(acc[0]), Poly) and isinstance(hv, Poly) else None
        if delta is None:
          probs.append("accumulator not tracked")
        elif zero:
          if not delta.is_zero():
            probs.append("a zero count contributes to the sum")
        else:
          okt, d_ = ratfun.equal_terms(delta, term)
          if not okt:
            probs.append("a count contributes %r, not (c/n) ln(c/n)" % (delta,))
          if not nz:
            probs.append("ln(c/n) is taken without excluding c = 0")
    ctx.record(R, f.where, "phi = sum (c/n) ln(c/n) over non-zero counts", not probs, "; ".join(sorted(set(probs))) or "2.12.4 (3)-(4): n = sum of the counts, zero counts skipped")
  # ---- util.Runs: the number of runs is the number of positions where neighbouring bits differ, plus one when the top bit (position length-1) is 0
  f = repo.func("randomness_tests.util", "Runs")
  w = sym.Walker(repo, f)
  w.run()
  s_, ln_ = P("param", f.params()[0]), P("param", f.params()[1])
  base = _call(U + "BitCount", sym.mk("bxor", *sorted([s_, sym.mk("shr", s_, _c(1))], key=repr)))
  top0 = ("cmp", "Eq", sym.mk("shr", s_, ln_ - 1), 0)
  probs = []
  rets = [t_ for t_ in w.terminals if t_[0] == "return"]
  seen = set()
  for kind, val, st_ in rets:
    extra = as_poly(val) - base if isinstance(val, Poly) else None
    plus = extra is not None and extra.as_int() == 1
    same = extra is not None and extra.is_zero()
    has_top0 = any(fc[0] == "cmp" and fc[1] == "Eq" and isinstance(fc[2], Poly) and fc[2] == top0[2] and as_poly(fc[3]).is_zero() for fc in st_.facts)
    nonempty = any((fc[0] == "truthy" and isinstance(fc[1], Poly) and fc[1] == ln_) or (fc[0] == "cmp" and fc[1] in ("Gt", "NotEq") and isinstance(fc[2], Poly) and fc[2] == ln_ and as_poly(fc[3]).is_zero()) for fc in st_.facts)
    if plus and has_top0 and nonempty:
      seen.add("plus")
    elif same and not (has_top0 and nonempty):
      seen.add("same")
    else:
      probs.append("a path returns %r %s" % (val, "with a leading 0 bit" if has_top0 else "without a leading 0 bit"))
  if not probs and seen != {"plus", "same"}:
    probs.append("the leading-zero correction is missing")
  ctx.record(R, f.where, "runs = popcount(s ^ (s >> 1)) + [bit length-1 is 0]", not probs, "; ".join(sorted(set(probs))) or "2.3.4: V_n(obs) counted as bit changes, corrected for a sequence that starts with 0")
  # ---- util.Dft: the moduli of the n-point transform of the n input values (3.6: f_j = sum_k x_k e^(2 pi i (k-1) j / n)) - no padding, no truncation
  f = repo.func("randomness_tests.util", "Dft")
  w = sym.Walker(repo, f)
  w.run()
  xs_ = P("param", f.params()[0])
  probs = []
  rets = [t_[1] for t_ in w.terminals if t_[0] == "return"]
  ffts = [e for e in w.events if e.kind == "call" and e.data["name"].startswith("ext:") and e.data["name"].split(".")[-1] in ("fft", "rfft", "fft'")]
  if len(rets) != 1 or not isinstance(rets[0], Poly):
    probs.append("expected one return value")
  else:
    a_ = rets[0].as_atom()
    inner = as_poly(a_.args[1]).as_atom() if a_ is not None and a_.kind == "extcall" and repr(a_.args[0]) in ("lit('numpy.abs')", "lit('numpy.absolute')") and len(a_.args) >= 2 else None
    if inner is None or inner.kind != "extcall" or not repr(inner.args[0]).endswith(".fft')") or as_poly(inner.args[1]) != xs_:
      probs.append("the result is %r, not |fft(x)|" % (rets[0],))
    for e in w.events:
      if e.kind == "call" and e.data["name"].startswith("ext:") and e.data["name"].endswith(".fft"):
        if len(e.data["args"]) != 1 or e.data["kwargs"]:
          probs.append("the transform is given a length / axis argument: a padded or truncated transform samples other frequencies")
  ctx.record(R, f.where, "moduli of the n-point DFT of the input", not probs, "; ".join(sorted(set(probs))) or "3.6: numpy.abs(fft(x)), transform length = len(x)")
  # ---- NormalCdf
  f = repo.func("randomness_tests.util", "NormalCdf")
  w = sym.Walker(repo, f)
  w.run()
  x_, mu_, var_ = (P("param", p_) for p_ in f.params()[:3])
  ret = [e.data["value"] for e in w.events if e.kind == "return" and e.node is not None]
  want = _td(sym.mk("math.erf", _td(x_ - mu_, sqrt(var_ * 2))) + 1, _c(2))
  cmp_terms(ctx, R, f.where, "Phi((x - mean) / sd) = (1 + erf((x - mean) / sqrt(2 variance))) / 2", as_poly(ret[0]) if len(ret) == 1 else None, want, "5.5.3")
  # ---- Spectral
  f = repo.func(MOD, "Spectral")
  w = sym.Walker(repo, f)
  w.run()
  ret = [e.data["value"] for e in w.events if e.kind == "return" and e.node is not None]
  probs = []
  if len(ret) != 1 or not isinstance(ret[0], Poly):
    ctx.record(R, f.where, "p = erfc(|N1 - N0| / sqrt(n 0.95 0.05 / 4) / sqrt 2)", None, "expected one return value")
  else:
    pv = ret[0]
    cnt = [a_ for a_ in pv.all_atoms() if a_.kind == "extcall" and "count_nonzero" in repr(a_.args[0])]
    if len(cnt) != 1:
      probs.append("the number of peaks below the threshold is not numpy.count_nonzero(moduli < T)")
    else:
      N1 = Poly.atom(cnt[0])
      txt = repr(cnt[0].args[1]) if len(cnt[0].args) > 1 else ""
      dft = sym.mk("slice", _call(U + "Dft", _call(U + "Bits", bits, n)), _lit("None"), sym.mk("fdiv", n, _c(2)), _lit("None"))
      T = sqrt(sym.mk("math.log", _td(_c(1), _fl("0.05"))) * n)
      below = repr(dft) in txt and repr(T) in txt and ((("'Lt'" in txt or "'LtE'" in txt) and txt.index(repr(dft)) < txt.index(repr(T))) or
                                                          (("'Gt'" in txt or "'GtE'" in txt) and txt.index(repr(T)) < txt.index(repr(dft))))
      if not below:
        probs.append("the peaks counted are not the first n/2 moduli below T = sqrt(ln(1/0.05) n)")
      N0 = sym.mk("len", dft) * _fl("0.95")
      want = erfc(_td(sym.mk("abs", _td(N0 - N1, sqrt(_td(n * _fl("0.95") * _fl("0.05"), _c(4))))), sqrt(_c(2))))
      okt, d_ = ratfun.equal_terms(pv, want)
      if not okt:
        N0b = _td(n, _c(2)) * _fl("0.95")
        want2 = erfc(_td(sym.mk("abs", _td(N0b - N1, sqrt(_td(n * _fl("0.95") * _fl("0.05"), _c(4))))), sqrt(_c(2))))
        okt, d_ = ratfun.equal_terms(pv, want2)
      if not okt:
        probs.append("differs from d = (N1 - 0.95 n/2) / sqrt(n 0.95 0.05 / 4), p = erfc(|d| / sqrt 2): %s" % d_)
    ctx.record(R, f.where, "p = erfc(|N1 - N0| / sqrt(n 0.95 0.05 / 4) / sqrt 2)", not probs, "; ".join(sorted(set(probs))) or "2.6.4: T = sqrt(ln(1/0.05) n), N0 = 0.95 n/2, N1 = #{moduli < T}")
  # ---- CumulativeSumsPValue
  f = repo.func(MOD, "CumulativeSumsPValue")
  w = sym.Walker(repo, f)
  w.run()
  z = P("param", "z")
  t = _td(z, sqrt(n * 2))
  erf = lambda x: sym.mk("math.erf", x)
  loops = sorted(w.loop_info.values(), key=lambda i: i["node"].lineno)
  specs = [
      (_td(_td(-n, z) + 1, _c(4)), _td(_td(n, z) - 1, _c(4)), lambda k: erf((k * 4 - 1) * t) - erf((k * 4 + 1) * t), "sum_k [Phi((4k+1)z/sqrt n) - Phi((4k-1)z/sqrt n)], k = ceil((-n/z+1)/4) .. floor((n/z-1)/4)"),
      (_td(_td(-n, z) - 3, _c(4)), _td(_td(n, z) - 1, _c(4)), lambda k: erf((k * 4 + 3) * t) - erf((k * 4 + 1) * t), "sum_k [Phi((4k+3)z/sqrt n) - Phi((4k+1)z/sqrt n)], k = ceil((-n/z-3)/4) .. floor((n/z-1)/4)"),
  ]
  if len(loops) != 2:
    ctx.record(R, f.where, "two series", None, "expected two summation loops, found %d" % len(loops))
  else:
    chain = []       # (pre value, exit value) of the accumulator of each series
    for info, (mink, maxk, term, txt) in zip(loops, specs):
      node = info["node"]
      probs = []
      for vis in info.get("visits", []):
        head, pre = vis["head"], vis["pre"]
        paths = [bp for bp in info["body_paths"] if bp[4] is vis]
        # roles from the data flow of one pass: the accumulator grows by the series term, the index (while form) by 1
        kvar = accv = None
        if isinstance(node, ast.While):
          for nm in info["modified"]:
            hv = head.env.get(nm)
            if hv is None or isinstance(hv, (Seq, Const, tuple)) or not paths:
              continue
            d = [as_poly(bp[2].env[nm]) - as_poly(hv) for bp in paths if not isinstance(bp[2].env.get(nm), (Seq, Const, tuple)) and bp[2].env.get(nm) is not None]
            if d and all((x - 1).is_zero() for x in d):
              kvar = nm
          if kvar is None:
            probs.append("no summation index advanced by 1")
            continue
          kh = as_poly(head.env[kvar])
          k0 = as_poly(vis["pre_env"][kvar]) if vis["pre_env"].get(kvar) is not None else None
          ok0 = k0 is not None and ratfun.equal_terms(k0, sym.mk("math.ceil", mink))[0]
          if not ok0:
            probs.append("summation does not start at ceil(mink)")
          c = w.cond(node.test, head)
          # the bound: the other operand of the loop condition
          mk_ = None
          for a_ in sym.cond_atoms(c):
            if a_[0] == "cmp" and not isinstance(a_[2], Seq) and not isinstance(a_[3], Seq):
              for x_, y_ in ((a_[2], a_[3]), (a_[3], a_[2])):
                if as_poly(x_) == kh:
                  mk_ = as_poly(y_)
          if mk_ is None or not ratfun.equal_terms(mk_, maxk)[0]:
            probs.append("upper limit is not (n/z - 1)/4")
          else:
            okc, dc = regions.equivalent_dnf([[(c, True)]], lambda v: v[kh] <= v[mk_], main=kh, extra_atoms=[mk_.as_atom()] if mk_.as_atom() is not None else [])
            if not okc:
              probs.append("loop does not run while k <= maxk (the last term k = maxk is part of the series): %s" % dc)
        else:
          it = as_poly(vis["iter"]).as_atom()
          kh = vis["k"]
          if it is None or it.kind != "range" or len(it.args) != 2:
            probs.append("summation range not recognised")
          else:
            a0, b0 = it.args
            kh = a0 + vis["k"]
            ok0, _ = ratfun.equal_terms(a0, sym.mk("math.ceil", mink))
            okb, _ = ratfun.equal_terms(b0, sym.mk("math.floor", maxk) + 1)
            if not ok0:
              probs.append("summation does not start at ceil(mink)")
            if not okb:
              probs.append("range stops at %r: the series runs up to and including floor(maxk), i.e. stop = floor((n/z - 1)/4) + 1" % (b0,))
        for nm in info["modified"]:
          hv = head.env.get(nm)
          if nm == kvar or hv is None or isinstance(hv, (Seq, Const, tuple)) or not paths:
            continue
          ds = [as_poly(bp[2].env[nm]) - as_poly(hv) for bp in paths if not isinstance(bp[2].env.get(nm), (Seq, Const, tuple)) and bp[2].env.get(nm) is not None]
          if ds and all(ratfun.equal_terms(x, term(kh))[0] for x in ds):
            accv = nm
        if accv is None:
          probs.append("no accumulator grows by the series term on every pass")
        else:
          chain.append((vis["pre_env"].get(accv), vis["after_env"].get(accv)))
      ctx.record(R, f.where, txt[:60], not probs, "; ".join(sorted(set(probs))) or txt)
    ret = [t_ for t_ in w.terminals if t_[0] == "return" and not isinstance(t_[1], (Seq, Const, tuple))]
    okr = len(chain) == 2 and bool(ret)
    if okr:
      (p1, a1), (p2, a2) = chain
      zero1 = (isinstance(p1, Const) and isinstance(p1.v, (int, float)) and p1.v == 0) or (isinstance(p1, Poly) and p1.is_zero())
      okr = zero1 and p2 is not None and a1 is not None and as_poly(p2) == as_poly(a1) and a2 is not None and \
          ratfun.equal_terms(unclamp(as_poly(ret[0][1])), _c(1) + _td(as_poly(a2), _c(2)))[0]
    ctx.record(R, f.where, "p = 1 + (series1 + series2) / 2  [erf form of 2.13.4]", okr, "one accumulator: starts at 0, carries series 1 into series 2, p = 1 + total / 2, with t = z / sqrt(2n) inlined in every term" if okr else
               "the two series are not accumulated from 0 into p = 1 + total / 2")
  # ---- RandomWalk: excursion statistics (at the sinks)
  f = repo.func(MOD, "RandomWalk")
  w = sym.Walker(repo, f)
  w.run()
  mc = P("param", "max_cnt")
  for tag, txt in (("random excursions variant ", "variant: p = erfc(|J - xi(x)| / sqrt(2J(4|x| - 2)))"), ("random excursions ", "excursions: p = igamc(max_cnt/2, sum_k (v_k - J pi_k)^2 / (J pi_k) / 2)")):
    sk = [x_ for x_ in sinks(w, tag) if tag.strip().endswith("variant") or "variant" not in repr(x_[0])]
    if not sk:
      ctx.record(R, f.where, txt[:40], None, "no `%s` p-value is appended" % tag.strip())
      continue
    lab, pv, e = sk[0]
    x = label_value(lab)
    lens = [a for a in pv.all_atoms() if a.kind == "len"]
    if x is None or not lens:
      ctx.record(R, f.where, txt[:40], False, "p-value does not depend on the state of its label and the number of excursions")
      continue
    J = Poly.atom(lens[0])
    if tag.strip().endswith("variant"):
      tcs = indexed_syms(pv)
      if len(tcs) != 1:
        ctx.record(R, f.where, txt[:40], False, "p-value does not read one visit-count table")
        continue
      want = erfc(_td(sym.mk("abs", J - sym.mk("idx", tcs[0], x)), sqrt(J * 2 * (sym.mk("abs", x) * 4 - 2))))
      cmp_terms(ctx, R, f.where, txt, pv, want, "2.15.4")
    else:
      vs = indexed_syms(pv)
      if len(vs) != 1:
        ctx.record(R, f.where, txt[:40], False, "p-value does not read one class-count list")
        continue
      pi = _call(MOD + ":RandomExcursionsDistribution", x, mc)
      bv = Atom("bv", "s4")
      k_ = Poly.atom(bv)
      elt = _td((sym.mk("idx", vs[0], k_) - J * sym.mk("idx", pi, k_)) ** 2, J * sym.mk("idx", pi, k_))
      chi = sym.mk("sum", Poly.atom(Atom("map", elt, bv, sym.mk("range", mc + 1))))
      cmp_terms(ctx, R, f.where, txt, pv, igamc(_td(mc, _c(2)), _td(chi, _c(2))), "2.14.4")


# ------------------------------------------------------------------ PURE: a p-value is a function of the bit string and the parameters only
PURE_MODULES = ("randomness_tests.nist_suite", "randomness_tests.extended_nist_suite", "randomness_tests.util", "randomness_tests.exp1",
                "randomness_tests.berlekamp_massey")
_WITNESS = '''
_T = {}
def f(m, k, n, memo={}):
  global calls
  key = (m, k)
  if key not in _T:
    _T[key] = n
  t = _T
  t.pop(key)
  memo[key] = 1
  return _T[key]
'''


def rule_pure(ctx):
  R = "R-C12-PURE"
  repo = ctx.repo
  from pcstatic import effects
  # the scanner must still see the four kinds of persistent write in its own witness
  wt = ast.parse(_WITNESS)
  got = effects.persistent_writes(wt.body[1], effects.module_vars(wt))
  if len(got) != 4:
    raise Incomplete("effect scanner self-check found %d of 4 planted writes" % len(got), "pcstatic.effects")
  n = 0
  for ms in PURE_MODULES:
    m = repo.mod(ms)
    mv = effects.module_vars(m.tree)
    for fn in repo.all_funcs(include_examples=False):
      if fn.module is not m:
        continue
      n += 1
      probs = []
      memo = 0
      for node, txt in effects.persistent_writes(fn.node, mv):
        why = memo_sound(repo, fn, node)
        if why is True:
          memo += 1
        else:
          probs.append("line %d: %s%s" % (getattr(node, "lineno", 0), txt, "; " + why if why else ""))
      probs += ["decorator %s may keep state between calls" % d for d in effects.impure_decorators(fn.node)]
      ctx.record(R, fn.where, "no state outlives the call", not probs, "; ".join(probs) if probs else
                 "no global declaration, no write to a module-level container or attribute (directly or through a local alias), no mutable default argument written"
                 + (" (%d memo store(s) keyed by every input of the stored value)" % memo if memo else ""))


def memo_sound(repo, fn, node):
  """A store TABLE[key] = value into persistent state is harmless when value is a function of the key alone: True, else a reason (or '' when the
  write is not such a store)."""
  if not (isinstance(node, ast.Assign) and len(node.targets) == 1 and isinstance(node.targets[0], ast.Subscript)):
    return ""
  w = sym.Walker(repo, fn)
  w.run()
  evs = [e for e in w.events if e.kind == "store" and e.node is node]
  if not evs:
    return ""
  for e in evs:
    key, val = e.data["index"], e.data["value"]
    kp = set()
    for x in (key.items if isinstance(key, Seq) else [key]):
      if isinstance(x, Const):
        continue
      kp |= {repr(a) for a in as_poly(x).all_atoms() if a.kind in ("param", "sym")}
    vp = set()
    for x in (val.items if isinstance(val, Seq) else [val]):
      if isinstance(x, Const):
        continue
      vp |= {repr(a) for a in as_poly(x).all_atoms() if a.kind in ("param", "sym")}
    extra = sorted(vp - kp)
    if extra:
      return "the stored value depends on %s, which is not part of the key: a later call with the same key and another %s reads a stale entry" % (
          ", ".join(extra), extra[0])
  return True


# ------------------------------------------------------------------ LADDER: LargeBinaryMatrixRank tests every power-of-two matrix that fits
def canon_le(fc):
  """cmp fact -> (poly e, bound c) meaning e <= c (integers), or None."""
  if fc[0] != "cmp" or isinstance(fc[2], Seq) or isinstance(fc[3], Seq):
    return None
  e = as_poly(fc[2]) - as_poly(fc[3])
  op = fc[1]
  if op in ("GtE", "Gt"):
    e = -e
  elif op not in ("LtE", "Lt"):
    return None
  c0 = const_term(e)
  if c0 is None:
    return None
  return e - c0, (0 if op in ("LtE", "GtE") else -1) - c0


def const_term(e):
  c = e.t.get((), 0)
  return int(c) if getattr(c, "denominator", 1) == 1 else None


def rule_ladder(ctx, R="R-C12-LADDER"):
  repo = ctx.repo
  f = repo.func(EXT, "LargeBinaryMatrixRank")
  w = sym.Walker(repo, f)
  w.run()
  bits, n = [P("param", x) for x in f.params()[:2]]
  loops = [i for i in w.loop_info.values() if isinstance(i["node"], ast.While) and i["visits"]]
  if len(loops) != 1:
    raise Incomplete("LargeBinaryMatrixRank: expected one while loop over the matrix sizes", f.where)
  info = loops[0]
  vis = info["visits"][0]
  head, pre = vis["head"].env, vis["pre_env"]
  # the size variable: starts at a constant, doubles on every pass
  size = None
  for nm in info["modified"]:
    if nm in pre and isinstance(pre[nm], (Const, Poly)) and as_poly(pre[nm]).as_int() is not None and nm in head:
      S = as_poly(head[nm])
      paths = [bp for bp in info["body_paths"] if bp[4] is vis]
      if paths and all(k == "fall" and not isinstance(s.env[nm], Seq) and (as_poly(s.env[nm]) - S * 2).is_zero() for k, v, s, since, v2 in paths):
        size = nm
  if size is None:
    ctx.violation(R, f.where, "matrix sizes double from a constant", "no loop variable starts at a constant and doubles on every pass")
    return
  S = as_poly(head[size])
  s0 = as_poly(pre[size]).as_int()
  cond = [canon_le(fc) for fc in vis["head"].facts[len(vis["pre"].facts):]]
  cond = [c for c in cond if c is not None]
  want = S * S - n
  ok = len(cond) == 1 and (cond[0][0] - want).is_zero() and cond[0][1] == 0
  if ok:
    detail = "sizes %d, %d, ... are tested while size^2 <= n: every power-of-two matrix that fits the data, including an exact fit" % (s0, 2 * s0)
  elif len(cond) == 1 and (cond[0][0] - want).is_zero():
    detail = "loop runs while size^2 <= n %+d: a matrix that fits the data exactly is %s" % (cond[0][1], "never tested" if cond[0][1] < 0 else "exceeded")
  else:
    detail = "loop condition is not `size * size <= n`"
  ctx.record(R, f.where, "every matrix with size^2 <= n is tested", ok, detail)
  # guard and first step agree: data accepted by the guard yields at least one p-value
  raises = [e for e in w.events if e.kind == "raise"]
  okg = bool(raises)
  dg = "raised iff n < %d^2, and n >= %d^2 enters the loop: at least one p-value" % (s0, s0)
  for e in raises:
    g = [canon_le(fc) for fc in e.facts]
    g = [c for c in g if c is not None]
    # guard n - s0^2 <= -1  <=>  n < s0^2
    if not (len(g) == 1 and (g[0][0] - n).is_zero() and g[0][1] == s0 * s0 - 1):
      okg = False
      dg = "insufficient-data guard is not n < %d" % (s0 * s0)
  if okg and not ok and len(cond) == 1 and (cond[0][0] - want).is_zero() and cond[0][1] < 0:
    okg = False
    dg = "n = %d passes the data-size guard but the first matrix is not tested: empty result" % (s0 * s0)
  ctx.record(R, f.where, "guard and first step agree", okg, dg)
  # each step looks at the low size^2 bits as a size x size matrix
  calls = [e for e in w.events if e.kind == "call" and e.data["name"].endswith("util:SplitSequence")]
  oks = bool(calls)
  for e in calls:
    a = e.data["args"]
    tr = sym.mk("band", bits, sym.mk("shl", Poly.const(1), S * S) - 1)
    if len(a) < 3 or as_poly(a[0]) != tr or as_poly(a[1]) != S * S or as_poly(a[2]) != S:
      oks = False
  ctx.record(R, f.where, "matrix = low size^2 bits in rows of size", oks, "SplitSequence(bits & (2^(size^2) - 1), size^2, size)" if oks else
             "the matrix handed to the rank computation is not the size x size prefix of the bit string")


# ------------------------------------------------------------------ TEMPLATE: aperiodic templates of section 2.7
def rule_template(ctx):
  R = "R-C12-TEMPLATE"
  repo = ctx.repo
  f = repo.func(MOD, "IsNonOverlappingTemplate")
  w = sym.Walker(repo, f)
  w.run()
  t, m = [P("param", x) for x in f.params()[:2]]
  loops = [i for i in w.loop_info.values() if i["visits"]]
  probs = []
  if len(loops) != 1 or isinstance(loops[0]["iter"], Seq):
    raise Incomplete("IsNonOverlappingTemplate: expected one loop over the border lengths", f.where)
  info = loops[0]
  vis = info["visits"][0]
  it = as_poly(info["iter"]).as_atom()
  k = as_poly(vis["k"])
  # border lengths 1 .. m-1, each exactly once
  if it is not None and it.kind == "range" and len(it.args) == 2 and as_poly(it.args[0]).as_int() == 1 and as_poly(it.args[1]) == m:
    i = k + 1
  elif it is not None and it.kind == "range" and len(it.args) == 3 and as_poly(it.args[2]).as_int() == -1 and as_poly(it.args[0]) == m - 1 and as_poly(it.args[1]).as_int() == 0:
    i = m - 1 - k
  else:
    i = None
    probs.append("the border lengths tried are %r, not 1 .. m-1: a template whose only border has an untested length is accepted as aperiodic" % (as_poly(info["iter"]),))
  if i is not None:
    one = Poly.const(1)
    pre = lambda j: sym.mk("shr", t, m - j)                                  # the j leading bits
    suf = lambda j: sym.mk("band", t, sym.mk("shl", one, j) - 1)              # the j trailing bits
    n_ret = 0
    for kind, val, s, since, v2 in info["body_paths"]:
      newf = s.facts[len(vis["head"].facts):]
      eqs = [fc for fc in newf if fc[0] == "cmp" and fc[1] in ("Eq", "NotEq") and not isinstance(fc[2], Seq) and not isinstance(fc[3], Seq)]
      if len(eqs) != 1:
        probs.append("a pass of the loop does not compare one prefix with one suffix")
        continue
      a, b = as_poly(eqs[0][2]), as_poly(eqs[0][3])
      good = any({repr(a), repr(b)} == {repr(pre(j)), repr(suf(j))} for j in (i, m - i))
      if not good:
        probs.append("the comparison is not `leading j bits == trailing j bits` for the border length j of this pass (j = i or m - i)")
      if kind == "return":
        n_ret += 1
        if eqs[0][1] != "Eq" or not (isinstance(val, Const) and val.v is False):
          probs.append("a border does not make the template overlapping (return False under equality)")
      elif kind == "fall":
        if eqs[0][1] != "NotEq":
          probs.append("the loop goes on although a border was found")
      else:
        probs.append("border loop left by %s" % kind)
    if n_ret != 1:
      probs.append("expected exactly one early return")
    fin = [tm for tm in w.terminals if tm[0] == "return" and not any(tm[2] is bp[2] for bp in info["body_paths"])]
    if not fin or not all(isinstance(v_, Const) and v_.v is True for k_, v_, s_ in fin):
      probs.append("a template without any border is not reported aperiodic (return True after the loop)")
  ctx.record(R, f.where, "aperiodic <=> no border of length 1 .. m-1", not probs, "; ".join(sorted(set(probs))) or
             "every j in 1 .. m-1: leading j bits vs trailing j bits; False at the first border, True otherwise")
  # ---- uses: default template set = all aperiodic m-bit templates; explicit overlapping templates are rejected
  f2 = repo.func(MOD, "NonOverlappingTemplateMatching")
  w2 = sym.Walker(repo, f2)
  w2.run()
  apps = [e for e in w2.events if e.kind == "mutate" and e.data["method"] == "append"]
  okd, why = bool(apps), []
  for e in apps:
    arg = as_poly(e.data["args"][0]) if e.data["args"] else None
    call = [fc for fc in e.facts if fc[0] == "truthy" and as_poly(fc[1]).as_atom() is not None and as_poly(fc[1]).as_atom().kind == "call"
            and as_poly(fc[1]).as_atom().args[0] == P("lit", MOD + ":IsNonOverlappingTemplate")]
    if not call or as_poly(call[-1][1]).as_atom().args[1] != arg:
      okd = False
      why.append("a template is added without passing IsNonOverlappingTemplate for itself")
  # the candidate b of every append runs over range(2^M) for the very M handed to the predicate
  full = bool(apps)
  for e in apps:
    call = [fc for fc in e.facts if fc[0] == "truthy" and as_poly(fc[1]).as_atom() is not None and as_poly(fc[1]).as_atom().kind == "call"
            and as_poly(fc[1]).as_atom().args[0] == P("lit", MOD + ":IsNonOverlappingTemplate")]
    if not call:
      full = False
      continue
    b, Mv = as_poly(call[-1][1]).as_atom().args[1:3]
    okl = False
    for i_ in w2.loop_info.values():
      for vis in i_["visits"]:
        if isinstance(vis["iter"], Seq) or as_poly(vis["k"]) != as_poly(b):
          continue
        ra = as_poly(vis["iter"]).as_atom()
        if ra is None or ra.kind != "range":
          continue
        stop = as_poly(ra.args[0]) if len(ra.args) == 1 else (as_poly(ra.args[1]) if len(ra.args) == 2 and as_poly(ra.args[0]).as_int() == 0 else None)
        if stop is None:
          continue
        mi = as_poly(Mv).as_int()
        if mi is not None:
          okl = okl or stop.as_int() == 2 ** mi
        else:
          okl = okl or stop in (sym.mk("pow", Poly.const(2), as_poly(Mv)), sym.mk("shl", Poly.const(1), as_poly(Mv)))
    full = full and okl
  if not full:
    okd = False
    why.append("the default set does not range over all 2^m candidate templates")
  ctx.record(R, f2.where, "default templates = all aperiodic m-bit words", okd, "; ".join(sorted(set(why))) or "range(2^m) filtered by IsNonOverlappingTemplate(b, m)")
  f3 = repo.func(MOD, "NonOverlappingTemplateMatchingImpl")
  w3 = sym.Walker(repo, f3)
  w3.run()
  rs = [e for e in w3.events if e.kind == "raise" and e.node is not None and e.node.exc is not None]
  okv = any(any(fc[0] == "falsy" and as_poly(fc[1]).as_atom() is not None and as_poly(fc[1]).as_atom().kind == "call" and
                as_poly(fc[1]).as_atom().args[0] == P("lit", MOD + ":IsNonOverlappingTemplate") for fc in e.facts) for e in rs)
  ctx.record(R, f3.where, "explicit overlapping templates are rejected", okv, "raise under `not IsNonOverlappingTemplate(b, m)`" if okv else
             "no raise is conditioned on IsNonOverlappingTemplate being false for a supplied template")


# ------------------------------------------------------------------ UNIVERSAL: Maurer's statistic with a last-occurrence table
def rule_universal(ctx):
  """f_n = (1/K) sum_{i=Q+1..Q+K} log2(i - T[block_i]) with T the last position (1-based, 0 if never seen).  With positions p counted from an
  arbitrary base the table must start at (first position - 1); each test block adds log2(p - T[b]) and *then* sets T[b] = p."""
  R = "R-C12-UNIVERSAL"
  repo = ctx.repo
  f = repo.func(MOD, "UniversalImpl")
  w = sym.Walker(repo, f)
  w.run()
  loops = sorted([i for i in w.loop_info.values() if i["visits"] and isinstance(i["node"], ast.For)], key=lambda i: i["node"].lineno)
  probs = []
  if len(loops) != 2:
    raise Incomplete("UniversalImpl: expected an initialisation loop and a test loop", f.where)
  init, test = loops

  def positions(info):
    vis = info["visits"][0]
    it = as_poly(vis["iter"]).as_atom() if not isinstance(vis["iter"], Seq) and vis["iter"] is not None else None
    if it is None or it.kind != "range" or len(it.args) > 2:
      return None, None, None
    start = Poly.const(0) if len(it.args) == 1 else as_poly(it.args[0])
    stop = as_poly(it.args[-1])
    return start, stop, start + as_poly(vis["k"])
  s0, e0, p0 = positions(init)
  s1, e1, p1 = positions(test)
  if p0 is None or p1 is None:
    raise Incomplete("UniversalImpl: loops are not over ranges of block positions", f.where)
  # the table
  vi, vt = init["visits"][0], test["visits"][0]
  tabs = [nm for nm, pv in vi["pre_env"].items() if pv is not None and not isinstance(pv, (Seq, Const, tuple)) and as_poly(pv).as_atom() is not None and as_poly(pv).as_atom().kind == "listrep"]
  if len(tabs) != 1:
    raise Incomplete("UniversalImpl: last-occurrence table not identified", f.where)
  tab = tabs[0]
  ta = as_poly(vi["pre_env"][tab]).as_atom()
  I = as_poly(ta.args[0].as_atom().args[0]) if ta.args[0].as_atom() is not None and ta.args[0].as_atom().kind == "seq" and len(ta.args[0].as_atom().args) == 1 else None
  # the position of a test pass is what the table records (the loop may count passes from 0 and add the offset itself): first position + pass number
  kt_ = as_poly(vt["k"])
  for kind, val, s_, since, v2 in test["body_paths"]:
    evs = [w.events[x] for x in s_.trace if x >= since]
    st = [e for e in evs if e.kind == "store" and as_poly(e.data["base"]) == as_poly(vt["head"].env[tab])]
    if len(st) == 1 and isinstance(st[0].data["value"], Poly) and kt_.as_atom() is not None:
      pv_ = st[0].data["value"]
      base_ = pv_ - kt_
      if not any(a_ == kt_.as_atom() for a_ in base_.all_atoms()) and not (base_ - s1).is_zero():
        s1, e1, p1 = base_, e1 - s1 + base_, pv_
      break
  if I is None or not (I - (s0 - 1)).is_zero():
    probs.append("the table starts at %r but positions start at %r: a pattern first seen in the test segment at position p must contribute log2(p - (first position - 1)) "
                 "= log2 of its 1-based index" % (I, s0))
  if not (s1 - e0).is_zero():
    probs.append("the test segment does not start where the initialisation segment ends")
  # initialisation: T[block_p] = p
  for kind, val, s_, since, v2 in init["body_paths"]:
    evs = [w.events[x] for x in s_.trace if x >= since]
    st = [e for e in evs if e.kind == "store" and as_poly(e.data["base"]) == as_poly(vi["head"].env[tab])]
    if kind != "fall" or len(st) != 1 or as_poly(st[0].data["value"]) != p0:
      probs.append("initialisation does not record each block's own position")
    else:
      ia = as_poly(st[0].data["index"]).as_atom()
      off0 = (p0 - as_poly(ia.args[1])) if ia is not None and ia.kind == "idx" else None
      if off0 is None or off0.as_int() is None or not (s0 - off0).is_zero():
        probs.append("initialisation does not index the table by the block at that position (block number = position - first position)")
  # test: sum += log2(p - T[b]) ; then T[b] = p
  TH = as_poly(vt["head"].env[tab])
  acc = None
  for kind, val, s_, since, v2 in test["body_paths"]:
    evs = [w.events[x] for x in s_.trace if x >= since]
    st = [e for e in evs if e.kind == "store" and as_poly(e.data["base"]) == TH]
    aug = [e for e in evs if e.kind == "augassign"]
    if kind != "fall" or len(st) != 1 or len(aug) != 1:
      probs.append("a test block does not add exactly one term and update exactly one table entry")
      continue
    bidx = as_poly(st[0].data["index"])
    want = sym.mk("math.log", p1 - sym.mk("idx", TH, bidx), Poly.const(2))
    if as_poly(aug[0].data["rhs"]) != want:
      probs.append("the term of a test block is not log2(position - last position of the same block) read before the table is updated")
    if as_poly(st[0].data["value"]) != p1:
      probs.append("the table is not updated with the block's own position")
    ba = bidx.as_atom()
    off1 = (p1 - as_poly(ba.args[1])) if ba is not None and ba.kind == "idx" else None
    if off1 is None or off1.as_int() is None or not (s0 - off1).is_zero():
      probs.append("the table is not indexed by the block at the current position")
    elif ba is not None:
      # the blocks: all L-bit blocks of the input, the first Q for initialisation and *all the others* as test blocks (K = floor(n / L) - Q)
      blk = as_poly(ba.args[0])
      pr_ = f.params()
      want_blk = sym.mk("call", P("lit", "randomness_tests.util:SplitSequence"), P("param", pr_[0]), P("param", pr_[1]), P("param", pr_[2]))
      if blk != want_blk:
        probs.append("the blocks are not util.SplitSequence(bits, n, block_size)")
      elif not (e1 - s0 - sym.mk("len", blk)).is_zero():
        probs.append("the test segment ends at block %r, not at the last block len(blocks): K must be the number of blocks left after the Q initialisation blocks" % (e1,))
    acc = aug[0].data["name"]
  ctx.record(R, f.where, "f_n = (1/K) sum log2(position - last position), unseen patterns count from the start", not probs, "; ".join(sorted(set(probs))) or
             "table starts at first position - 1 = %r; init records positions %r..; test adds log2(p - T[b]) then sets T[b] = p" % (I, s0))
  # p = erfc(|f - mean| / std / sqrt 2) with f = sum / K
  rets = [t for t in w.terminals if t[0] == "return" and not isinstance(t[1], (Seq, Const, tuple))]
  okp = False
  if rets and acc is not None:
    S = as_poly(vt["after_env"][acc])
    K = e1 - s1
    dist = None
    for a in as_poly(rets[0][1]).all_atoms():
      if a.kind == "call" and "UniversalDistribution" in repr(a.args[0]):
        dist = Poly.atom(a)
    if dist is not None:
      want = sym.mk("math.erfc", _td(_td(sym.mk("abs", _td(S, K) - sym.mk("idx", dist, _c(0))), sym.mk("idx", dist, _c(1))), sym.mk("math.sqrt", _c(2))))
      okp = ratfun.equal_terms(as_poly(rets[0][1]), want)[0]
  ctx.record(R, f.where, "p = erfc(|f_n - expected| / sigma / sqrt 2)", okp, "f_n = sum / K with K = number of test blocks; (expected, sigma) = UniversalDistribution(L, K)" if okp else
             "the p-value is not erfc(|sum/K - expected| / sigma / sqrt(2))")


# ------------------------------------------------------------------ GATE: random-excursion sub-tests need at least 500 cycles
def rule_excursion_gate(ctx, R="R-C12-MINSIZE", exact=False):
  """SP 800-22 2.14.7 / 3.14: the chi-square (and the normal approximation of the variant) are only valid for J >= max(0.005 sqrt(n), 500) cycles;
  below 500 cycles truly random input yields p-values far below any fail level.  Every appended excursion p-value must be dominated by J >= c, c >= 500."""
  repo = ctx.repo
  f = repo.func(MOD, "RandomWalk")
  w = sym.Walker(repo, f)
  w.run()
  probs = []
  n_s = 0
  seen = set()
  for e in w.events:
    if not (e.kind == "mutate" and e.data["method"] == "append" and e.data["args"] and isinstance(e.data["args"][0], Seq) and len(e.data["args"][0].items) == 2):
      continue
    lab = e.data["args"][0].items[0]
    if "random excursions" not in repr(lab) or id(e.node) in seen:
      continue
    seen.add(id(e.node))
    n_s += 1
    pv = as_poly(e.data["args"][0].items[1])
    lens = [a for a in pv.all_atoms() if a.kind == "len"]
    if not lens:
      probs.append("an excursion p-value does not depend on the number of cycles")
      continue
    J = Poly.atom(lens[0])
    ok = False
    for fc in e.facts:
      if fc[0] != "cmp" or isinstance(fc[2], Seq) or isinstance(fc[3], Seq):
        continue
      x, y, op = as_poly(fc[2]), as_poly(fc[3]), fc[1]
      if y == J and op in ("Lt", "LtE"):
        x, y, op = y, x, {"Lt": "Gt", "LtE": "GtE"}[op]
      if x != J or op not in ("Gt", "GtE"):
        continue
      lo = None
      yi = y.as_int()
      ya = y.as_atom()
      if yi is not None:
        lo = yi + (1 if op == "Gt" else 0)
      elif ya is not None and ya.kind == "max":
        cs = [as_poly(z).as_int() for z in ya.args if as_poly(z).as_int() is not None]
        lo = max(cs) + (1 if op == "Gt" else 0) if cs else None
      if lo is not None and lo >= 500:
        ok = True
        if exact and yi is not None and lo > 500:
          probs.append("an excursion p-value is only reported for J >= %d: SP 800-22 assigns it from J = 500 on" % lo)
    if not ok:
      probs.append("an excursion p-value is reported without the guard J >= 500 (found: %s)" %
                   ("; ".join("%s %r" % (fc[1], as_poly(fc[3])) for fc in e.facts if fc[0] == "cmp" and not isinstance(fc[2], Seq) and as_poly(fc[2]) == J)[:120] or "no comparison of J"))
  if n_s < 2:
    probs.append("excursion and variant sub-tests not both found")
  ctx.record(R, f.where, "excursion sub-tests only with at least 500 cycles", not probs, "; ".join(sorted(set(probs))) or
             "%d sub-test families: every p-value is appended under J >= c with c >= 500" % n_s)


# ------------------------------------------------------------------ BITS (the +-1 expansion consumed by RandomWalk / Spectral)
def rule_bits(ctx):
  """util.Bits(seq, length) has exactly `length` entries for every seq >= 0: the number of padding entries plus the number of digits written is `length`.
  Lengths are computed on the walker's values; the only arithmetic fact used is len(format(s, 'b')) = max(1, s.bit_length()) for s >= 0."""
  R = "R-C12-BITS"
  repo = ctx.repo
  f = repo.func("randomness_tests.util", "Bits")
  w = sym.Walker(repo, f)
  w.run()
  where = f.where
  rets = [e for e in w.events if e.kind == "return"]
  if len(rets) != 1 or rets[0].data["value"] is None or isinstance(rets[0].data["value"], (Const, Seq, tuple)):
    ctx.incomplete(R, where, "entries", "Bits does not return one array value on a single path")
    return
  seqp, lenp = [P("param", q) for q in f.params()[:2]]
  v = as_poly(rets[0].data["value"])
  while True:
    a = v.as_atom()
    if a is not None and a.kind == "mut" and len(a.args) >= 2 and repr(a.args[1]) == "lit('reverse')":
      v = as_poly(a.args[0])
      continue
    break

  def digits(x):
    """length of a bytes/str value derived from format(seq, 'b') by length-preserving operations; None when unknown."""
    a = as_poly(x).as_atom() if not isinstance(x, (Const, Seq, tuple)) else None
    if isinstance(x, Const) and isinstance(x.v, (bytes, str)):
      return Poly.const(len(x.v))
    if a is None:
      return None
    if a.kind == "pm" and repr(a.args[1]) in ("lit('translate')",):
      return digits(a.args[0])
    if a.kind == "bytes" and a.args:
      return digits(a.args[0])
    if a.kind == "mcall" and repr(a.args[1]) in ("lit('encode')", "lit('translate')"):
      return digits(a.args[0])
    if a.kind == "format" and len(a.args) == 2 and repr(a.args[1]) == 'lit("\'b\'")' and as_poly(a.args[0]) == seqp:
      return Poly.atom(Atom("ndigits"))
    return None

  def entries(p):
    """number of entries of an array-valued polynomial: array atoms replaced by their literal length, len(<digits>) by the digit count."""
    out = p
    for a in list(p.all_atoms()):
      if a.kind == "extcall" and repr(a.args[0]) == "lit('array.array')":
        init = a.args[2] if len(a.args) > 2 else None
        ia = as_poly(init).as_atom() if init is not None and not isinstance(init, (Const, Seq, tuple)) else None
        if ia is None or ia.kind != "seq":
          return None
        out = out.deep_subst(a, Poly.const(len(ia.args)))
      elif a.kind == "len" and a.args:
        d = digits(a.args[0])
        if d is not None:
          out = out.deep_subst(a, d)
    return out

  total = entries(v)
  grown = []
  for e in w.events:
    if e.kind == "call" and e.data["name"] in ("meth:frombytes", "meth:extend", "meth:fromlist") and e.data.get("recv") is not None \
       and not isinstance(e.data["recv"], (Const, Seq, tuple)) and as_poly(e.data["recv"]) == v and e.data["args"]:
      grown.append(digits(e.data["args"][0]))
  if total is None or any(g is None for g in grown):
    ctx.incomplete(R, where, "entries", "length of the returned array is not expressible from its pieces")
    return
  for g in grown:
    total = total + g
  bad = None
  isbl = lambda a: a.kind == "bitlen" and len(a.args) == 1 and as_poly(a.args[0]) == seqp
  left = [a for a in (total - lenp).atoms() if not (a.kind == "ndigits" or isbl(a))]
  if (total - lenp).is_zero():
    ok, det = True, "padding entries + digits written = length identically"
  elif left:
    ctx.incomplete(R, where, "entries", "entry count %r has terms outside {length, digits, bit_length}" % (total,))
    return
  else:
    ok = True
    for bl in (0, 1, 2, 7, 64):
      r = (total - lenp).deep_subst(Atom("ndigits"), Poly.const(max(1, bl)))
      for a in list(r.all_atoms()):
        if isbl(a):
          r = r.deep_subst(a, Poly.const(bl))
      if not r.is_zero():
        ok, bad = False, bl
        break
    det = "padding entries + digits written = length for every bit length" if ok else \
          "for seq of bit length %d (format(seq, 'b') has %d digit(s)) the array has %r entries, not length" % (bad, max(1, bad), total)
  ctx.record(R, where, "exactly `length` entries", ok, det)
  # digits: '0' -> -1, '1' -> +1, padding (leading zeros) -1, least significant bit first
  tabs = [e for e in w.events if e.kind == "call" and e.data["name"] == "meth:maketrans" and len(e.data["args"]) == 2 and all(isinstance(x, Const) for x in e.data["args"])]
  pads = [a for a in v.all_atoms() if a.kind == "extcall" and repr(a.args[0]) == "lit('array.array')"]
  ok2 = False
  det2 = "digit translation table not found"
  if len(tabs) == 1 and len(pads) == 1:
    src, dst = tabs[0].data["args"][0].v, tabs[0].data["args"][1].v
    code = repr(pads[0].args[1])
    padv = [as_poly(x).as_int() for x in as_poly(pads[0].args[2]).as_atom().args]
    mp = dict(zip(src, dst)) if isinstance(src, bytes) and isinstance(dst, bytes) and len(src) == len(dst) else {}
    signed = lambda b_: b_ - 256 if b_ > 127 else b_
    ok2 = code == 'lit("\'b\'")' and mp.get(ord("0")) is not None and signed(mp[ord("0")]) == -1 and signed(mp.get(ord("1"), 0)) == 1 and padv == [-1]
    rev = as_poly(rets[0].data["value"]).as_atom()
    ok2 = ok2 and rev is not None and rev.kind == "mut"
    det2 = "'0' -> -1, '1' -> +1, leading zeros -1, reversed to least-significant-first" if ok2 else "digit mapping is not 0 -> -1 / 1 -> +1 with -1 padding, reversed"
  ctx.record(R, where, "digits map to -1 / +1", ok2, det2)


# ------------------------------------------------------------------ RANGE (every returned p-value lies in [0, 1])
INF = float("inf")
RANGE01_EXT = {"scipy.special.gammaincc": "regularised upper incomplete gamma Q(a, x)", "scipy.stats.binom.cdf": "binomial distribution function",
               "scipy.stats.norm.cdf": "normal distribution function", "scipy.stats.chi2.sf": "chi-square survival function"}


def _imul(a, b):
  c = []
  for x in a:
    for y in b:
      c.append(0.0 if (x == 0 or y == 0) else x * y)
  return (min(c), max(c))


def interval(x, depth=0):
  """(lo, hi) enclosure of a walker value over the reals; opaque values are (-inf, inf).  Facts used: ranges of abs, sqrt, len, erf, erfc, exp,
  min / max, literal floats, and BitCount(bits) / n in [0, 1] for a bit string of length n (the precondition of every test)."""
  if isinstance(x, Const):
    return (float(x.v), float(x.v)) if isinstance(x.v, (int, float)) and not isinstance(x.v, bool) else (-INF, INF)
  if isinstance(x, (Seq, tuple)) or x is None or depth > 12:
    return (-INF, INF)
  p = as_poly(x)
  lo = hi = 0.0
  for mono, c in p.t.items():
    m = (float(c), float(c))
    for a, e in mono:
      ia = atom_interval(a, depth + 1)
      if e % 2 == 0:
        l_, h_ = ia
        big = max(abs(l_), abs(h_))
        small = 0.0 if l_ <= 0 <= h_ else min(abs(l_), abs(h_))
        ia = (small ** e, big ** e if big != INF else INF)
      else:
        ia = (ia[0] ** e if ia[0] != -INF else -INF, ia[1] ** e if ia[1] != INF else INF)
      m = _imul(m, ia)
    lo += m[0]
    hi += m[1]
  return (lo, hi)


def atom_interval(a, depth=0):
  k = a.kind
  if k == "lit" and a.args and isinstance(a.args[0], str):
    try:
      v = float(a.args[0].strip("'\""))
      return (v, v)
    except ValueError:
      return (-INF, INF)
  if k in ("abs", "math.fabs"):
    l_, h_ = interval(a.args[0], depth)
    return (0.0 if l_ <= 0 <= h_ else min(abs(l_), abs(h_)), max(abs(l_), abs(h_)))
  if k == "math.sqrt":
    l_, h_ = interval(a.args[0], depth)
    return (math.sqrt(l_) if l_ > 0 and l_ != INF else 0.0, math.sqrt(h_) if 0 <= h_ != INF else INF)
  if k in ("len", "bitlen"):
    return (0.0, INF)
  if k == "math.erf":
    return (-1.0, 1.0)
  if k == "math.erfc":
    l_, h_ = interval(a.args[0], depth)
    return (0.0, 1.0) if l_ >= 0 else (0.0, 2.0)
  if k == "math.exp":
    return (0.0, INF)
  if k == "pow" and len(a.args) == 2:
    b = interval(a.args[0], depth)
    return (0.0, INF) if b[0] >= 0 else (-INF, INF)
  if k in ("min", "max") and a.args:
    ivs = [interval(x, depth) for x in a.args if not (isinstance(x, Poly) and x.as_atom() is not None and x.as_atom().kind == "kw")]
    f_ = min if k == "min" else max
    return (f_(i[0] for i in ivs), f_(i[1] for i in ivs))
  if k == "tdiv" and len(a.args) == 2:
    num, den = a.args
    na = as_poly(num).as_atom()
    if na is not None and na.kind == "call" and repr(na.args[0]).endswith(":BitCount')") and len(na.args) == 2:
      return (0.0, 1.0) if repr(as_poly(den)) in ("param('n')", "param('length')", "param('m')", "param('block_size')") else (0.0, INF) if interval(den, depth)[0] > 0 else (-INF, INF)
    n_, d_ = interval(num, depth), interval(den, depth)
    if d_[0] > 0 or d_[1] < 0:
      inv = (1.0 / d_[1] if d_[1] not in (INF, -INF) else 0.0, 1.0 / d_[0] if d_[0] not in (INF, -INF) else 0.0)
      return _imul(n_, (min(inv), max(inv)))
    if d_[0] >= 0:          # divisor >= 0 (division by zero is C18's business): the sign of the numerator is kept
      return (0.0 if n_[0] >= 0 else -INF, 0.0 if n_[1] <= 0 else INF)
    return (-INF, INF)
  if k == "extcall" and a.args and repr(a.args[0]).startswith("lit('") and repr(a.args[0])[5:-2] in RANGE01_EXT:
    return (0.0, 1.0)
  if k == "call" and a.args and repr(a.args[0]).endswith((":BitCount')", ":Runs')")):
    return (0.0, INF)
  if k == "param" and a.args and a.args[0] in ("n", "length", "m", "block_size"):
    return (0.0, INF)       # lengths
  return (-INF, INF)


def nonneg(x):
  """x >= 0 from the interval facts, after taking out the monomial common to all terms (so that 2 s pi - 2 s pi^2 is seen as 2 s pi (1 - pi))."""
  if interval(x)[0] >= 0:
    return True
  p = as_poly(x)
  if len(p.t) < 2:
    return False
  common = None
  for mono in p.t:
    d = dict(mono)
    common = d if common is None else {a: min(e, d[a]) for a, e in common.items() if a in d}
  if not common:
    return False
  for a, e in common.items():
    if e % 2 and atom_interval(a)[0] < 0:
      return False
  rest = {}
  for mono, c in p.t.items():
    d = dict(mono)
    for a, e in common.items():
      d[a] -= e
    key = tuple(sorted(((a, e) for a, e in d.items() if e), key=lambda z: repr(z[0])))
    rest[key] = rest.get(key, 0) + c
  return interval(Poly(rest))[0] >= 0


def rule_range(ctx):
  """Every p-value handed back by a registered test comes out of a primitive whose range is [0, 1] (incomplete gamma, distribution functions,
  erfc of a non-negative argument, a table of probabilities), from another function held to the same rule, or is clamped; a p-value assembled by
  free floating-point arithmetic (1 - sum of differences of distribution functions) can leave [0, 1] by truncation and rounding."""
  R = "R-C12-RANGE"
  repo = ctx.repo
  rs = repo.mod("randomness_tests.random_test_suite")
  todo = []
  for nm in ("NIST_TESTS", "EXTENDED_NIST_TESTS"):
    node = rs.consts.get(nm)
    if not isinstance(node, ast.List):
      raise Incomplete("%s is not a literal list" % nm, rs.short)
    for e in node.elts:
      r = repo.resolve_expr(rs, e.elts[0]) if isinstance(e, ast.Tuple) and e.elts else None
      if not hasattr(r, "where"):
        raise Incomplete("%s entry does not resolve to a function" % nm, rs.short)
      if r not in todo:
        todo.append(r)
  seen = set()
  nfun = 0
  while todo:
    f = todo.pop(0)
    if f.where in seen:
      continue
    seen.add(f.where)
    nfun += 1
    w = sym.Walker(repo, f)
    w.run()
    sinks = []

    def add(v, e):
      if isinstance(v, Seq):
        if len(v.items) == 2 and (isinstance(v.items[0], Const) or "fstr" in repr(v.items[0])[:12] or "lit(" in repr(v.items[0])[:6] or "format" in repr(v.items[0])[:8]):
          sinks.append((v.items[1], e))
        else:
          for it in v.items:
            add(it, e)
        return
      if v is None or isinstance(v, tuple):
        return
      if not isinstance(v, Const):
        a = as_poly(v).as_atom()
        if a is not None and a.kind == "map":
          add(a.args[0] if isinstance(a.args[0], Seq) else as_poly(a.args[0]), e)
          return
        if a is not None and a.kind == "seq" and len(a.args) == 2:
          sinks.append((as_poly(a.args[1]), e))
          return
        if a is not None and a.kind in ("sym", "mut"):
          return                # a list assembled by the appends collected below
      sinks.append((v, e))

    for e in w.events:
      if e.kind == "return" and e.node is not None and not (isinstance(e.data["value"], Const) and e.data["value"].v is None):
        add(e.data["value"], e)
      if e.kind == "mutate" and e.data["method"] == "append" and e.data["args"] and isinstance(e.data["args"][0], Seq) and len(e.data["args"][0].items) == 2:
        add(e.data["args"][0], e)
    done = set()
    for v, e in sinks:
      key = (id(e.node), re.sub(r"#\d+|u\(\d+\)|bv\('\w+'\)", "#", repr(v)))
      if key in done:
        continue
      done.add(key)
      line = getattr(e.node, "lineno", 0)
      con = "p-value at line %d" % line
      con = "p-value `%s`" % norm(e.node)[:70] if e.node is not None else con
      if isinstance(v, Const):
        ok = isinstance(v.v, (int, float)) and 0 <= v.v <= 1
        ctx.record(R, f.where, con, ok, "constant %r" % (v.v,))
        continue
      a = as_poly(v).as_atom()
      if a is not None and a.kind == "call" and isinstance(a.args[0], Poly) and a.args[0].as_atom() is not None and a.args[0].as_atom().kind == "lit" and ":" in str(a.args[0].as_atom().args[0]):
        tgt = str(a.args[0].as_atom().args[0])
        modn, fn = tgt.split(":")
        try:
          g = repo.func(modn, fn)
        except Exception:
          g = None
        if g is None:
          ctx.incomplete(R, f.where, con, "delegates to %s, which does not resolve" % tgt)
          continue
        todo.append(g)
        ctx.ok(R, f.where, con, "delegates to %s (held to the same rule)" % tgt)
        continue
      if a is not None and a.kind == "idx" and isinstance(a.args[0], Poly) and a.args[0].as_atom() is not None and a.args[0].as_atom().kind == "ref":
        ref = str(a.args[0].as_atom().args[0])
        modn, _, cn = ref.rpartition(".")
        tab = None
        try:
          tab = fold.try_fold(repo.mod(modn).consts.get(cn))
        except Exception:
          tab = None
        if not isinstance(tab, (list, tuple)) or not tab:
          ctx.incomplete(R, f.where, con, "table %s cannot be folded" % ref)
          continue
        bad = [t for t in tab if not (isinstance(t, (int, float)) and 0 <= t <= 1)]
        ctx.record(R, f.where, con, not bad, "entry of %s: all %d entries in [0, 1]" % (cn, len(tab)) if not bad else "table %s has entries outside [0, 1]: %r" % (cn, bad[:3]))
        continue
      lo, hi = interval(v)
      if a is not None and a.kind == "math.erfc":
        arg = as_poly(a.args[0])
        # erfc(|x| / scale): the numerator chain must be non-negative; a scale whose sign is not derivable is reported with the verdict
        num, scales = arg, []
        while num.as_atom() is not None and num.as_atom().kind == "tdiv":
          scales.append(as_poly(num.as_atom().args[1]))
          num = as_poly(num.as_atom().args[0])
        okn = nonneg(num)
        unproved = [s_ for s_ in scales if not nonneg(s_)]
        if okn:
          ctx.ok(R, f.where, con, "erfc of a non-negative quotient |x| / scale" + ("" if not unproved else " (scale taken as positive: %s)" % "; ".join(repr(s_)[:60] for s_ in unproved)))
        else:
          ctx.violation(R, f.where, con, "erfc is applied to a value that can be negative (%s): the result ranges over [0, 2]" % repr(num)[:120])
        continue
      if lo >= 0 and hi <= 1:
        ctx.ok(R, f.where, con, "enclosed in [%g, %g] by construction" % (lo, hi))
      else:
        ctx.violation(R, f.where, con, "assembled by floating-point arithmetic with enclosure [%g, %g] and not clamped: truncation of the series and rounding can take it outside [0, 1] (%s)" % (lo, hi, repr(v)[:100]))
  ctx.note("R-C12-RANGE followed %d functions from the registry" % nfun)


# ------------------------------------------------------------------ rank test: the matrices are the consecutive disjoint groups of r rows
def rule_rank_blocks(ctx):
  """NIST 2.5.4: the sequence is cut into N = floor(n / (M*Q)) disjoint matrices of M consecutive rows; matrix i consists of rows [i*r, (i+1)*r).
  By value: what is handed to util.BinaryMatrixRank on pass k of the loop is rows[lo:hi] with lo = k*r, hi - lo = r, and the loop makes len(rows) // r
  passes (whatever the loop counts: matrices or starting rows)."""
  R = "R-C12-CONSIST"
  repo = ctx.repo
  f = repo.func(MOD, "BinaryMatrixRankImpl")
  w = sym.Walker(repo, f)
  w.run()
  rows, r = P("param", f.params()[0]), P("param", f.params()[1])
  N = sym.mk("fdiv", sym.mk("len", rows), r)
  calls = [e for e in w.events if e.kind == "call" and str(e.data["name"]).endswith("util:BinaryMatrixRank") and e.data["args"]]
  probs = []
  if not calls:
    ctx.incomplete(R, f.where, "matrix i = rows[i*r:(i+1)*r]", "no call of util.BinaryMatrixRank")
    return
  for e in calls:
    a = as_poly(e.data["args"][0]).as_atom() if not isinstance(e.data["args"][0], (Seq, Const, tuple)) else None
    if a is None or a.kind != "slice" or len(a.args) != 4 or as_poly(a.args[0]) != rows or repr(a.args[3]) != "lit('None')":
      probs.append("the matrix handed to the rank routine is not a slice of consecutive rows: %r" % (e.data["args"][0],))
      continue
    lo = Poly.const(0) if repr(a.args[1]) == "lit('None')" else as_poly(a.args[1])
    hi = as_poly(a.args[2]) if repr(a.args[2]) != "lit('None')" else None
    vis = None
    for info in w.loop_info.values():
      for v_ in info.get("visits", []):
        ka = as_poly(v_["k"]).as_atom()
        if ka is not None and any(t_ == ka for t_ in lo.all_atoms()):
          vis = v_
    if hi is None or not (hi - lo - r).is_zero():
      probs.append("a matrix has %r rows, not r" % ((hi - lo) if hi is not None else "all remaining",))
    if vis is None:
      probs.append("the first row of a matrix does not depend on the pass of the loop")
      continue
    k = as_poly(vis["k"])
    if not (lo - k * r).is_zero():
      probs.append("matrix number k starts at row %r, not at k*r (matrices must be disjoint and consecutive)" % (lo,))
    it = as_poly(vis["iter"]).as_atom() if isinstance(vis["iter"], Poly) else None
    passes = None
    if it is not None and it.kind == "range":
      if len(it.args) == 1:
        passes = as_poly(it.args[0])
      elif len(it.args) == 3 and as_poly(it.args[0]).is_zero() and (as_poly(it.args[1]) - as_poly(it.args[2]) * N).is_zero():
        passes = N
      elif len(it.args) == 2 and as_poly(it.args[0]).is_zero():
        passes = as_poly(it.args[1])
    if passes is None or not (passes - N).is_zero():
      probs.append("the loop does not make len(rows) // r passes (%r)" % (vis["iter"],))
  probs = sorted(set(probs))
  ctx.record(R, f.where, "matrix i = rows[i*r:(i+1)*r], i < len(rows) // r", not probs, "; ".join(probs) or "disjoint consecutive groups of r rows, all full groups used")


# ------------------------------------------------------------------ random excursions: cycles and the visits counted in them
def rule_cycles(ctx):
  """NIST 2.14 / 2.15: the walk S_k = sum of the +-1 digits is cut into cycles at its zeros; for every cycle the visits to each state x with 0 < |x| <= band
  are counted.  Read off the digit loop by roles (no names): the walk variable is the one the digit is added to, the current cycle is the modified variable
  that starts as an empty counter, the cycle list the one that starts as an empty list.  For every new state S' (evaluated on a grid around the band with
  band = max(max_state, max_state_variant)) the pass that is taken must: outside the band leave the counters alone; inside, off zero, add 1 to the current
  cycle's entry S' - and nothing else; at zero append the *current* cycle and replace it by a fresh empty counter (appending without replacing makes all
  cycles one shared object).  After the loop the last (open) cycle is appended once."""
  R = "R-C12-CYCLES"
  repo = ctx.repo
  f = repo.func(MOD, "RandomWalk")
  w = sym.Walker(repo, f)
  w.run()
  bits, n = P("param", f.params()[0]), P("param", f.params()[1])
  want_iter = sym.mk("call", P("lit", "randomness_tests.util:Bits"), bits, n)
  loops = [i for i in w.loop_info.values() if isinstance(i["node"], ast.For) and i.get("visits") and isinstance(i["visits"][0]["iter"], Poly) and i["visits"][0]["iter"] == want_iter]
  if len(loops) != 1:
    ctx.incomplete(R, f.where, "digit loop", "expected one loop over util.Bits(bits, n), found %d" % len(loops))
    return
  info = loops[0]
  probs = []
  def is_counter(v):
    a = v.as_atom() if isinstance(v, Poly) else None
    return a is not None and (a.kind == "emptydict" or (a.kind == "defaultdict" and len(a.args) == 1 and repr(a.args[0]) == "glob('int')"))
  for vis in info["visits"]:
    head, pre = vis["head"].env, vis["pre_env"]
    el = sym.mk("idx", want_iter, as_poly(vis["k"]))
    D = [v_ for v_ in info["modified"] if is_counter(pre.get(v_))]
    C = [v_ for v_ in info["modified"] if isinstance(pre.get(v_), Seq) and not pre[v_].items and pre[v_].kind == "list"]
    W = []
    for kind, val, s_, since, v2 in info["body_paths"]:
      if v2 is not vis:
        continue
      for v_ in info["modified"]:
        hv, ev_ = head.get(v_), s_.env.get(v_)
        if isinstance(hv, Poly) and isinstance(ev_, Poly) and (ev_ - hv - el).is_zero() and v_ not in W:
          W.append(v_)
    if len(D) != 1 or len(C) != 1 or len(W) != 1:
      ctx.incomplete(R, f.where, "digit loop", "cannot identify the walk, the current cycle and the cycle list (%s, %s, %s)" % (W, D, C))
      return
    D, C, W = D[0], C[0], W[0]
    if not (isinstance(pre.get(W), (Poly, Const, int)) and as_poly(pre[W]).is_zero()):
      probs.append("the walk does not start at S_0 = 0")
    S1 = as_poly(head[W]) + el
    ms = [P("param", x_) for x_ in f.params() if x_ in ("max_state", "max_state_variant")]
    syms = sorted({t_ for kind, val, s_, since, v2 in info["body_paths"] if v2 is vis for c_, pol, node in s_.pc[len(vis["head"].pc):]
                   for q_ in sym._cond_polys(c_) if isinstance(q_, Poly) for t_ in q_.all_atoms() if t_.kind == "sym" and t_ != as_poly(head[W]).as_atom()}, key=repr)
    band = 9
    n_pts = 0
    for sv in range(-band - 3, band + 4):
      for dig in (1, -1):
        for other in (-30, 0, 30):
          env = {el.as_atom(): dig, as_poly(head[W]).as_atom(): sv - dig}
          for x_ in ms:
            env[x_.as_atom()] = 4 if str(x_.as_atom().args[0]) == "max_state" else band
          for t_ in syms:
            env[t_] = other
          val_ = regions.Valuation(env)
          taken = []
          for bp in info["body_paths"]:
            if bp[4] is not vis:
              continue
            try:
              if all(regions.eval_cond(c_, val_) == pol for c_, pol, node in bp[2].pc[len(vis["head"].pc):]):
                taken.append(bp)
            except regions.Unknown as u:
              ctx.incomplete(R, f.where, "digit loop", "a branch condition of the digit loop is not evaluable on the grid: %s" % u)
              return
          if len(taken) != 1:
            probs.append("for the new state %d, %d passes of the loop body are possible" % (sv, len(taken)))
            continue
          n_pts += 1
          kind, val, s_, since, v2 = taken[0]
          evs = [w.events[i_] for i_ in s_.trace[since:]]
          stores = [e for e in evs if e.kind == "store" and isinstance(e.data.get("base"), Poly) and e.data["base"] == as_poly(head[D])]
          other_stores = [e for e in evs if e.kind == "store" and e not in stores]
          apps = [e for e in evs if e.kind == "mutate" and e.data["method"] == "append" and isinstance(e.data.get("recv"), Poly) and e.data["recv"] == as_poly(head[C])]
          dend, cend = s_.env.get(D), s_.env.get(C)
          if kind not in ("fall", "continue"):
            probs.append("the digit loop is left by `%s` at state %d" % (kind, sv))
            continue
          if abs(sv) > band or sv == 0:
            if stores or other_stores:
              probs.append("a visit is counted for the state %d (%s)" % (sv, "outside the band" if sv else "the zero that closes the cycle"))
          else:
            ok_store = len(stores) == 1 and not other_stores and as_poly(stores[0].data["index"]) == S1 and \
                (as_poly(stores[0].data["value"]) - sym.mk("idx", as_poly(head[D]), S1) - 1).is_zero()
            if not ok_store:
              probs.append("the visit to state %d (inside the band) is not counted once in the current cycle under that state" % sv)
          if sv == 0:
            if len(apps) != 1 or not (isinstance(apps[0].data["args"][0], Poly) and apps[0].data["args"][0] == as_poly(head[D])):
              probs.append("a zero of the walk does not append the current cycle to the cycle list")
            if not is_counter(dend):
              probs.append("after a zero of the walk the current cycle is not replaced by a fresh empty counter (%r): the cycles share one object" % (dend,))
          else:
            if apps or not (isinstance(cend, Poly) and cend == as_poly(head[C])):
              probs.append("the cycle list changes at the non-zero state %d" % sv)
            if sv != 0 and abs(sv) > band and not (isinstance(dend, Poly) and dend == as_poly(head[D])):
              probs.append("the current cycle changes at state %d outside the band" % sv)
    # after the loop: the open cycle is appended once
    aft = vis.get("after_env") or {}
    tail = [e for e in w.events if e.kind == "mutate" and e.data["method"] == "append" and isinstance(e.data.get("recv"), Poly) and isinstance(aft.get(C), Poly) and
            e.data["recv"] == aft[C]]
    if len({id(e.node) for e in tail}) != 1 or not all(isinstance(e.data["args"][0], Poly) and isinstance(aft.get(D), Poly) and e.data["args"][0] == aft[D] for e in tail):
      probs.append("the cycle that is open when the digits end is not appended exactly once after the loop")
  probs = sorted(set(probs))
  ctx.record(R, f.where, "cycles cut at the zeros of the walk; visits counted per cycle and state inside the band", not probs, "; ".join(probs[:4]) or
             "evaluated for the new states -12 .. 12 with band 9: count once inside the band, close and renew the cycle at zero, ignore the rest; last cycle appended")


# ------------------------------------------------------------------ rank distribution of a random r x c matrix (column by column)
def rule_rankdp(ctx):
  """P(rank = j) of a random binary matrix, built column by column: a new column lies in the span of the previous ones (dimension j) with probability
  2^(j - r), so   new[j + 1] = old[j + 1] + old[j] * (1 - 2^(j - r)),   new[j] = old[j] * 2^(j - r),   from old = (1, 0, .., 0), once per column.
  Updating in place is right only from the top rank downwards (the pass for j reads old[j] before it is scaled and has finished with old[j + 1]).  The
  result lists the k highest ranks from the top and lumps the rest: [res[r], res[r-1], .., res[r-k+1], sum(res[0 .. r-k])]."""
  R = "R-C12-RANKDP"
  repo = ctx.repo
  f = repo.func(MOD, "RankDistribution")
  w = sym.Walker(repo, f)
  w.run()
  r, c, k = [P("param", x_) for x_ in f.params()[:3]]
  fors = sorted([i for i in w.loop_info.values() if isinstance(i["node"], ast.For) and i.get("visits")], key=lambda i: i["node"].lineno)
  if len(fors) != 2:
    ctx.incomplete(R, f.where, "column / rank recurrence", "expected a loop over the columns and one over the ranks, found %d loops" % len(fors))
    return
  outer, inner = fors
  probs = []
  one = (P("lit", "1.0"), Poly.const(1))
  for vis in outer["visits"]:
    if not (isinstance(vis["iter"], Poly) and vis["iter"] == sym.mk("range", c)):
      probs.append("the recurrence is not applied once per column (range(c)): %r" % (vis["iter"],))
    pre = [v_ for v_ in vis["pre_env"].values() if isinstance(v_, Poly) and v_.as_atom() is not None and v_.as_atom().kind == "upd"]
    okinit = False
    for v_ in pre:
      a = v_.as_atom()
      if len(a.args) == 3 and a.args[0] == sym.mk("listrep", P("seq", Poly.const(0)), r + 1) and as_poly(a.args[1]).is_zero() and any(as_poly(a.args[2]) == o_ for o_ in one):
        okinit = True
    if not okinit:
      probs.append("the distribution does not start as (1, 0, .., 0) over the ranks 0 .. r")
  n_paths = 0
  for kind, val, s_, since, vis in inner["body_paths"]:
    n_paths += 1
    if kind not in ("fall", "continue"):
      probs.append("the loop over the ranks is left by `%s`" % kind)
      continue
    stores = [w.events[i_] for i_ in s_.trace[since:] if w.events[i_].kind == "store" and not w.events[i_].data.get("synthetic")]
    if len(stores) != 2:
      probs.append("a pass over one rank makes %d updates, not two (res[j + 1] and res[j])" % len(stores))
      continue
    # by index: the lower one is j
    a_, b_ = stores
    ia, ib = as_poly(a_.data["index"]), as_poly(b_.data["index"])
    if (ia - ib - 1).is_zero():
      up, low, first_is_up = a_, b_, True
    elif (ib - ia - 1).is_zero():
      up, low, first_is_up = b_, a_, False
    else:
      probs.append("the two updates of a pass are not at neighbouring ranks (%r, %r)" % (ia, ib))
      continue
    J = as_poly(low.data["index"])
    old = as_poly(stores[0].data["base"])
    pd = sym.mk("pow", Poly.const(2), J - r)
    oj, oj1 = sym.mk("idx", old, J), sym.mk("idx", old, J + 1)
    vu, vl = as_poly(up.data["value"]), as_poly(low.data["value"])
    # the second store reads through the first one: idx(upd(old, i, v), i') with i' != i is old[i']
    def through(v):
      out = v
      for t_ in list(v.all_atoms()):
        if t_.kind == "idx" and isinstance(t_.args[0], Poly) and t_.args[0].as_atom() is not None and t_.args[0].as_atom().kind == "upd":
          ua = t_.args[0].as_atom()
          if ua.args[0] == old and (as_poly(ua.args[1]) - as_poly(t_.args[1])).as_int() not in (None, 0):
            out = sym.rebuild(out.deep_subst(t_, sym.mk("idx", old, as_poly(t_.args[1]))))
      return out
    vu, vl = through(vu), through(vl)
    if not (vu - (oj1 + oj * (1 - pd))).is_zero():
      probs.append("rank j + 1 does not receive old[j + 1] + old[j] * (1 - 2^(j - r)): %s" % repr(vu)[:120])
    if not (vl - oj * pd).is_zero():
      probs.append("rank j does not keep old[j] * 2^(j - r): %s" % repr(vl)[:120])
    it = vis["iter"]
    el = None
    if isinstance(it, Poly) and it == sym.mk("range", r - 1, Poly.const(-1), Poly.const(-1)):
      el = r - 1 - as_poly(vis["k"])
    elif isinstance(it, Poly) and it == sym.mk("reversed", sym.mk("range", r)):
      el = r - 1 - as_poly(vis["k"])
    if el is None or not (J - el).is_zero():
      probs.append("the ranks are not visited from r - 1 down to 0 (in-place update is exact only from the top): iterates %r, updates rank %r" % (it, J))
  if n_paths == 0:
    probs.append("no pass over the ranks found")
  probs = sorted(set(probs))
  ctx.record(R, f.where, "column step: new[j+1] = old[j+1] + old[j] (1 - 2^(j-r)), new[j] = old[j] 2^(j-r), j = r-1 .. 0, c times from (1, 0, .., 0)", not probs,
             "; ".join(probs[:3]) or "%d path(s) of the rank loop" % n_paths)
  # the result
  okr = False
  rets = [e for e in w.events if e.kind == "return" and e.node is not None and isinstance(e.data["value"], Poly) and any(t_.kind == "sym" for t_ in e.data["value"].all_atoms())]
  bad = []
  for e in rets:
    v = e.data["value"]
    fin = [Poly.atom(t_) for t_ in v.all_atoms() if t_.kind == "sym"]
    res_ = fin[0] if len(set(map(repr, fin))) == 1 else None
    if res_ is None:
      bad.append("the result mixes several lists")
      continue
    NONE_ = P("lit", "None")
    top = sym.mk("slice", sym.mk("slice", res_, -k, NONE_, NONE_), NONE_, NONE_, Poly.const(-1))
    rest = P("seq", sym.mk("sum", sym.mk("slice", res_, NONE_, -k, NONE_)))
    if not ((v - (top + rest)).is_zero() or v == sym.mk("concat", top, rest)):
      bad.append("the result is not res[-k:][::-1] + [sum(res[:-k])]: %s" % repr(v)[:140])
  okr = bool(rets) and not bad
  ctx.record(R, f.where, "result: the k highest ranks from the top, the rest lumped", okr, "; ".join(sorted(set(bad))[:2]) or "[res[r], .., res[r-k+1], sum(res[0 .. r-k])]")


# ------------------------------------------------------------------ DOMAIN (arguments that must stay inside the domain of the special functions)
def rule_domain(ctx):
  """Two places where a statistic leaves the domain of the function it is handed to on admissible input - the result is then not a p-value in [0, 1]
  but NaN or an exception:
  (1) Serial: the arguments of Igamc are first and second *differences* of the psi^2 values, each a rounded floating-point quotient.  A difference that
      is 0 in exact arithmetic can come out as -1e-16, and igamc(a, x) is NaN for x < 0: the difference must be clamped at 0 (max(0, .), abs).
  (2) Runs: the statistic is divided by 2 sqrt(2n) pi (1 - pi).  For pi in {0, 1} (a constant string) the divisor is 0; NIST 2.3.4 step 2 excludes
      these inputs by the frequency prerequisite |pi - 1/2| >= 2 / sqrt(n) -> p = 0, so the return must be dominated by a test on pi."""
  R = "R-C12-DOMAIN"
  repo = ctx.repo
  # (1) Serial
  f = repo.func(MOD, "Serial")
  w = sym.Walker(repo, f)
  w.run()
  seen = {}
  for e in w.events:
    if e.kind != "call" or not str(e.data["name"]).endswith(":Igamc") or len(e.data["args"]) < 2 or not isinstance(e.data["args"][1], Poly):
      continue
    x = e.data["args"][1]
    xa = x.as_atom()
    num = as_poly(xa.args[0]) if xa is not None and xa.kind == "tdiv" and as_poly(xa.args[1]).as_int() is not None and as_poly(xa.args[1]).as_int() > 0 else x
    na = num.as_atom()
    clamped = na is not None and (na.kind == "abs" or (na.kind == "max" and any(as_poly(a_).is_zero() for a_ in na.args)))
    signs = {c_ > 0 for c_ in num.t.values()} if na is None else {True}
    key = norm(e.node)[:70] if e.node is not None else "Igamc"
    # a two-term difference a - b of quantities computed by the same expression is exactly 0.0 whenever it is 0 in exact arithmetic (equal inputs give equal
    # floats) and non-negative otherwise up to the rounding of two close numbers of one sign pattern; a combination of three or more rounded terms
    # (a - 2b + c) has no such protection
    known = any(fc[0] == "cmp" and isinstance(fc[2], Poly) and isinstance(fc[3], Poly) and
                ((fc[1] in ("GtE", "Gt") and (fc[2] - fc[3] - num).is_zero()) or (fc[1] in ("LtE", "Lt") and (fc[3] - fc[2] - num).is_zero())) for fc in e.facts)
    if clamped or known or signs == {True} or len(num.t) < 3:
      seen.setdefault(key, None)
    else:
      seen[key] = ("the second argument of Igamc is the difference %s of rounded floating-point quantities and is not clamped at 0: where it is 0 in exact arithmetic it can "
                   "come out negative, and the p-value is NaN (e.g. Serial(0b101011, 12): m=2 p-value2)" % repr(num)[:110])
  if not seen:
    ctx.incomplete(R, f.where, "Igamc arguments", "no Igamc call found")
  for key, why in sorted(seen.items()):
    ctx.record(R, f.where, key, why is None, why or "argument clamped at 0 or free of differences")
  # (2) Runs
  f = repo.func(MOD, "Runs")
  w = sym.Walker(repo, f)
  w.run()
  bits, n = P("param", f.params()[0]), P("param", f.params()[1])
  pi = sym.mk("tdiv", sym.mk("call", P("lit", "randomness_tests.util:BitCount"), bits), n)
  n_div = 0
  probs = []
  for e in w.events:
    if e.kind != "return" or not isinstance(e.data.get("value"), Poly):
      continue
    for t_ in e.data["value"].all_atoms():
      if t_.kind != "tdiv" or pi.as_atom() not in as_poly(t_.args[1]).all_atoms():
        continue
      n_div += 1
      D = as_poly(t_.args[1])
      z0 = sym.rebuild(D.deep_subst(pi.as_atom(), Poly.const(0)))
      z1 = sym.rebuild(D.deep_subst(pi.as_atom(), Poly.const(1)))
      if not (z0.is_zero() or z1.is_zero()):
        continue
      guarded = any(pi.as_atom() in q_.all_atoms() for fc in e.facts for q_ in sym._cond_polys(fc) if isinstance(q_, Poly))
      if not guarded:
        probs.append("the statistic is divided by %s, which is 0 for a constant string (pi = 0 or 1), on a path with no test on pi: ZeroDivisionError instead of the "
                     "p-value 0 that SP 800-22 2.3.4 step 2 assigns when |pi - 1/2| >= 2 / sqrt(n) (e.g. Runs(0, 100))" % repr(D)[:90])
  if n_div == 0:
    ctx.incomplete(R, f.where, "divisor of the runs statistic", "no division by a term of pi = BitCount(bits) / n found")
  else:
    ctx.record(R, f.where, "divisor 2 sqrt(2n) pi (1 - pi) is excluded from vanishing", not probs, "; ".join(sorted(set(probs))) or "the return is dominated by a test on pi")


# ------------------------------------------------------------------ UNIVERSAL parameters (L by n, Q = 10 * 2^L)
def rule_universal_params(ctx):
  """NIST 2.9.7 gives L by n: n >= 387,840 -> L = 6, n >= 904,960 -> L = 7, ... - the row that applies is the last one n reaches (the reference
  implementation tests the bounds in ascending order and lets the last hit win; the worked example 2.9.8 has n = 10^6, L = 7, Q = 1280), and Q = 10 * 2^L.
  The terms handed to UniversalImpl are evaluated at every bound of the table (bound - 1, bound, bound + 1) and far above the last one."""
  R = "R-C12-LADDER"
  from pcstatic import termeval
  repo = ctx.repo
  f = repo.func(MOD, "Universal")
  w = sym.Walker(repo, f)
  w.run()
  calls = [e for e in w.events if e.kind == "call" and str(e.data["name"]).endswith(":UniversalImpl") and len(e.data["args"]) >= 4]
  if not calls:
    ctx.incomplete(R, f.where, "Universal: L by n", "no call of UniversalImpl with (bits, n, block size, q)")
    return
  mn = local_assign(f, "min_n")
  tab = fold.try_fold(mn[0].value) if len(mn) == 1 and isinstance(mn[0].value, ast.Dict) else None
  if not isinstance(tab, dict) or not tab:
    ctx.incomplete(R, f.where, "Universal: L by n", "min_n is not a literal dict")
    return
  n = P("param", f.params()[1])
  bounds = sorted(tab.values())
  samples = sorted({b + d for b in bounds for d in (-1, 0, 1)} | {bounds[-1] * 4, (bounds[0] + bounds[1]) // 2})
  probs, und = [], []
  n_eval = 0
  for e in calls:
    for nv in samples:
      env = {n.as_atom(): nv}
      try:
        if not all(termeval.cond(fc, env) for fc in e.facts if fc[0] in ("cmp", "truthy", "falsy", "not", "and", "or")):
          continue                                  # the call is not reached with this n (insufficient data, another branch)
      except (termeval.Unknown, termeval.Raises):
        pass
      want = max(L for L, b in tab.items() if b <= nv) if nv >= bounds[0] else None
      if want is None:
        probs.append("UniversalImpl is reached with n = %d, below the smallest admissible size %d" % (nv, bounds[0]))
        continue
      try:
        L = termeval.ev(as_poly(e.data["args"][2]), env)
        q = termeval.ev(as_poly(e.data["args"][3]), env)
      except termeval.Unknown as u:
        und.append(str(u))
        break
      except termeval.Raises as u:
        n_eval += 1
        if len(probs) < 3:
          probs.append("with n = %d (SP 800-22 2.9.7: L = %d) the selection has no value: %s" % (nv, want, u))
        continue
      n_eval += 1
      if L != want and len(probs) < 3:
        probs.append("with n = %d the block size is L = %r; SP 800-22 2.9.7 assigns L = %d (the last row of the table with bound <= n: %d <= n%s)" % (
            nv, L, want, tab[want], " < %d" % tab[want + 1] if want + 1 in tab else ""))
      elif L == want and q != 10 * 2 ** want and len(probs) < 3:
        probs.append("with n = %d (L = %d) the initialisation segment is Q = %r blocks, not 10 * 2^L = %d" % (nv, want, q, 10 * 2 ** want))
  if und and not probs:
    ctx.incomplete(R, f.where, "Universal: L by n", "the block size / q handed to UniversalImpl cannot be evaluated as a term over n (%s)" % und[0])
    return
  ctx.record(R, f.where, "Universal: L = last table row with bound <= n, Q = 10 * 2^L", not probs, "; ".join(probs) or
             "evaluated at %d sizes around the %d bounds: the largest admissible L and Q = 10 * 2^L everywhere" % (n_eval, len(bounds)))


# ------------------------------------------------------------------ BLOCK (block size of the frequency-within-block test)
def rule_block(ctx):
  """NIST 2.2.7 (quoted in the source): block size M >= 20 and M > n / 100, i.e. fewer than 100 blocks.  The doubling loop must continue exactly while
  n // m >= 100 (one doubling less leaves N = 100 blocks and another p-value; one more halves the number of blocks), and the result is max(20, m)."""
  R = "R-C12-LADDER"
  repo = ctx.repo
  f = repo.func(MOD, "BlockFrequency")
  w = sym.Walker(repo, f)
  w.run()
  n = P("param", f.params()[1])
  loops = [i_ for i_ in w.loop_info.values() if isinstance(i_["node"], ast.While) and i_["visits"]]
  if len(loops) != 1:
    ctx.incomplete(R, f.where, "block size ladder", "expected one doubling loop")
    return
  info = loops[0]
  vis = info["visits"][0]
  ms = [nm for nm in info["modified"] if isinstance(vis["head"].env.get(nm), Poly) and vis["head"].env[nm].as_atom() is not None and vis["head"].env[nm].as_atom().kind == "sym"]
  probs = []
  if len(ms) != 1:
    ctx.incomplete(R, f.where, "block size ladder", "block size variable not identified")
    return
  mh = vis["head"].env[ms[0]]
  pre = vis["pre_env"].get(ms[0])
  start = as_poly(pre).as_int() if pre is not None and not isinstance(pre, (Seq, tuple)) else None
  if start is None or start < 1 or start > 20:
    probs.append("the ladder starts at %r (NIST: M >= 20, so at most 20)" % (pre,))
  for kind, val, s_, since, v_ in info["body_paths"]:
    if kind != "fall" or not isinstance(s_.env.get(ms[0]), Poly) or s_.env[ms[0]] != mh * 2:
      probs.append("a pass does not double the block size")
  c = w.cond(info["node"].test, vis["head"])
  bad = None
  for mv in (16, 32, 64, 1024, 16384):
    for nv in (99 * mv, 100 * mv - 1, 100 * mv, 100 * mv + 1, 100 * mv + mv - 1, 101 * mv, 50 * mv):
      try:
        got = regions.eval_cond(c, regions.Valuation({n.as_atom(): nv, mh.as_atom(): mv}))
      except regions.Unknown as u:
        ctx.incomplete(R, f.where, "block size ladder", "loop condition not evaluable: %s" % u)
        return
      want = nv // mv >= 100
      if got != want and bad is None:
        bad = "at n = %d, m = %d the loop %s although n // m = %d: %s" % (nv, mv, "continues" if got else "stops", nv // mv,
              "the test runs with 100 blocks of n / 100 bits (NIST: M > n / 100)" if not got else "the block size is doubled once too often")
  if bad:
    probs.append(bad)
  # the block size used: max(20, m after the loop)
  after = vis["after_env"].get(ms[0])
  calls = [e for e in w.events if e.kind == "call" and e.data["name"].endswith(":SplitSequence") and len(e.data["args"]) >= 3]
  def is_max(arg, a_, b_, facts):
    """arg is max(a_, b_): as a value, or chosen by a branch whose test orders the two"""
    if arg == sym.mk("max", a_, b_) or arg == sym.mk("max", b_, a_):
      return True
    def le(x_, y_):          # the path knows x_ <= y_
      for fc in facts:
        if fc[0] == "cmp" and isinstance(fc[2], Poly) and isinstance(fc[3], Poly):
          d_ = fc[2] - fc[3]
          if (fc[1] in ("Lt", "LtE") and (d_ - (x_ - y_)).is_zero()) or (fc[1] in ("Gt", "GtE") and (d_ - (y_ - x_)).is_zero()):
            return True
      return False
    return (arg == a_ and le(b_, a_)) or (arg == b_ and le(a_, b_))
  if not calls or not all(isinstance(e.data["args"][2], Poly) and isinstance(after, Poly) and is_max(e.data["args"][2], Poly.const(20), after, e.facts) for e in calls):
    probs.append("the block size is not max(20, m)")
  ctx.record(R, f.where, "block size ladder: doubled while n // m >= 100, at least 20", not probs, "; ".join(sorted(set(probs))) or "M = max(20, least 16 * 2^j with n // M < 100)")


# ------------------------------------------------------------------ OVERLAP (overlapping template matching, 2.8)
def rule_overlap(ctx):
  """The overlapping-template p-value is a chi-square of the tallies against the exact distribution of the number of (overlapping) runs of m ones in a
  block, computed from a Markov chain.  Decided on structure: (1) the transition matrix (write table, instantiated at (m, k) = (2,2), (3,2), (2,3)) is the
  chain 'state = occurrences * m + current run, capped': a 0 bit goes to (occurrences, 0), a 1 bit lengthens the run, and at run m-1 counts one more
  occurrence keeping the run (absorbing once k occurrences are reached); (2) the distribution is the block sums of row 0 of the n-th matrix power, one
  per occurrence count 0..k; (3) the test tallies min(K, count) with K = 5 over the blocks, takes the distribution for the block length and K and returns
  ChiSquare(tallies, distribution, K); (4) defaults m = 9, block length 2^(m+1) + m - 1 (= 1032), each block cut by SplitSequence."""
  from pcstatic import wtable
  R = "R-C12-OVERLAP"
  repo = ctx.repo
  U = "randomness_tests.util:"
  # ---- (1) matrix
  f = repo.func(MOD, "OverlappingTemplateMatchingMatrix")
  w = sym.Walker(repo, f)
  w.run()
  pm, pk = P("param", f.params()[0]), P("param", f.params()[1])
  probs, und = [], None
  rets = [t_ for t_ in w.terminals if t_[0] == "return" and wtable.feasible(t_[2])]
  if not rets:
    und = "no matrix is returned"
  HALF, ONE = P("lit", "0.5"), P("lit", "1.0")
  for kind, val, st in rets:
    try:
      tab = wtable.extract(w, st, val)
      for m_, k_ in ((2, 2), (3, 2), (2, 3)):
        grid = wtable.instantiate(tab, [(pm.as_atom(), m_), (pk.as_atom(), k_)])
        size = k_ * m_ + 1
        zero = Poly.const(0)
        spec = [[zero] * size for _ in range(size)]
        for occ in range(k_):
          for run in range(m_):
            i = occ * m_ + run
            spec[i][occ * m_] = spec[i][occ * m_] + HALF
            if run + 1 < m_:
              j = i + 1
            elif occ + 1 < k_:
              j = (occ + 1) * m_ + run
            else:
              j = k_ * m_
            spec[i][j] = spec[i][j] + HALF
        spec[k_ * m_][k_ * m_] = ONE
        bad = None
        if len(grid) != size or any(len(r_) != size for r_ in grid):
          bad = "shape %dx%d, expected %dx%d" % (len(grid), len(grid[0]) if grid else 0, size, size)
        else:
          for i in range(size):
            for j in range(size):
              if bad is None and not (as_poly(grid[i][j]) - as_poly(spec[i][j])).is_zero():
                bad = "P[state %d -> state %d] is %r, the chain has %r" % (i, j, grid[i][j], spec[i][j])
        if bad:
          probs.append("m = %d, k = %d: %s" % (m_, k_, bad))
          break
    except Incomplete as ex:
      und = str(ex)
    except IndexError as ex:
      probs.append(str(ex))
  if und:
    ctx.incomplete(R, f.where, "transition matrix of the run-counting chain", und)
  else:
    ctx.record(R, f.where, "transition matrix of the run-counting chain", not probs, "; ".join(sorted(set(probs))) or
               "0 bit -> (occ, 0); 1 bit -> run + 1, or one more occurrence at run m-1; absorbing at k occurrences; checked at (m, k) = (2,2), (3,2), (2,3)")
  # ---- (2) distribution
  f = repo.func(MOD, "OverlappingTemplateMatchingDistribution")
  w = sym.Walker(repo, f)
  w.run()
  pn, pm, pk = (P("param", x) for x in f.params()[:3])
  probs = []
  rets = [t_[1] for t_ in w.terminals if t_[0] == "return"]
  mat = _call(MOD + ":OverlappingTemplateMatchingMatrix", pm, pk)
  ok_ = False
  for v in rets:
    a_ = as_poly(v).as_atom() if isinstance(v, Poly) else None
    if a_ is None or a_.kind != "map" or len(a_.args) != 3:
      continue
    bv = Poly.atom(a_.args[1])
    src = as_poly(a_.args[2]).as_atom()
    el = as_poly(a_.args[0]).as_atom()
    cnt_ = None
    if src is not None and src.kind == "range":
      ra_ = [as_poly(x) for x in src.args]
      cnt_ = ra_[0] if len(ra_) == 1 else (ra_[1] - ra_[0] if len(ra_) == 2 or (len(ra_) == 3 and ra_[2].as_int() == 1) else None)
    if cnt_ is None or not (cnt_ - pk - 1).is_zero():
      probs.append("the distribution does not have one entry per occurrence count 0 .. k")
      continue
    if el is None or el.kind != "sum":
      probs.append("an entry is not a sum of state probabilities")
      continue
    sl = as_poly(el.args[0]).as_atom()
    if sl is None or sl.kind != "slice" or not ((as_poly(sl.args[1]) - bv * pm).is_zero() and (as_poly(sl.args[2]) - (bv + 1) * pm).is_zero() and repr(sl.args[3]) == "lit('None')"):
      probs.append("entry i does not sum the states i*m .. (i+1)*m - 1")
      continue
    row = as_poly(sl.args[0]).as_atom()
    pw = as_poly(row.args[0]).as_atom() if row is not None and row.kind == "idx" and as_poly(row.args[1]).is_zero() else None
    if pw is None or pw.kind != "extcall" or "matrix_power" not in repr(pw.args[0]) or as_poly(pw.args[1]) != mat or as_poly(pw.args[2]) != pn:
      probs.append("the state probabilities are not row 0 (start state) of the n-th power of the transition matrix for (m, k)")
      continue
    ok_ = True
  if not ok_ and not probs:
    probs.append("the distribution is not [sum(row_0[i*m:(i+1)*m]) for i in 0..k]")
  ctx.record(R, f.where, "distribution = block sums of row 0 of M^n", not probs, "; ".join(sorted(set(probs))) or "pi_i = P[i occurrences] for i < k, pi_k = P[>= k]")
  # ---- (3) the test
  f = repo.func(MOD, "OverlappingTemplateMatchingImpl")
  w = sym.Walker(repo, f)
  w.run()
  blocks, pn, pm = (P("param", x) for x in f.params()[:3])
  probs = []
  rets = [t_[1] for t_ in w.terminals if t_[0] == "return"]
  K = 5
  loops = [li for li in w.loop_info.values() if li["visits"] and isinstance(li["visits"][0]["iter"], Poly) and li["visits"][0]["iter"] == blocks]
  if len(loops) != 1 or not rets:
    ctx.record(R, f.where, "tallies of min(5, count) against the distribution", None, "expected one loop over the blocks and a result")
  else:
    li = loops[0]
    vis = li["visits"][0]
    cnt = _call(U + "OverlappingRunsOfOnes", sym.mk("idx", blocks, as_poly(vis["k"])), pm)
    sts = [e for e in w.events if e.kind == "store" and li["node"] in [None] + [n_ for n_ in ast.walk(li["node"])] and any(x is e.node for x in ast.walk(li["node"]))]
    tv = None
    for e in sts:
      idx_ = as_poly(e.data["index"])
      want_i = sym.mk("min", *sorted([Poly.const(K), cnt], key=repr))
      alt_i = sym.mk("min", Poly.const(K), cnt)
      if not ((idx_ - want_i).is_zero() or (idx_ - alt_i).is_zero() or idx_ == sym.mk("min", cnt, Poly.const(K))):
        probs.append("a block is tallied under %r, not under min(5, number of runs of m ones)" % (idx_,))
      if not (as_poly(e.data["value"]) - sym.mk("idx", as_poly(e.data["base"]), idx_) - 1).is_zero():
        probs.append("a tally is not incremented by one")
      tv = [n_ for n_, x_ in vis["head"].env.items() if isinstance(x_, Poly) and x_ == as_poly(e.data["base"])]
    if not sts:
      probs.append("no tally is kept per block")
    if tv:
      pre = vis["pre_env"].get(tv[0])
      if not (isinstance(pre, Poly) and pre == sym.mk("listrep", P("seq", Poly.const(0)), Poly.const(K + 1))):
        probs.append("the tallies do not start as %d zeros" % (K + 1))
      after = vis["after_env"].get(tv[0])
      dist = _call(MOD + ":OverlappingTemplateMatchingDistribution", pn, pm, Poly.const(K))
      # the distribution may be taken from a memo filled in this very function under the same key (R-C12-PURE decides whether the key is complete)
      memo = [sym.mk("idx", as_poly(e.data["base"]), as_poly(e.data["index"])) for e in w.events
              if e.kind == "store" and isinstance(e.data["value"], Poly) and e.data["value"] == dist and not isinstance(e.data["index"], Seq)]
      memo += [sym.mk("idx", as_poly(e.data["base"]), as_poly(e.data["index"])) for e in w.events
               if e.kind == "store" and isinstance(e.data["value"], Poly) and e.data["value"] == dist and isinstance(e.data["index"], Seq)]
      for rv in rets:
        okr = isinstance(rv, Poly) and isinstance(after, Poly) and any(rv == _call(MOD + ":ChiSquare", after, d_, Poly.const(K)) for d_ in [dist] + memo)
        if not okr:
          probs.append("the result is %r, not ChiSquare(tallies, Distribution(block length, m, 5), 5)" % (rv,))
    for kind, val, st_, since, v_ in li["body_paths"]:
      if v_ is vis and kind not in ("fall", "continue"):
        probs.append("the loop over the blocks is left early")
    ctx.record(R, f.where, "tallies of min(5, count) against the distribution", not probs, "; ".join(sorted(set(probs))) or "2.8.4 with K = 5: v[min(5, W_j)] += 1; chi-square against pi(block length, m, 5)")
  # ---- (4) defaults and block cutting
  f = repo.func(MOD, "OverlappingTemplateMatching")
  w = sym.Walker(repo, f)
  w.run()
  bits, pn, pm, pb = (P("param", x) for x in f.params()[:4])
  probs = []
  n_ret = 0
  for kind, val, st in w.terminals:
    if kind != "return":
      continue
    n_ret += 1
    m_none = any(fc[0] == "cmp" and fc[1] == "Is" and isinstance(fc[2], Poly) and fc[2] == pm for fc in st.facts)
    b_none = any(fc[0] == "cmp" and fc[1] == "Is" and isinstance(fc[2], Poly) and fc[2] == pb for fc in st.facts)
    M_ = Poly.const(9) if m_none else pm
    B_ = (sym.mk("pow", Poly.const(2), M_ + 1) + M_ - 1) if b_none else pb
    want = _call(MOD + ":OverlappingTemplateMatchingImpl", _call(U + "SplitSequence", bits, pn, B_), B_, M_)
    if not (isinstance(val, Poly) and val == want):
      probs.append("with m %s and block_size %s the result is %r" % ("defaulted" if m_none else "given", "defaulted" if b_none else "given", val))
  if n_ret < 4:
    probs.append("fewer than four parameter combinations")
  ctx.record(R, f.where, "defaults m = 9, block length 2^(m+1) + m - 1; blocks cut at that length", not probs, "; ".join(sorted(set(probs))) or "2.8.7: m = 9, M = 1032; Impl(SplitSequence(bits, n, M), M, m)")
