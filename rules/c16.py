"""C16 - Verdict bookkeeping is faithful and monotone (typestate over the Check template)."""
from __future__ import annotations
import ast, re, os
from pcstatic import sym, fold
from pcstatic.core import Incomplete
from pcstatic.loader import norm, Cls
from pcstatic.poly import Poly, Atom, P
from pcstatic.sym import Const, Seq, as_poly
from . import template as T

META = {
    "level": "other",
    "trusted_base": ["Python ast parser", "protobuf scalar/repeated field semantics (append/add/attribute assignment)",
                     "pcstatic symbolic walker (path enumeration over structured control flow)"],
    "assumptions": ["Check methods are only reached through the template in base_check / paranoid._CheckArtifacts",
                    "protobuf messages have value semantics for scalar fields"],
    "explanation": ("Typestate / who-may-write analysis of every Check body of the package: per loop iteration "
                    "exactly one SetTestResult on the iteration's artifact with an entry created in the same "
                    "iteration, result/any_weak pairing, monotone update operators in util.SetTestResult, "
                    "severity = README table, registry completeness, whole-package writer scan."),
}

# documented exceptions (one line of reason each)
SHARED_ENTRY = {"ecdsa_sig_checks:CheckIssuerKey.Check":
                "one entry is shared by all signatures of one issuer key (entry created in the enclosing per-key loop)"}
SEVERITY_WRITES = {
    "rsa_single_checks:CheckLowHammingWeight.Check": "weak-without-factors is reported as SEVERITY_UNKNOWN",
    "ecdsa_sig_checks:CheckIssuerKey.Check": "issuer-key verdict carries the highest severity of the key's failed checks",
}


def artifact_root(p, artifacts):
  """p is `artifacts` or a filter of it -> True."""
  if p == artifacts:
    return True
  a = p.as_atom()
  if a is not None and a.kind == "filter" and a.args[0] == artifacts:
    return True
  if a is not None and a.kind == "map":   # identity map over a filter
    elt, bv, src = a.args
    if elt == sym.mk("idx", src, Poly.atom(bv)):
      return artifact_root(src, artifacts)
  return False


def strip_identity(p):
  """identity comprehension over F -> F."""
  a = p.as_atom() if isinstance(p, Poly) else None
  if a is not None and a.kind == "map" and a.args[0] == sym.mk("idx", a.args[2], Poly.atom(a.args[1])):
    return strip_identity(a.args[2])
  return p


def split_idx(p):
  a = p.as_atom() if isinstance(p, Poly) else None
  if a is not None and a.kind == "idx":
    return strip_identity(a.args[0]), a.args[1]
  return None


def aligned_with(y, artifacts):
  """Is the list term y index-aligned with (a sub-batch of) artifacts - the list itself, a comprehension over it, or a length-preserving helper applied
  to such a comprehension?  Returns the base list term F, or None."""
  if artifact_root(y, artifacts):
    return strip_identity(y)
  ya = y.as_atom()
  if ya is not None and ya.kind == "call" and len(ya.args) >= 2:
    # length-preserving helpers (summary proved by R-C03-DEDUP): BatchGCD
    if ya.args[0] == P("lit", "rsa_util:BatchGCD"):
      v = ya.args[1].as_atom()
      if v is not None and v.kind == "map" and artifact_root(v.args[2], artifacts):
        return strip_identity(v.args[2])
  if ya is not None and ya.kind == "map" and artifact_root(ya.args[2], artifacts):
    return strip_identity(ya.args[2])
  return None


def loop_covers(itv, artifacts):
  """Does the loop iterable enumerate every position of (a sub-batch of) artifacts?
  Returns the base list term F, or None."""
  p = as_poly(itv)
  if artifact_root(p, artifacts):
    return strip_identity(p)
  a = p.as_atom()
  if a is None:
    return None
  if a.kind == "enumerate":
    return aligned_with(a.args[0], artifacts)
  if a.kind == "range" and len(a.args) == 1:
    ln = a.args[0].as_atom()
    if ln is not None and ln.kind == "len":
      return aligned_with(ln.args[0], artifacts)
  return None


def weak_var(body):
  """The single local returned by the Check body."""
  names = set()
  for e in body.events:
    if e.kind == "return":
      n = e.node
      if n is None or n.value is None or not isinstance(n.value, ast.Name):
        return None
      names.add(n.value.id)
  return names.pop() if len(names) == 1 else None


def run(ctx):
  repo = ctx.repo
  bodies = T.bodies(repo)
  rule_once(ctx, bodies)
  rule_pair(ctx, bodies)
  rule_entry(ctx, bodies)
  rule_severity(ctx)
  rule_highest(ctx)
  rule_mono(ctx)
  rule_writers(ctx)
  rule_registry(ctx)
  rule_issuer(ctx, bodies)
  # "re-running checks never clears a recorded factor": AttachFactors merges with what is already recorded (shared with C01)
  from . import c01
  ctx.borrow(c01.rule_merge, "R-C16-MONO")
  T.rule_all_curves(ctx, "R-C16-ONCE")          # an artifact on a curve the loop never reaches gets no entry at all
  # the aggregate RSA checks walk the result of BatchGCD: it must hold one entry per input value, in input order, on every path (shared with C03)
  from . import c03
  ctx.borrow(c03.rule_dedup, "R-C16-ONCE")
  ctx.expect("R-C16-ONCE", 31, "24 Check bodies + 4 loops over the curve table + BatchGCD one entry per input")
  ctx.expect("R-C16-PAIR", 24, "24 Check bodies")
  ctx.expect("R-C16-SEVERITY", 29 + 9 + 1, "29 registered classes + 9 README rows + GetHighestSeverity")
  ctx.expect("R-C16-MONO", 10, "six clauses of SetTestResult/AttachInfo + three of AttachFactors")
  ctx.expect("R-C16-REGISTRY", 5, "five registries")


# ------------------------------------------------------------------ ONCE
def rule_once(ctx, bodies):
  R = "R-C16-ONCE"
  for b in bodies:
    where = b.where()
    loops = b.result_loops()
    if not loops:
      ctx.violation(R, where, "result-loop", "no loop calling util.SetTestResult found")
      continue
    # SetTestResult outside any result loop?
    in_loops = set()
    problems = []
    n_paths = 0
    for info in loops:
      n = info["node"]
      encl = b.enclosing_loops(info)
      for kind, val, s, since, visit in info["body_paths"]:
        n_paths += 1
        evs = b.path_events(s, since)
        sets = [e for e in evs if e.kind == "call" and e.data["name"] == T.SET_RESULT]
        for e in sets:
          in_loops.add(id(e.node))
        if kind not in ("fall", "continue"):
          problems.append("a `%s` leaves the result loop before the remaining artifacts get their entry" % kind)
          continue
        if len(sets) == 0:
          if skipped_for_unknown_curve(s, since):
            continue
          problems.append("a path through one iteration records no result (path: %s)" % describe_pc(s, since))
          continue
        if len(sets) > 1:
          problems.append("a path through one iteration calls SetTestResult %d times" % len(sets))
          continue
        e = sets[0]
        tinfo, entry = (e.data["args"] + [None, None])[:2]
        # entry freshness
        ea = as_poly(entry).as_atom() if entry is not None else None
        if ea is None or ea.kind != "entry":
          problems.append("the entry passed to SetTestResult is not the value of self._CreateTestResult()")
          continue
        created_here = any(x.kind == "call" and x.data["name"] == "meth:" + T.CREATE and as_poly(x.data["value"]) == as_poly(entry)
                           for x in evs)
        if not created_here:
          if where in SHARED_ENTRY and encl:
            outer = encl[-1]
            ok_outer = False
            for v in outer.get("visits", []):
              oe = b.path_events(s, v["since"])
              if any(x.kind == "call" and x.data["name"] == "meth:" + T.CREATE and as_poly(x.data["value"]) == as_poly(entry) for x in oe):
                ok_outer = True
            if not ok_outer:
              problems.append("shared entry is not created in the enclosing iteration")
              continue
          else:
            problems.append("the entry passed to SetTestResult was created outside this iteration (stale/shared entry)")
            continue
        # artifact of this iteration
        base = T.is_attr_of(as_poly(tinfo), "test_info")
        si = split_idx(base) if base is not None else None
        if si is None or not artifact_root(si[0], b.artifacts):
          problems.append("SetTestResult target %r is not <artifact>.test_info of the batch" % (tinfo,))
          continue
        F, j = si
        cov = loop_covers(visit["iter"], b.artifacts)
        if where in SHARED_ENTRY:
          # inner loop ranges over the indices mapped to the key: checked by R-C16-ISSUER
          continue
        if cov is None:
          problems.append("result loop iterable %s does not enumerate the (sub)batch" % norm(n.iter))
          continue
        if cov != F:
          problems.append("loop ranges over %r but the result is set on an element of %r" % (cov, F))
          continue
        if j != visit["k"]:
          problems.append("result is set on element %r, not on the element of this iteration" % (j,))
          continue
    for e in b.calls(T.SET_RESULT):
      if id(e.node) not in in_loops:
        problems.append("SetTestResult call outside the per-artifact loop")
    if problems:
      for p in sorted(set(problems)):
        ctx.violation(R, where, "iteration-typestate", p)
    else:
      ctx.ok(R, where, "iteration-typestate",
             "%d result loop(s), %d iteration paths: exactly one SetTestResult(<artifact k>.test_info, fresh entry)"
             % (len(loops), n_paths))


def skipped_for_unknown_curve(s, since):
  """The iteration records nothing because `curve is None` holds on its path (curve drawn from CURVE_FACTORY): read from the path facts, so
  `if curve is None: continue` and `if curve is not None: <block>` are the same thing."""
  for fc in s.facts:
    if fc[0] == "cmp" and fc[1] in ("Is", "Eq") and isinstance(fc[3], Const) and fc[3].v is None and not isinstance(fc[2], Seq):
      if "CURVE_FACTORY" in repr(as_poly(fc[2])):
        return True
  return False


def describe_pc(s, since):
  out = []
  for c, pol, node in s.pc[-3:]:
    if node is not None and hasattr(node, "test"):
      out.append(("" if pol else "not ") + norm(node.test)[:50])
  return " & ".join(out)


# ------------------------------------------------------------------ PAIR
def rule_pair(ctx, bodies):
  R = "R-C16-PAIR"
  for b in bodies:
    where = b.where()
    wv = weak_var(b)
    problems = []
    if wv is None:
      ctx.violation(R, where, "return", "Check does not return a single accumulator variable on every path")
      continue
    # initialisation and writes of the accumulator
    writes = [e for e in b.events if e.kind in ("assign", "augassign") and e.data["name"] == wv]
    seen_nodes = {}
    for e in writes:
      seen_nodes[id(e.node)] = e
    init_false = 0
    for e in seen_nodes.values():
      v = e.data["value"]
      in_loop = bool(e.state.tags)
      if e.kind == "assign":
        if isinstance(v, Const) and v.v is False and not in_loop:
          init_false += 1
        elif isinstance(v, Const) and v.v is True:
          pass
        else:
          problems.append("accumulator `%s` assigned a non-constant / False value: %s" % (wv, norm(e.node)))
      else:
        if not isinstance(e.node.op, ast.BitOr):
          problems.append("accumulator `%s` updated with a non-monotone operator: %s" % (wv, norm(e.node)))
    if init_false != 1:
      problems.append("accumulator `%s` is not initialised to False exactly once before the loops" % wv)
    n_paths = 0
    for info in b.result_loops():
      for kind, val, s, since, visit in info["body_paths"]:
        n_paths += 1
        evs = b.path_events(s, since)
        sets = [e for e in evs if e.kind == "call" and e.data["name"] == T.SET_RESULT]
        if len(sets) != 1:
          continue
        entry = as_poly(sets[0].data["args"][1]) if len(sets[0].data["args"]) > 1 else None
        pos_events = evs
        if where in SHARED_ENTRY:
          encl = b.enclosing_loops(info)
          if encl and encl[-1].get("visits"):
            pos_events = b.path_events(s, min(v["since"] for v in encl[-1]["visits"]))
        res_true = [e for e in pos_events if e.kind == "setattr" and e.data["attr"] == "result"
                    and as_poly(e.data["base"]) == entry]
        bad_val = [e for e in res_true if not (isinstance(e.data["value"], Const) and e.data["value"].v is True)]
        if bad_val:
          problems.append("entry.result assigned something other than True: %s" % norm(bad_val[0].node))
        other_entry = [e for e in evs if e.kind == "setattr" and e.data["attr"] == "result" and as_poly(e.data["base"]) != entry]
        if other_entry and where not in SHARED_ENTRY:
          problems.append("result flag set on an object that is not the entry recorded in this iteration")
        acc_true = [e for e in pos_events if e.kind in ("assign", "augassign") and e.data["name"] == wv]
        if bool(res_true) != bool(acc_true):
          problems.append("entry.result = True and `%s = True` are not on the same paths (%s)" %
                          (wv, "flag without return value" if res_true else "return value without flag"))
        # recorded evidence => positive entry
        att = [e for e in evs if e.kind == "call" and e.data["name"] in (T.ATTACH_FACTORS, T.ATTACH_INFO)]
        if att and not res_true:
          problems.append("evidence attached on a path that leaves the entry negative")
        # flag must be set before the entry is recorded?  (protobuf append copies by reference in python,
        # but an update path copies values) -> require order
        if res_true and sets:
          if b.events.index(res_true[-1]) > b.events.index(sets[0]) if False else False:
            problems.append("result set after SetTestResult")
    if problems:
      for p in sorted(set(problems)):
        ctx.violation(R, where, "flag-pairing", p)
    else:
      ctx.ok(R, where, "flag-pairing", "accumulator `%s`: init False, only set True; result flag and accumulator on identical paths (%d iteration paths)" % (wv, n_paths))
  # order: flag before record
  for b in bodies:
    where = b.where()
    bad = False
    for info in b.result_loops():
      for kind, val, s, since, visit in info["body_paths"]:
        idxs = s.trace[since:]
        evs = [(i, b.events[i]) for i in idxs]
        sets = [i for i, e in evs if e.kind == "call" and e.data["name"] == T.SET_RESULT]
        flags = [i for i, e in evs if e.kind == "setattr" and e.data["attr"] in ("result", "severity")]
        if sets and flags and max(flags) > min(sets):
          bad = True
    ctx.record("R-C16-ORDER", where, "flag-before-record", not bad,
               "entry fields are final before SetTestResult copies/appends them" if not bad else
               "entry.result/severity written after SetTestResult: an update path copies values, the write is lost")
  # _CheckArtifacts
  f = repo_func(ctx, "paranoid", "_CheckArtifacts")
  w = sym.Walker(ctx.repo, f)
  w.run()
  wv = None
  rets = [e for e in w.events if e.kind == "return"]
  if rets and all(e.node is not None and isinstance(e.node.value, ast.Name) for e in rets):
    names = {e.node.value.id for e in rets}
    wv = names.pop() if len(names) == 1 else None
  probs = []
  if wv is None:
    probs.append("does not return one accumulator")
  else:
    loop = [i for i in w.loop_info.values()
            if any(isinstance(x, ast.Call) and isinstance(x.func, ast.Attribute) and x.func.attr == "Check" for x in ast.walk(i["node"]))]
    if len(loop) != 1:
      probs.append("no single loop calling check.Check")
    else:
      info = loop[0]
      itv = as_poly(info["iter"])
      if itv != P("param", "check_items"):
        probs.append("loop does not range over the full check_items list")
      for kind, val, s, since, visit in info["body_paths"]:
        evs = [w.events[i] for i in s.trace[since:]]
        if kind not in ("fall", "continue"):
          probs.append("`%s` leaves the loop over checks" % kind)
        calls = [e for e in evs if e.kind == "call" and e.data["name"] == "meth:Check"]
        if len(calls) != 1:
          probs.append("an iteration runs %d Check calls" % len(calls))
          continue
        if not calls[0].data["args"] or as_poly(calls[0].data["args"][0]) != P("param", "artifacts"):
          probs.append("Check is not called with the full artifact list")
        res = as_poly(calls[0].data["value"])
        upd = [e for e in evs if e.kind in ("augassign", "assign") and e.data["name"] == wv]
        good = False
        for e in upd:
          if e.kind == "augassign" and isinstance(e.node.op, ast.BitOr) and as_poly(e.data["rhs"]) == res:
            good = True
          if e.kind == "assign" and or_of(e.node.value, wv):
            good = True
        if not good:
          probs.append("the check's result is not or-accumulated into `%s`" % wv)
    init = [e for e in w.events if e.kind == "assign" and e.data["name"] == wv and not e.state.tags]
    if not (len({id(e.node) for e in init}) == 1 and isinstance(init[0].data["value"], Const) and init[0].data["value"].v is False):
      probs.append("accumulator not initialised to False")
  ctx.record(R, f.where, "or-accumulation", not probs, "; ".join(sorted(set(probs))) or
             "any_weak |= check.Check(artifacts) for every (name, check), no exit")
  # entry points pass the complete registry
  m = ctx.repo.mod("paranoid")
  for ep, getter in (("CheckAllRSA", "GetRSAAllChecks"), ("CheckAllEC", "GetECAllChecks"), ("CheckAllECDSASigs", "GetECDSAAllChecks")):
    f = repo_func(ctx, "paranoid", ep)
    w = sym.Walker(ctx.repo, f)
    w.run()
    ok = True
    why = []
    rets = [e for e in w.events if e.kind == "return"]
    for e in rets:
      v = as_poly(e.data["value"]).as_atom()
      if not (v is not None and v.kind == "call" and v.args[0] == P("lit", "paranoid:_CheckArtifacts")):
        ok = False
        why.append("does not return _CheckArtifacts(...)")
        continue
      if v.args[1] != P("param", f.params()[0]):
        ok = False
        why.append("artifacts argument is not the caller's batch")
      want = sym.mk("pm_items", P("x"))
      a2 = repr(v.args[2])
      if "paranoid:%s" % getter not in a2 or "items" not in a2:
        ok = False
        why.append("check list is not %s().items()" % getter)
    if not rets:
      ok = False
    ctx.record(R, f.where, "entry-point", ok, "; ".join(why) or "returns _CheckArtifacts(batch, list(%s().items()), log_level)" % getter)


def or_of(node, name):
  if isinstance(node, ast.BoolOp) and isinstance(node.op, ast.Or):
    return any(isinstance(v, ast.Name) and v.id == name for v in node.values)
  if isinstance(node, ast.BinOp) and isinstance(node.op, ast.BitOr):
    return any(isinstance(v, ast.Name) and v.id == name for v in (node.left, node.right))
  return False


def repo_func(ctx, mod, name):
  return ctx.repo.func(mod, name)


# ------------------------------------------------------------------ ENTRY
def rule_entry(ctx, bodies):
  R = "R-C16-ENTRY"
  repo = ctx.repo
  f = repo.func("base_check", "BaseCheck._CreateTestResult")
  w = sym.Walker(repo, f)
  w.run()
  rets = [e for e in w.events if e.kind == "return" and e.node is not None]
  ok = bool(rets)
  why = []
  for e in rets:
    n = e.node.value
    if not (isinstance(n, ast.Call) and ast.unparse(n.func).endswith("TestResultsEntry")):
      ok = False
      why.append("does not return a TestResultsEntry(...)")
      continue
    kw = {k.arg: k.value for k in n.keywords}
    if ast.unparse(kw.get("severity", ast.Constant(0))) != "self.severity":
      ok = False
      why.append("severity is not self.severity")
    if ast.unparse(kw.get("test_name", ast.Constant(0))) != "self.check_name":
      ok = False
      why.append("test_name is not self.check_name")
    r = kw.get("result")
    if r is not None and not (isinstance(r, ast.Constant) and r.value is False):
      ok = False
      why.append("initial result is not False")
  ctx.record(R, f.where, "entry-template", ok, "; ".join(why) or "TestResultsEntry(severity=self.severity, test_name=self.check_name, result=False)")
  init = repo.func("base_check", "BaseCheck.__init__")
  src = {norm(s) for s in init.node.body}
  ok = "self.check_name = self.__class__.__name__" in src or "self.check_name = type(self).__name__" in src
  ok2 = "self.severity = severity" in src
  ctx.record(R, init.where, "name-and-severity", ok and ok2,
             "check_name = class name, severity = constructor argument" if ok and ok2 else "BaseCheck.__init__ does not set check_name to the class name / severity to the argument")
  # check_name / severity never rewritten elsewhere
  for fn in repo.all_funcs():
    if fn.where == init.where:
      continue
    for n in ast.walk(fn.node):
      if isinstance(n, (ast.Assign, ast.AugAssign)):
        tg = n.targets if isinstance(n, ast.Assign) else [n.target]
        for t in tg:
          for x in ast.walk(t):
            if isinstance(x, ast.Attribute) and isinstance(x.value, ast.Name) and x.value.id == "self" and x.attr in ("check_name", "severity") \
               and fn.cls is not None and T.is_check_class(repo, fn.cls) or (isinstance(x, ast.Attribute) and x.attr == "check_name" and isinstance(x.ctx, ast.Store)):
              ctx.violation(R, fn.where, norm(n), "check identity (check_name/severity) rewritten outside BaseCheck.__init__")
  # severity writes on entries only at the documented places
  for b in bodies:
    where = b.where()
    sev = {}
    for e in b.events:
      if e.kind == "setattr" and e.data["attr"] == "severity":
        sev[id(e.node)] = e
    if not sev:
      continue
    if where not in SEVERITY_WRITES:
      for e in sev.values():
        ctx.violation(R, where, norm(e.node), "entry severity overwritten in a check that documents no severity change")
      continue
    for e in sev.values():
      v = as_poly(e.data["value"])
      if where.startswith("rsa_single_checks:CheckLowHammingWeight"):
        good = "SEVERITY_UNKNOWN" in repr(v)
        # must be on the path without factors
        evs = [b.events[i] for i in e.state.trace]
        attached = any(x.kind == "call" and x.data["name"] == T.ATTACH_FACTORS for x in evs)
        ctx.record(R, where, norm(e.node), good and not attached,
                   "UNKNOWN severity only on the weak-without-factors path" if good and not attached else
                   "severity downgrade is not restricted to the weak-without-factors path / not SEVERITY_UNKNOWN")
      else:
        a = v.as_atom()
        good = a is not None and a.kind == "call" and a.args[0] == P("lit", "util:GetHighestSeverity")
        under_weak = any(f[0] == "truthy" and "'weak'" in repr(f[1]) for f in e.facts)
        same_key = good and under_weak and any(f[0] == "truthy" and T.is_attr_of(as_poly(f[1]), "weak") == a.args[1] for f in e.facts)
        ctx.record(R, where, norm(e.node), bool(good and same_key),
                   "severity = GetHighestSeverity(key.test_info) under key.test_info.weak (same key)" if good and same_key else
                   "issuer severity is not the highest severity of the same key under its weak flag")


# ------------------------------------------------------------------ SEVERITY
def severity_of_class(repo, c):
  """Severity constant a class passes up to BaseCheck.__init__ (follows super().__init__ chains)."""
  seen = 0
  cur = c
  arg = None
  while seen < 6:
    seen += 1
    init = cur.methods.get("__init__")
    if init is None:
      # inherited constructor
      nxt = [k for k in repo.mro(cur)[1:] if "__init__" in k.methods]
      if not nxt:
        return None
      cur = nxt[0]
      continue
    if cur.module.short == "base_check" and cur.name == "BaseCheck":
      return arg
    call = None
    for n in ast.walk(init.node):
      if isinstance(n, ast.Call) and isinstance(n.func, ast.Attribute) and n.func.attr == "__init__" \
         and isinstance(n.func.value, ast.Call) and isinstance(n.func.value.func, ast.Name) and n.func.value.func.id == "super":
        call = n
    if call is None:
      return None
    nxt = [k for k in repo.mro(cur)[1:] if "__init__" in k.methods]
    if not nxt:
      return None
    parent = nxt[0]
    if parent.module.short == "base_check" and parent.name == "BaseCheck":
      if call.args:
        return call.args[0]
      for k in call.keywords:
        if k.arg == "severity":
          return k.value
      return None
    cur = parent
  return None


def rule_severity(ctx):
  R = "R-C16-SEVERITY"
  repo = ctx.repo
  reg = T.registry(repo)
  members = proto_enum(repo, "SeverityType")
  readme = readme_table(repo)
  for tup, classes in sorted(reg.items()):
    for c in classes:
      node = severity_of_class(repo, c)
      where = "%s:%s" % (c.module.short, c.name)
      if node is None:
        ctx.violation(R, where, "severity", "no severity constant reaches BaseCheck.__init__ (entries could not be created)")
        continue
      txt = ast.unparse(node)
      name = txt.split(".")[-1]
      if name not in members or "SeverityType" not in txt:
        ctx.violation(R, where, "severity", "severity argument %s is not a paranoid_pb2.SeverityType member" % txt)
        continue
      if c.name in readme:
        ctx.record(R, where, "severity=README", readme[c.name] == name,
                   "%s == README table" % name if readme[c.name] == name else
                   "code passes %s, README documents %s" % (name, readme[c.name]))
      ctx.ok(R, where, "severity", "%s (= %d)" % (name, members[name]))
  for cname in readme:
    if not any(c.name == cname for cl in reg.values() for c in cl):
      ctx.violation(R, "README.md", cname, "README table lists a check that is not registered")


def proto_enum(repo, name):
  p = os.path.join(repo.root, "paranoid_crypto", "paranoid.proto")
  try:
    src = open(p).read()
  except OSError:
    raise Incomplete("paranoid.proto not found", "paranoid.proto")
  m = re.search(r"enum\s+%s\s*\{(.*?)\}" % name, src, re.S)
  if not m:
    raise Incomplete("enum %s not found in paranoid.proto" % name, "paranoid.proto")
  out = {}
  for k, v in re.findall(r"^\s*([A-Z0-9_]+)\s*=\s*(\d+)\s*;", m.group(1), re.M):
    out[k] = int(v)
  return out


def readme_table(repo):
  p = os.path.join(repo.root, "README.md")
  try:
    src = open(p).read()
  except OSError:
    raise Incomplete("README.md not found", "README.md")
  out = {}
  for m in re.finditer(r"^\|\s*(Check\w+)\s*\|[^|]*\|\s*(SEVERITY_\w+)\s*\|", src, re.M):
    out[m.group(1)] = m.group(2)
  if not out:
    raise Incomplete("README severity table not found", "README.md")
  return out


# ------------------------------------------------------------------ MONO
def rule_mono(ctx):
  R = "R-C16-MONO"
  repo = ctx.repo
  f = repo.func("util", "SetTestResult")
  w = sym.Walker(repo, f)
  w.run()
  ti, tr = [P("param", x) for x in f.params()[:2]]
  evs = w.events
  # (1) weak only assigned True under test_result.result
  weak = {}
  for e in evs:
    if e.kind in ("setattr", "augstore") and (e.data.get("attr") == "weak" or (e.kind == "augstore" and isinstance(e.data["target"], ast.Attribute) and e.data["target"].attr == "weak")):
      weak[id(e.node)] = e
  ok = bool(weak)
  why = []
  for e in weak.values():
    if e.kind == "augstore":
      if e.data["op"] != "BitOr":
        ok = False
        why.append("weak updated with non-monotone operator")
      continue
    v = e.data["value"]
    if isinstance(v, Const) and v.v is True:
      if not any(f_[0] == "truthy" and as_poly(f_[1]) == sym.mk("attr", tr, "result") for f_ in e.facts):
        ok = False
        why.append("weak = True is not conditioned on test_result.result")
    elif isinstance(v, tuple) or (isinstance(v, Poly)):
      # weak = weak or result style
      txt = norm(e.node)
      if not (("or" in txt or "|" in txt) and "weak" in txt.split("=", 1)[1]):
        ok = False
        why.append("weak assigned a value that can clear it: %s" % txt)
    else:
      ok = False
      why.append("weak assigned %r" % (v,))
  # every path on which test_result.result is truthy must set weak
  for kind, val, s in w.terminals:
    pos = any(f_[0] == "truthy" and as_poly(f_[1]) == sym.mk("attr", tr, "result") for f_ in s.facts)
    if pos and kind == "return":
      tev = [evs[i] for i in s.trace]
      if not any(e.kind in ("setattr", "augstore") and id(e.node) in weak for e in tev):
        ok = False
        why.append("a path with a positive result does not set test_info.weak")
  ctx.record(R, f.where, "weak-flag", ok, "; ".join(sorted(set(why))) or "weak is only ever assigned True, exactly on the paths where test_result.result holds")
  # (2) update operators
  upd_res = [e for e in evs if (e.kind == "augstore" and isinstance(e.data["target"], ast.Attribute) and e.data["target"].attr == "result")
             or (e.kind == "setattr" and e.data["attr"] == "result")]
  upd_sev = [e for e in evs if e.kind == "setattr" and e.data["attr"] == "severity"]
  res_nodes = {id(e.node): e for e in upd_res}
  sev_nodes = {id(e.node): e for e in upd_sev}
  ok = len(res_nodes) >= 1
  why = []
  def by_value_or(e):
    """the stored value is old.result | new.result (or `or`), whatever temporaries it went through"""
    v = e.data.get("value")
    base = e.data.get("base") if e.kind == "setattr" else None
    if base is None and e.kind == "augstore":
      return None
    if not isinstance(base, Poly):
      return None
    o_, n_ = sym.mk("attr", base, "result"), sym.mk("attr", tr, "result")
    if isinstance(v, Poly):
      a_ = v.as_atom()
      return a_ is not None and a_.kind == "bor" and sorted(repr(x) for x in a_.args) == sorted([repr(o_), repr(n_)])
    if isinstance(v, tuple) and v and v[0] == "or":
      parts = sorted(repr(x[1]) for x in v[1] if isinstance(x, tuple) and x[0] == "truthy")
      return len(v[1]) == 2 and parts == sorted([repr(o_), repr(n_)])
    return None

  def by_value_max(e):
    v = e.data.get("value")
    base = e.data.get("base")
    if not isinstance(base, Poly) or not isinstance(v, Poly):
      return None
    a_ = v.as_atom()
    o_, n_ = sym.mk("attr", base, "severity"), sym.mk("attr", tr, "severity")
    return a_ is not None and a_.kind == "max" and sorted(repr(as_poly(x)) for x in a_.args) == sorted([repr(o_), repr(n_)])
  for e in res_nodes.values():
    if by_value_or(e) is True:
      continue
    if not bool_monotone_or(e.node):
      ok = False
      why.append("existing entry's result updated by `%s`, which is not old OR new" % norm(e.node))
  ctx.record(R, f.where, "result-update", ok, "; ".join(why) or "old.result = old.result OR new.result (truth table)")
  ok = len(sev_nodes) >= 1
  why = []
  for e in sev_nodes.values():
    if by_value_max(e) is True:
      continue
    if not int_max(e.node):
      ok = False
      why.append("existing entry's severity updated by `%s`, which is not max(old, new)" % norm(e.node))
  ctx.record(R, f.where, "severity-update", ok, "; ".join(why) or "old.severity = max(old.severity, new.severity) (3x3 grid)")
  # (3) append iff no entry of that name
  app = [e for e in evs if e.kind == "mutate" and e.data["method"] in ("append", "add", "extend", "insert", "MergeFrom", "CopyFrom")]
  app_nodes = {id(e.node): e for e in app}
  ok = len(app_nodes) == 1
  why = []
  old_atom = None
  for e in app_nodes.values():
    rv = as_poly(e.data["recv"])
    if rv != sym.mk("attr", ti, "test_results"):
      ok = False
      why.append("append target is not test_info.test_results")
    if not e.data["args"] or as_poly(e.data["args"][0]) != tr:
      ok = False
      why.append("appended object is not the entry passed in")
    fal = [f_ for f_ in e.facts if f_[0] == "falsy" or (f_[0] == "cmp" and f_[1] in ("Is", "Eq") and isinstance(f_[3], Const) and f_[3].v is None)]
    got = False
    for f_ in fal:
      a = as_poly(f_[1] if f_[0] == "falsy" else f_[2]).as_atom()
      if a is not None and a.kind == "call" and a.args[0] == P("lit", "util:GetTestResult") and a.args[1] == ti \
         and a.args[2] == sym.mk("attr", tr, "test_name"):
        got = True
    if not got:
      ok = False
      why.append("append is not guarded by `GetTestResult(test_info, test_result.test_name)` finding nothing")
  if not app_nodes:
    why.append("no append of new entries")
  ctx.record(R, f.where, "add-or-update", ok, "; ".join(why) or "entry appended iff no entry with the same test_name exists (names stay unique)")
  # updates happen on the entry found by name
  good = True
  for e in list(res_nodes.values()) + list(sev_nodes.values()):
    tgt = e.data["target"].value if e.kind == "augstore" else e.data["target"].value
    base = as_poly(e.data["base"]) if e.kind == "setattr" else None
    if e.kind == "augstore":
      base = None
      # evaluate base through facts: must be the GetTestResult value and truthy
    tru = [f_ for f_ in e.facts if f_[0] == "truthy"]
    if not any((as_poly(f_[1]).as_atom() is not None and as_poly(f_[1]).as_atom().kind == "call"
                and as_poly(f_[1]).as_atom().args[0] == P("lit", "util:GetTestResult")) for f_ in tru):
      good = False
  ctx.record(R, f.where, "update-target", good, "updates are applied to the entry found by GetTestResult" if good else
             "result/severity update is not applied under a found existing entry")
  # (4) version written iff empty
  ver = {id(e.node): e for e in evs if e.kind == "setattr" and e.data["attr"] == "paranoid_lib_version"}
  ok = len(ver) == 1
  why = []
  for e in ver.values():
    if not any(f_[0] == "falsy" and as_poly(f_[1]) == sym.mk("attr", ti, "paranoid_lib_version") for f_ in e.facts):
      ok = False
      why.append("version overwritten even when already recorded")
    if "version" not in repr(as_poly(e.data["value"])):
      ok = False
      why.append("recorded value is not version.__version__")
  for kind, val, s in w.terminals:
    if kind == "return" and any(f_[0] == "falsy" and as_poly(f_[1]) == sym.mk("attr", ti, "paranoid_lib_version") for f_ in s.facts):
      if not any(id(evs[i].node) in ver for i in s.trace):
        ok = False
        why.append("a path with an empty version does not record it")
  ctx.record(R, f.where, "version-stamp", ok, "; ".join(sorted(set(why))) or "paranoid_lib_version written iff empty, with version.__version__")
  # (5) the two lookups find by exact name: every return is either the element whose name field equals the argument, or the constant None
  for fname, coll, field in (("GetTestResult", "test_results", "test_name"), ("GetAttachedInfo", "attached_info", "info_name")):
    g = repo.func("util", fname)
    wg = sym.Walker(repo, g)
    wg.run()
    okm = False
    bad = []
    for kind, val, s_ in wg.terminals:
      if kind != "return":
        continue
      if isinstance(val, Const) and val.v is None:
        continue
      if isinstance(val, (Seq, tuple)) or val is None:
        bad.append("returns %r" % (val,))
        continue
      v = as_poly(val)
      a = v.as_atom()
      matched = any(f_[0] == "cmp" and f_[1] == "Eq" and not isinstance(f_[2], (Seq, tuple)) and not isinstance(f_[3], (Seq, tuple)) and
                    {repr(as_poly(f_[2])), repr(as_poly(f_[3]))} == {repr(sym.mk("attr", v, field)), repr(P("param", g.params()[1]))} for f_ in s_.facts)
      if a is not None and a.kind == "idx" and a.args[0] == sym.mk("attr", P("param", g.params()[0]), coll) and matched:
        okm = True
      else:
        bad.append("a return hands back %s without having matched its %s (a leftover / differently named element instead of None)" % (repr(v)[:60], field))
    fallnone = any(kind == "return" and isinstance(val, Const) and val.v is None for kind, val, s_ in wg.terminals)
    ctx.record(R, g.where, "lookup-by-name", okm and fallnone and not bad, "returns the %s element whose %s equals the argument, else None" % (coll, field)
               if okm and fallnone and not bad else "; ".join(sorted(set(bad))) or "%s does not return the entry matched by %s (or no None fall-through)" % (fname, field))
  # (6) AttachInfo overwrites only the same-named record
  a = repo.func("util", "AttachInfo")
  wa = sym.Walker(repo, a)
  wa.run()
  ti, nm, val = [P("param", x) for x in a.params()[:3]]
  ok = True
  why = []
  sets = [e for e in wa.events if e.kind == "setattr"]
  for e in sets:
    base = as_poly(e.data["base"])
    ba = base.as_atom()
    if e.data["attr"] == "value":
      if as_poly(e.data["value"]) != val:
        ok = False
        why.append("stored value is not the argument")
      found = ba is not None and ba.kind == "call" and ba.args[0] == P("lit", "util:GetAttachedInfo") and ba.args[1] == ti and ba.args[2] == nm
      fresh = ba is not None and ba.kind == "mcall" and "add" in repr(ba)
      if not (found or fresh):
        ok = False
        why.append("value written on a record other than the same-named one / a new one")
    elif e.data["attr"] == "info_name":
      if as_poly(e.data["value"]) != nm:
        ok = False
        why.append("new record is not named info_name")
    else:
      ok = False
      why.append("unexpected attribute write .%s" % e.data["attr"])
  if not sets:
    ok = False
    why.append("no writes found")
  # both outcomes of the lookup write the value: an existing record is updated (re-running with new evidence must not keep the old value), a missing one is added
  upd_ = [e for e in sets if e.data["attr"] == "value" and as_poly(e.data["base"]).as_atom() is not None and as_poly(e.data["base"]).as_atom().kind == "call"]
  new_ = [e for e in sets if e.data["attr"] == "value" and as_poly(e.data["base"]).as_atom() is not None and as_poly(e.data["base"]).as_atom().kind == "mcall"]
  if sets and not upd_:
    ok = False
    why.append("an existing record is not updated: the value attached later (merged factors, new evidence) is dropped")
  if sets and not new_:
    ok = False
    why.append("no record is added when none exists")
  ctx.record(R, a.where, "attach-info", ok, "; ".join(sorted(set(why))) or "updates the same-named record or adds a new one named info_name")


def rule_highest(ctx):
  """GetHighestSeverity: the maximum severity over the entries with a positive result (None without one) - decided on the accumulation loop."""
  R = "R-C16-SEVERITY"
  repo = ctx.repo
  f = repo.func("util", "GetHighestSeverity")
  w = sym.Walker(repo, f)
  w.run()
  ti = P("param", f.params()[0])
  loops = [i_ for i_ in w.loop_info.values() if i_["visits"]]
  probs = []
  if len(loops) != 1 or not isinstance(loops[0]["visits"][0]["iter"], Poly) or loops[0]["visits"][0]["iter"] != sym.mk("attr", ti, "test_results"):
    ctx.violation(R, f.where, "highest severity among the positive entries", "no single loop over test_info.test_results")
    return
  info = loops[0]
  vis = info["visits"][0]
  el = sym.mk("idx", sym.mk("attr", ti, "test_results"), as_poly(vis["k"]))
  sev, res = sym.mk("attr", el, "severity"), sym.mk("attr", el, "result")
  acc = [nm for nm in info["modified"] if isinstance(vis["head"].env.get(nm), Poly) and vis["head"].env[nm].as_atom() is not None and vis["head"].env[nm].as_atom().kind == "sym"
         and nm in vis["pre_env"] and vis["pre_env"][nm] is not None]
  if len(acc) != 1:
    ctx.violation(R, f.where, "highest severity among the positive entries", "no single running maximum")
    return
  H = vis["head"].env[acc[0]]
  took = False
  for kind, val, s_, since, v_ in info["body_paths"]:
    if kind not in ("fall", "continue"):
      probs.append("loop left by %s" % kind)
      continue
    newf = s_.facts[len(vis["head"].facts):]
    end = s_.env.get(acc[0])
    pos = any(fc[0] == "truthy" and isinstance(fc[1], Poly) and fc[1] == res for fc in newf)
    gt = any(fc[0] == "cmp" and ((fc[1] == "Gt" and as_poly(fc[2]) == sev and as_poly(fc[3]) == H) or (fc[1] == "Lt" and as_poly(fc[3]) == sev and as_poly(fc[2]) == H)) for fc in newf)
    if isinstance(end, Poly) and end == H:
      if pos and gt:
        probs.append("a positive entry with a higher severity does not raise the maximum")
      continue
    took = True
    if not (isinstance(end, Poly) and end == sev):
      probs.append("the running maximum is replaced by something other than the entry's severity")
    if not pos:
      probs.append("the maximum is raised by an entry whose own result is not positive (passed checks count)")
    if not gt:
      probs.append("the maximum is replaced without comparing severities")
  if not took:
    probs.append("the maximum is never raised")
  start = vis["pre_env"].get(acc[0])
  rets = [t_ for t_ in w.terminals if t_[0] == "return"]
  # what is handed back: the maximum when an entry raised it, None when it still has its start value; the start value must lie below every severity
  after = vis["after_env"].get(acc[0])
  s0 = as_poly(start).as_int() if isinstance(start, (Poly, int)) else None
  if s0 is None or s0 >= 0:
    probs.append("the running maximum starts at %r, which is not below every severity (severities are >= 0)" % (start,))
  for kind, val, st_ in rets:
    okr = False
    va = val.as_atom() if isinstance(val, Poly) else None
    if va is not None and va.kind == "ite" and len(va.args) == 3 and isinstance(after, Poly):
      cnd = sym.ITE_CONDS.get(as_poly(va.args[0]).as_atom().args[0]) if as_poly(va.args[0]).as_atom() is not None else None
      thn, els = as_poly(va.args[1]), va.args[2]
      if isinstance(cnd, tuple) and cnd[0] == "cmp" and isinstance(cnd[2], Poly) and cnd[2] == after and s0 is not None and as_poly(cnd[3]).as_int() == s0:
        if cnd[1] == "NotEq" and thn == after and repr(els) == "lit('None')":
          okr = True
        if cnd[1] == "Eq" and repr(as_poly(va.args[1])) == "lit('None')" and as_poly(els) == after:
          okr = True
        if cnd[1] in ("Gt", "GtE") and thn == after and repr(els) == "lit('None')" and cnd[1] == "Gt":
          okr = True
    elif isinstance(after, Poly) and isinstance(val, Poly) and val == after:
      okr = any(fc[0] == "cmp" and fc[1] in ("NotEq", "Gt") and isinstance(fc[2], Poly) and fc[2] == after and s0 is not None and as_poly(fc[3]).as_int() == s0 for fc in st_.facts)
    elif isinstance(val, Const) and val.v is None:
      okr = any(fc[0] == "cmp" and fc[1] in ("Eq", "LtE") and isinstance(fc[2], Poly) and isinstance(after, Poly) and fc[2] == after and s0 is not None and as_poly(fc[3]).as_int() == s0 for fc in st_.facts)
    if not okr:
      probs.append("the value handed back is %r, not `maximum if it was raised above its start value else None`" % (val,))
  ctx.record(R, f.where, "highest severity among the positive entries", not probs, "; ".join(sorted(set(probs))) or
             "max over entries with result set, of their severity (start %r)" % (start,))


def _truth_eval(node, env):
  """Evaluates a python expression AST over small value environments keyed by unparse text."""
  return fold.Folder(env).fold(node)


def bool_monotone_or(stmt):
  """stmt updates X (attribute) from (X, Y): new == old or y for all booleans."""
  if isinstance(stmt, ast.AugAssign):
    if not isinstance(stmt.op, ast.BitOr):
      return False
    return True
  if isinstance(stmt, ast.Assign) and len(stmt.targets) == 1:
    t = ast.unparse(stmt.targets[0])
    names = sorted({ast.unparse(x) for x in ast.walk(stmt.value) if isinstance(x, ast.Attribute) and x.attr == "result"})
    if t not in names or len(names) != 2:
      return False
    other = [n for n in names if n != t][0]
    for old in (False, True):
      for new in (False, True):
        try:
          r = _truth_eval(stmt.value, {t: old, other: new})
        except fold.NotConst:
          return False
        if bool(r) != (old or new):
          return False
    return True
  return False


def int_max(stmt):
  if not (isinstance(stmt, ast.Assign) and len(stmt.targets) == 1):
    return False
  t = ast.unparse(stmt.targets[0])
  names = sorted({ast.unparse(x) for x in ast.walk(stmt.value) if isinstance(x, ast.Attribute) and x.attr == "severity"})
  if t not in names or len(names) != 2:
    return False
  other = [n for n in names if n != t][0]
  for old in (0, 2, 4):
    for new in (0, 2, 4):
      try:
        r = _truth_eval(stmt.value, {t: old, other: new})
      except fold.NotConst:
        return False
      if r != max(old, new):
        return False
  return True


# ------------------------------------------------------------------ WRITERS
WRITER_FIXTURE = '''
def Bad(test_info, r):
  test_info.weak = False
  r.result = False
  del test_info.test_results[0]
  test_info.ClearField("attached_info")
  test_info.test_results.pop()
  test_info.attached_info.add()
'''

ALLOWED_WRITERS = {
    ("test_results", "append"): {"util:SetTestResult": "the add-or-update primitive"},
    ("attached_info", "add"): {"util:AttachInfo": "the add-or-update primitive for attached records"},
}


def scan_writers(tree, where_of):
  """Yields (where, construct, message) for forbidden writes in an AST."""
  funcs = []
  for n in ast.walk(tree):
    if isinstance(n, (ast.FunctionDef, ast.AsyncFunctionDef)):
      funcs.append(n)
  def owner(node):
    best = None
    for f in funcs:
      if f.lineno <= node.lineno <= (f.end_lineno or f.lineno):
        if best is None or f.lineno >= best.lineno:
          best = f
    return best
  for n in ast.walk(tree):
    w = None
    if isinstance(n, ast.Assign):
      for t in n.targets:
        for x in ([t] if not isinstance(t, (ast.Tuple, ast.List)) else t.elts):
          if isinstance(x, ast.Attribute) and x.attr in ("weak", "result"):
            v = n.value
            is_false = isinstance(v, ast.Constant) and (v.value is False or v.value == 0 or v.value is None)
            if is_false:
              w = ("clear", "%s assigned a false value" % ast.unparse(x))
            elif x.attr == "weak" and not (isinstance(v, ast.Constant) and v.value is True):
              w = ("weak-nonconst", "%s assigned a computed value (can clear the flag)" % ast.unparse(x))
          if isinstance(x, ast.Subscript) and isinstance(x.value, ast.Attribute) and x.value.attr in ("test_results", "attached_info"):
            w = ("slice", "element/slice assignment on %s" % x.value.attr)
          if isinstance(x, ast.Attribute) and x.attr in ("test_results", "attached_info"):
            w = ("rebind", "%s rebound" % x.attr)
    elif isinstance(n, ast.AugAssign) and isinstance(n.target, ast.Attribute) and n.target.attr in ("weak", "result"):
      if not isinstance(n.op, ast.BitOr):
        w = ("clear", "%s updated with a non-monotone operator" % ast.unparse(n.target))
    elif isinstance(n, ast.Delete):
      for t in n.targets:
        for x in ast.walk(t):
          if isinstance(x, ast.Attribute) and x.attr in ("test_results", "attached_info", "weak", "test_info"):
            w = ("delete", "del on %s" % x.attr)
    elif isinstance(n, ast.Call) and isinstance(n.func, ast.Attribute):
      m = n.func.attr
      recv = n.func.value
      if m in ("ClearField", "Clear", "DiscardUnknownFields") and ("test_info" in ast.unparse(n) or m == "ClearField" and any(
          isinstance(a, ast.Constant) and a.value in ("weak", "test_results", "attached_info", "test_info", "paranoid_lib_version") for a in n.args)):
        w = ("clearfield", "%s(...) on result bookkeeping" % m)
      if isinstance(recv, ast.Attribute) and recv.attr in ("test_results", "attached_info"):
        if m in ("pop", "remove", "clear", "reverse", "sort", "insert", "extend", "append", "add", "MergeFrom", "CopyFrom"):
          w = ("mutate:%s:%s" % (recv.attr, m), "%s.%s()" % (recv.attr, m))
    if w is not None:
      f = owner(n)
      yield (where_of(f), w[0], w[1], n)


def rule_writers(ctx):
  R = "R-C16-WRITERS"
  repo = ctx.repo
  # positive fixture keeps the zero-count rule alive
  hits = list(scan_writers(ast.parse(WRITER_FIXTURE), lambda f: "fixture"))
  kinds = {h[1] for h in hits}
  if not {"clear", "delete", "clearfield"} <= kinds or not any(k.startswith("mutate:") for k in kinds):
    ctx.incomplete(R, "fixture", "self-test", "writer scan did not match its positive fixture (%s)" % sorted(kinds))
  n_mod = 0
  for m in list(repo.modules.values()) + list(repo.examples.values()):
    n_mod += 1
    def where_of(f, m=m):
      if f is None:
        return m.short + ":<module>"
      for fn in list(m.funcs.values()) + [x for c in m.classes.values() for x in c.methods.values()]:
        if fn.node is f:
          return fn.where
      return m.short + ":" + f.name
    for where, kind, msg, node in scan_writers(m.tree, where_of):
      if kind.startswith("mutate:"):
        _, field, meth = kind.split(":")
        allowed = ALLOWED_WRITERS.get((field, meth), {})
        if where in allowed:
          ctx.ok(R, where, "%s.%s" % (field, meth), "allowed writer: " + allowed[where])
          continue
      ctx.violation(R, where, norm(node), msg + " outside the bookkeeping primitives")
  # paranoid_lib_version writers
  for fn in repo.all_funcs():
    for n in ast.walk(fn.node):
      if isinstance(n, (ast.Assign, ast.AugAssign)):
        tg = n.targets if isinstance(n, ast.Assign) else [n.target]
        for t in tg:
          if isinstance(t, ast.Attribute) and t.attr == "paranoid_lib_version" and fn.where != "util:SetTestResult":
            ctx.violation(R, fn.where, norm(n), "library version stamped outside util.SetTestResult")
  ctx.ok(R, "package", "scan", "%d modules scanned for clears / deletes / foreign writers" % n_mod)


# ------------------------------------------------------------------ REGISTRY
def rule_registry(ctx):
  R = "R-C16-REGISTRY"
  repo = ctx.repo
  reg = T.registry(repo)
  base_for = {"_ACTIVE_RSA_SINGLE_CHECKS": "RSAKeyCheck", "_ACTIVE_RSA_AGGREGATE_CHECKS": "RSAKeyCheck",
              "_ACTIVE_EC_SINGLE_CHECKS": "ECKeyCheck", "_ACTIVE_EC_AGGREGATE_CHECKS": "ECKeyCheck",
              "_ACTIVE_ECDSA_SIG_CHECKS": "ECDSASignatureCheck"}
  allnames = {}
  for tup, classes in sorted(reg.items()):
    probs = []
    names = [c.name for c in classes]
    if len(set(names)) != len(names):
      probs.append("a class (name) is listed twice: entries would overwrite each other in the factory dict")
    want = base_for.get(tup)
    for c in classes:
      mro = repo.mro(c)
      if want and not any(k.name == want and k.module.short == "base_check" for k in mro):
        probs.append("%s is not a %s" % (c.name, want))
      chk = repo.find_method(c, "Check")
      if chk is None or (chk.cls.name == "BaseCheck"):
        probs.append("%s has no Check implementation" % c.name)
      allnames.setdefault(c.name, []).append(tup)
    ctx.record(R, "paranoid:" + tup, "registry", not probs, "; ".join(probs) or "%d distinct classes, right base, Check resolvable" % len(classes))
  dup = {n: t for n, t in allnames.items() if len(t) > 1}
  ctx.record(R, "paranoid", "cross-registry-names", not dup, "class names unique across registries" if not dup else "names registered twice: %s" % dup)
  # getters: Get*SingleChecks iterates its tuple; Get*AllChecks = singles U aggregates
  m = repo.mod("paranoid")
  pairs = {"GetRSASingleChecks": "_ACTIVE_RSA_SINGLE_CHECKS", "GetRSAAggregateChecks": "_ACTIVE_RSA_AGGREGATE_CHECKS",
           "GetECSingleChecks": "_ACTIVE_EC_SINGLE_CHECKS", "GetECAggregateChecks": "_ACTIVE_EC_AGGREGATE_CHECKS",
           "GetECDSAAllChecks": "_ACTIVE_ECDSA_SIG_CHECKS"}
  for g, tup in sorted(pairs.items()):
    f = repo.func("paranoid", g)
    w = sym.Walker(repo, f)
    w.run()
    reg = P("ref", "paranoid." + tup)
    loops = [i_ for i_ in w.loop_info.values() if not isinstance(i_["iter"], Seq) and i_["iter"] is not None and as_poly(i_["iter"]) == reg]
    ok = len(loops) == 1
    body_ok = False
    if ok:
      il = loops[0]
      rets = {repr(as_poly(v_)) for k_, v_, s_ in w.terminals if k_ == "return" and not isinstance(v_, (Seq, Const, tuple))}
      body_ok = bool(rets) and bool(il["body_paths"])
      for kind, val, s_, since, vis in il["body_paths"]:
        evs = [w.events[x] for x in s_.trace if x >= since]
        elem = sym.mk("idx", reg, as_poly(vis["k"]))
        insts = [e for e in evs if e.kind == "call" and e.data["name"].startswith("local:") and not e.data["args"]
                 and not isinstance(s_.env.get(e.data["name"][6:]), (Seq, Const, tuple)) and s_.env.get(e.data["name"][6:]) is not None
                 and as_poly(s_.env[e.data["name"][6:]]) == elem]
        sts = [e for e in evs if e.kind == "store"]
        if kind != "fall" or len(insts) != 1 or len(sts) != 1:
          body_ok = False
          continue
        inst = as_poly(insts[0].data["value"])
        st = sts[0]
        base = as_poly(st.data["base"])
        # the dict returned is the one written: the same term, or a local alias of it that the loop updates
        alias = {repr(base)}
        for nm, pv in vis["pre_env"].items():
          if pv is not None and not isinstance(pv, (Seq, Const, tuple)) and as_poly(pv) == base and vis["after_env"].get(nm) is not None:
            alias.add(repr(as_poly(vis["after_env"][nm])))
          hv = vis["head"].env.get(nm)
          if hv is not None and not isinstance(hv, (Seq, Const, tuple)) and as_poly(hv) == base and pv is not None and not isinstance(pv, (Seq, Const, tuple)) \
             and vis["after_env"].get(nm) is not None:
            alias.add(repr(as_poly(vis["after_env"][nm])))
            base_pre = as_poly(pv)
            alias.add(repr(base_pre))
        if as_poly(st.data["value"]) != inst or as_poly(st.data["index"]) != sym.mk("attr", inst, "check_name") or not (rets <= alias):
          body_ok = False
    ctx.record(R, f.where, "getter", ok and body_ok, "instantiates every class of %s under its check_name" % tup if ok and body_ok else
               "getter does not instantiate and register every class of %s" % tup)
  for g, parts in (("GetRSAAllChecks", ("GetRSASingleChecks", "GetRSAAggregateChecks")), ("GetECAllChecks", ("GetECSingleChecks", "GetECAggregateChecks"))):
    f = repo.func("paranoid", g)
    w = sym.Walker(repo, f)
    w.run()
    ups = [e for e in w.events if e.kind == "mutate" and e.data["method"] == "update"]
    got = set()
    recvs = set()
    for e in ups:
      a0 = as_poly(e.data["args"][0]).as_atom() if e.data["args"] and not isinstance(e.data["args"][0], (Seq, Const, tuple)) else None
      if a0 is not None and a0.kind == "call":
        got.add(str(a0.args[0].as_atom().args[0]).split(":")[-1])
      r = as_poly(e.data["recv"])
      ra = r.as_atom()
      while ra is not None and ra.kind == "mut":
        r = as_poly(ra.args[0])
        ra = r.as_atom()
      recvs.add(repr(r))
    ok = set(parts) <= got and len(recvs) == 1
    ctx.record(R, f.where, "union", ok, "all = singles U aggregates, merged into one table" if ok else "does not merge both %s into one table" % (parts,))
  # lazy initialisation: a table is filled exactly when *that* table is still empty, and that table is what is returned
  for g in sorted(list(pairs) + ["GetRSAAllChecks", "GetECAllChecks"]):
    f = repo.func("paranoid", g)
    w = sym.Walker(repo, f)
    w.run()
    probs = []
    writes = [e for e in w.events if e.kind == "store" or (e.kind == "mutate" and e.data["method"] in ("update", "setdefault"))]
    tables = set()
    for e in writes:
      base = as_poly(e.data["base"] if e.kind == "store" else e.data["recv"])
      ba = base.as_atom()
      while ba is not None and ba.kind in ("mut", "upd"):
        base = as_poly(ba.args[0])
        ba = base.as_atom()
      # a loop-head alias stands for the value before the loop
      for info in w.loop_info.values():
        for vis in info["visits"]:
          for nm, hv in vis["head"].env.items():
            if hv is not None and not isinstance(hv, (Seq, Const, tuple)) and as_poly(hv) == base and vis["pre_env"].get(nm) is not None and not isinstance(vis["pre_env"][nm], (Seq, Const, tuple)):
              base = as_poly(vis["pre_env"][nm])
      tables.add(repr(base))
      guards = [repr(as_poly(fc[1])) for fc in e.facts if fc[0] == "falsy" and not isinstance(fc[1], Seq)]
      guards += [repr(as_poly(fc[2])) for fc in e.facts if fc[0] == "cmp" and fc[1] == "Eq" and not isinstance(fc[2], Seq) and as_poly(fc[3]).is_zero() and False]
      if repr(base) not in guards:
        probs.append("a table is filled under a test of %s, not of the table that is filled" % (", ".join(sorted(set(guards)))[:120] or "nothing"))
    if len(tables) != 1:
      probs.append("%d tables are written" % len(tables))
    ctx.record(R, f.where, "lazy initialisation tests the table it fills", not probs, "; ".join(sorted(set(probs))) or "filled only while empty; one table")
  # module-level mutable state of paranoid.py
  mut = []
  for name, node in m.consts.items():
    if isinstance(node, (ast.Dict, ast.List, ast.Set)) or (isinstance(node, ast.Call) and ast.unparse(node.func) in ("collections.defaultdict", "dict", "list", "set")):
      mut.append(name)
  ctx.record(R, "paranoid", "module-state", mut == ["_check_factory"], "only module-level mutable object is _check_factory" if mut == ["_check_factory"] else
             "module-level mutable state: %s" % mut)


# ------------------------------------------------------------------ ISSUER
def rule_issuer(ctx, bodies):
  R = "R-C16-ISSUER"
  b = [x for x in bodies if x.where() == "ecdsa_sig_checks:CheckIssuerKey.Check"]
  if not b:
    raise Incomplete("CheckIssuerKey.Check vanished", "ecdsa_sig_checks")
  b = b[0]
  where = b.where()
  f = b.func.node
  probs = []
  # (a) CheckAllEC is called once on the list of built ECKey protobufs, before the result loop
  calls = b.calls("repo:paranoid:CheckAllEC")
  nodes = {id(e.node) for e in calls}
  if len(nodes) != 1:
    probs.append("paranoid.CheckAllEC is not called exactly once")
  else:
    e = calls[0]
    if e.state.tags:
      probs.append("CheckAllEC called inside a loop")
  # (b) structure via AST: points dict maps point -> indices; pks_pb gets one ECKey per new point
  src = ast.unparse(f)
  first = [n for n in f.body if isinstance(n, ast.For)]
  if len(first) < 2:
    probs.append("expected a collection loop and a result loop")
  else:
    col, resl = first[0], first[-1]
    if not (isinstance(col.iter, ast.Call) and ast.unparse(col.iter) == "enumerate(%s)" % b.func.params()[0]):
      probs.append("collection loop does not enumerate the whole batch")
    ctxt = ast.unparse(col)
    if "PublicPoint(" not in ctxt or "issuer_key_info" not in ctxt:
      probs.append("issuer point not derived from sig.issuer_key_info")
    if not re.search(r"ECKey\(ec_info=\w+\.issuer_key_info\)", ctxt):
      probs.append("ECKey protobuf is not built from the signature's issuer_key_info")
    if any(isinstance(x, (ast.Break, ast.Return)) for x in ast.walk(col)):
      probs.append("collection loop can exit early")
  # (c) symbolic: the inner result loop iterates points[PublicPoint(key.ec_info)] and sets artifacts[i]
  for info in b.result_loops():
    for kind, val, s, since, visit in info["body_paths"]:
      evs = b.path_events(s, since)
      sets = [e for e in evs if e.kind == "call" and e.data["name"] == T.SET_RESULT]
      if len(sets) != 1:
        continue
      tinfo = as_poly(sets[0].data["args"][0])
      base = T.is_attr_of(tinfo, "test_info")
      si = split_idx(base) if base is not None else None
      if si is None or si[0] != b.artifacts:
        probs.append("result not set on artifacts[i]")
        continue
      j = si[1]
      ja = j.as_atom()
      # j == idx(idx(points, PublicPoint(key.ec_info)), k)
      okj = False
      if ja is not None and ja.kind == "idx" and ja.args[1] == visit["k"]:
        inner = ja.args[0].as_atom()
        if inner is not None and inner.kind == "idx" and "PublicPoint" in repr(inner.args[1]) and "'ec_info'" in repr(inner.args[1]):
          okj = True
      if not okj:
        probs.append("index i does not range over points[PublicPoint(key.ec_info)]")
  # (e) the key signatures are grouped under determines the ECKey that is checked for the group: the EC checks read curve_type, x and y of the issuer key
  # info, so the grouping key must cover the curve type as well as the point (two signatures with equal coordinates on different curves are different
  # keys: merged, only the first is checked and its verdict is copied to the other - order-dependent and wrong for one of them)
  keys = []
  for e in b.events:
    if e.kind == "store" and isinstance(e.data.get("index"), (Poly, Seq)) and "PublicPoint" in repr(e.data["index"]):
      keys.append(as_poly(e.data["index"]))
    if e.kind in ("call", "return", "loophead"):
      for fc in e.facts:
        if fc[0] == "cmp" and fc[1] in ("In", "NotIn") and isinstance(fc[2], (Poly, Seq)) and "PublicPoint" in repr(fc[2]):
          keys.append(as_poly(fc[2]))
  for info in b.result_loops():
    for visit in info.get("visits", []):
      it_ = visit.get("iter")
      if isinstance(it_, Poly) and it_.as_atom() is not None and it_.as_atom().kind == "idx" and "PublicPoint" in repr(it_.as_atom().args[1]):
        keys.append(as_poly(it_.as_atom().args[1]))
  if not keys:
    probs.append("grouping key of the issuer map not found")
  for k_ in keys:
    if not any(t_.kind == "attr" and len(t_.args) == 2 and t_.args[1] == "curve_type" for t_ in k_.all_atoms()):
      probs.append("issuer keys are grouped by their coordinates only: two signatures whose issuer keys have equal (x, y) but different curve_type are merged, "
                   "only the first key is checked and its verdict is copied to the other")
  # (d) flag derives from key.test_info.weak of the same key
  for info in b.loops():
    pass
  for e in b.events:
    if e.kind == "setattr" and e.data["attr"] == "result":
      if not any(f_[0] == "truthy" and T.is_attr_of(as_poly(f_[1]), "weak") is not None and
                 T.is_attr_of(T.is_attr_of(as_poly(f_[1]), "weak"), "test_info") is not None for f_ in e.facts):
        probs.append("positive verdict is not conditioned on key.test_info.weak")
  # every key with weak set must be flagged: the negative path must carry falsy(weak)
  ctx.record(R, where, "issuer-mapping", not probs, "; ".join(sorted(set(probs))) or
             "one ECKey per distinct issuer point, CheckAllEC once, verdict copied to exactly the signatures mapped to the point")


def rule_isolated(ctx, bodies, R, only=None):
  """Weaker sibling of R-C16-ONCE used by C07 / C08: the *verdict* (entry.result) recorded for an artifact is determined inside that artifact's own
  iteration - the entry is created there, or its result is assigned there before SetTestResult (for the per-key entry of CheckIssuerKey: inside the
  enclosing per-key iteration).  A reused entry whose other fields leak (severity) is C16's business, not a wrong verdict."""
  for b in bodies:
    where = b.where()
    if only is not None and not only(where):
      continue
    problems = []
    n_paths = 0
    for info in b.result_loops():
      encl = b.enclosing_loops(info)
      for kind, val, s, since, visit in info["body_paths"]:
        evs = b.path_events(s, since)
        sets = [e for e in evs if e.kind == "call" and e.data["name"] == T.SET_RESULT]
        if len(sets) != 1:
          continue          # counted by R-C16-ONCE
        n_paths += 1
        entry = (sets[0].data["args"] + [None, None])[1]
        if entry is None:
          continue
        ent = as_poly(entry)
        scopes = [evs]
        if where in SHARED_ENTRY and encl:
          for v in encl[-1].get("visits", []):
            scopes.append(b.path_events(s, v["since"]))
        fresh = any(x.kind == "call" and x.data["name"] == "meth:" + T.CREATE and as_poly(x.data["value"]) == ent for sc in scopes for x in sc)
        assigned = any(x.kind == "setattr" and x.data["attr"] == "result" and as_poly(x.data["base"]) == ent and x.state.trace and True for sc in scopes for x in sc
                       if sc.index(x) < (sc.index(sets[0]) if sets[0] in sc else len(sc)))
        if not fresh and not assigned:
          problems.append("on a path of one iteration the recorded entry was neither created nor given its result in that iteration: it carries the verdict of "
                          "whichever artifact set it last (path: %s)" % describe_pc(s, since))
    if problems:
      for p in sorted(set(problems))[:2]:
        ctx.violation(R, where, "verdict isolated per artifact", p)
    elif n_paths:
      ctx.ok(R, where, "verdict isolated per artifact", "%d iteration paths: the entry recorded is fresh or its result is assigned in the same iteration" % n_paths)
