#!/venv/bin/python
"""CLI: check.py <property id> [--tier quick|thorough] [--explain replay.json]

Static analysis of /repo's current working tree; never imports or runs repository code.
Exit 0 held / 1 violation (with VIOLATION line) / 2 analysis incomplete (never with VIOLATION).
"""
import sys, os, time, json, importlib, traceback
sys.dont_write_bytecode = True
HERE = os.path.dirname(os.path.abspath(__file__))
sys.path.insert(0, HERE)
from pcstatic import core, loader


def run_selftest(ctx, prop):
  """Thorough tier: sensitivity self-test of this property's rules on scratch copies of the current tree.
  A catalogued mutant that no longer fires, or a behaviour-preserving twin that fires, means the checker is broken
  (analysis incomplete, exit 2) - never a violation of the property."""
  import subprocess
  r = subprocess.run(["/venv/bin/python", os.path.join(HERE, "selftest", "run.py"), "--prop", prop, "--jobs", "16"],
                     capture_output=True, text=True, timeout=3000)
  rows = fired = silent = skipped = 0
  for line in r.stdout.splitlines():
    parts = line.split()
    if len(parts) < 4 or parts[1] not in ("fire", "silent", "undecided"):
      continue
    rows += 1
    rid, kind, status = parts[0], parts[1], parts[3]
    what = " ".join(parts[4:])
    if status == "ok":
      ctx.ok("SELFTEST", "selftest:" + rid, kind, what)
      fired += kind == "fire"
      silent += kind == "silent"
    elif status == "skipped":
      skipped += 1
      ctx.note("selftest row %s skipped (anchor text not present on this tree)" % rid)
    else:
      ctx.incomplete("SELFTEST", "selftest:" + rid, kind, "catalogued %s row behaves as %s: %s" % (kind, status, what))
  ctx.extra["selftest"] = {"rows": rows, "mutants_detected": fired, "twins_silent": silent, "skipped": skipped}
  if rows == 0:
    ctx.incomplete("SELFTEST", "selftest", "catalogue", "no catalogue rows ran for this property: %s" % r.stderr[-200:])


def main(argv):
  if len(argv) < 2:
    print(__doc__)
    return 2
  prop = argv[1].upper()
  tier = os.environ.get("VERIF_TIER", "quick")
  explain = None
  i = 2
  while i < len(argv):
    if argv[i] == "--tier":
      tier = argv[i + 1]; i += 2
    elif argv[i] in ("--explain", "--replay"):
      explain = argv[i + 1]; i += 2
    elif argv[i] == "--repo":
      core.REPO = argv[i + 1]; i += 2
    else:
      i += 1
  if tier not in ("quick", "thorough"):
    tier = "quick"
  t0 = time.time()
  try:
    mod = importlib.import_module("rules." + prop.lower())
  except ImportError as e:
    print("ANALYSIS-INCOMPLETE property=%s no rule module (%s)" % (prop, e))
    return 2
  meta = mod.META
  checker_cmd = "/venv/bin/python /verif/check.py %s --tier %s" % (prop, tier)
  ctx = None
  try:
    repo = loader.Repo(core.REPO)
    ctx = core.Ctx(prop, tier, repo)
    if explain:
      with open(explain) as f:
        rp = json.load(f)
      print("replaying %s: rule=%s where=%s construct=%s" % (explain, rp.get("rule"), rp.get("where"), rp.get("construct")))
      ctx.extra["replay_of"] = rp.get("key")
    mod.run(ctx)
    if tier == "thorough" and not explain and core.REPO == os.environ.get("PCSTATIC_REPO", "/repo") \
       and not any(r.status == "violation" and r.key not in {k["key"] for k in core.load_known().get("findings", [])} for r in ctx.results):
      run_selftest(ctx, prop)
    if explain:
      hit = [r for r in ctx.results if r.key == rp.get("key")]
      for r in hit:
        print(json.dumps(r.as_dict(), indent=1, default=str))
      if not hit:
        print("instance not present on the current tree")
  except core.Incomplete as e:
    if ctx is None:
      ctx = core.Ctx(prop, tier, None)
    ctx.incomplete("ENGINE", e.where or "-", "anchor", e.msg)
  except Exception as e:  # tracebacks never masquerade as violations
    tb = traceback.format_exc()
    sys.stderr.write(tb)
    if ctx is None:
      ctx = core.Ctx(prop, tier, None)
    ctx.incomplete("ENGINE", "-", "analysis-error", "%s: %s" % (type(e).__name__, e))
  try:
    return core.finish(ctx, t0, meta["level"], meta["trusted_base"], meta["assumptions"],
                       meta["explanation"], checker_cmd)
  except Exception:
    sys.stderr.write(traceback.format_exc())
    print("ANALYSIS-INCOMPLETE property=%s evidence writer failed" % prop)
    return 2


if __name__ == "__main__":
  code = main(sys.argv)
  sys.stdout.flush()
  sys.exit(code)
