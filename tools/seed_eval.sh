#!/bin/bash
# usage: seed_eval.sh <Cxx> [src_dir]   - confirms a seeded change (demo passes clean / fails changed / suite still 74) in a scratch
# worktree outside /repo and /verif, then runs every quick check against the changed tree. Removes the worktree afterwards.
ID=$1; SRC=${2:-/verif/seeded/$ID}; WT=/tmp/ev_$ID
set -u
git -C /repo worktree remove --force $WT >/dev/null 2>&1; rm -rf $WT
git -C /repo worktree add -q $WT HEAD || exit 3
cd $WT
PYTHONPATH=$WT:/verif/seeded:/tmp/seed_out:/tmp/seed3:/tmp/seed4:/tmp/seed5:/tmp/seed6:/tmp/seed7:/tmp/seed8:/tmp/seed9:/tmp/seed10:$SRC timeout 300 /venv/bin/python $SRC/demo.py >/tmp/ev_$ID.clean.log 2>&1; C=$?
git apply $SRC/patch.diff || { echo "PATCH DOES NOT APPLY"; git -C /repo worktree remove --force $WT; exit 3; }
PYTHONPATH=$WT:/verif/seeded:/tmp/seed_out:/tmp/seed3:/tmp/seed4:/tmp/seed5:/tmp/seed6:/tmp/seed7:/tmp/seed8:/tmp/seed9:/tmp/seed10:$SRC timeout 300 /venv/bin/python $SRC/demo.py >/tmp/ev_$ID.changed.log 2>&1; D=$?
echo "demo: clean exit=$C changed exit=$D"
if [ "${SKIP_TESTS:-0}" != "1" ]; then
  T=$(/venv/bin/python -m pytest -q -p no:cacheprovider --timeout=900 --continue-on-collection-errors 2>&1 | tail -1); echo "suite: $T"
fi
mkdir -p /tmp/ev_$ID.evd
for p in C01 C02 C03 C04 C05 C06 C07 C08 C09 C10 C11 C12 C13 C14 C16 C17 C18 C19 C20; do
  OUT=$(PCSTATIC_EVIDENCE_DIR=/tmp/ev_$ID.evd /venv/bin/python /verif/check.py $p --repo $WT 2>/dev/null); E=$?
  if [ $E -ne 0 ]; then echo "  $p exit=$E"; echo "$OUT" | grep -E "^  violated|^ANALYSIS" | cut -c1-330 | head -4; fi
done
cd /; git -C /repo worktree remove --force $WT; rm -rf /tmp/ev_$ID.evd
