#!/venv/bin/python
"""Regenerates pcstatic/alpha_pinned.json (shapes and local names of every unit of the pinned tree) from /repo's HEAD commit."""
import json, os, subprocess, sys, tempfile, shutil
HERE = os.path.dirname(os.path.dirname(os.path.abspath(__file__)))
sys.path.insert(0, HERE)
from pcstatic import alpha
tmp = tempfile.mkdtemp(prefix="alpha_")
try:
  subprocess.run("git -C /repo archive HEAD paranoid_crypto | tar -x -C %s" % tmp, shell=True, check=True)
  tab = alpha.generate(tmp)
finally:
  shutil.rmtree(tmp, ignore_errors=True)
head = subprocess.run(["git", "-C", "/repo", "rev-parse", "--short", "HEAD"], capture_output=True, text=True).stdout.strip()
tab = {"_commit": head, **tab}
json.dump(tab, open(alpha.PINNED, "w"), indent=0, sort_keys=True)
print("alpha_pinned.json: %d modules, %d units (HEAD %s)" % (len(tab) - 1, sum(len(v) for k, v in tab.items() if k != "_commit"), head))
