"""Dev helper: print a python file without long docstrings / licence header."""
import ast,sys
for path in sys.argv[1:]:
    src=open(path).read()
    tree=ast.parse(src)
    lines=src.split('\n')
    skip=set()
    for n in ast.walk(tree):
        if isinstance(n,(ast.FunctionDef,ast.ClassDef,ast.Module)):
            if n.body and isinstance(n.body[0],ast.Expr) and isinstance(n.body[0].value,ast.Constant) and isinstance(n.body[0].value.value,str):
                d=n.body[0]
                if d.end_lineno-d.lineno>2:
                    for i in range(d.lineno+1,d.end_lineno+1): skip.add(i)
    print("#####",path)
    for i,l in enumerate(lines,1):
        if i in skip or i<14: continue
        if not l.strip(): continue
        print(f"{i}: {l}")
