#!/venv/bin/python
"""Applies every behaviour-preserving patch in a directory (refactor_*.diff) to its own scratch copy of /repo's current tree and runs all quick checks on it.
Any exit != 0 is a false alarm (1) or a lost decision (2) of the checker.  usage: refac_eval.py <dir> [--jobs N] [--rename] [--props C03,C05]"""
import sys, os, subprocess, tempfile, shutil, glob, concurrent.futures as cf
HERE = os.path.dirname(os.path.dirname(os.path.abspath(__file__)))
sys.path.insert(0, os.path.join(HERE, "selftest"))
import run as st
sys.path.insert(0, os.path.join(HERE, "tools"))
RENAME = "--rename" in sys.argv
PROPS = "C01 C02 C03 C04 C05 C06 C07 C08 C09 C10 C11 C12 C13 C14 C16 C17 C18 C19 C20".split()
if "--props" in sys.argv:          # restrict to some properties (after a change to their rules only)
  PROPS = sys.argv[sys.argv.index("--props") + 1].split(",")


def one(patch):
  tmp = tempfile.mkdtemp(prefix="pcrf_")
  out = []
  try:
    st.make_copy(tmp)
    r = subprocess.run(["patch", "-p1", "-s", "-i", patch], cwd=tmp, capture_output=True, text=True)
    if r.returncode != 0:
      return patch, [("PATCH", 3, r.stdout[-300:] + r.stderr[-300:])]
    if RENAME:
      # additionally rename every local of every library function (tools/rename_fuzz.py): refactoring + renaming together
      import rename_fuzz as rf
      for root, _, fs in os.walk(os.path.join(tmp, "paranoid_crypto", "lib")):
        for f in fs:
          if f.endswith(".py") and not f.endswith("_test.py") and "/data" not in root:
            rel = os.path.relpath(os.path.join(root, f), tmp)
            rf.rename_file(os.path.join(tmp, rel), None, {q for (ff, q) in rf.SKIP_FUNCS if rel.endswith(ff)})
    env = dict(os.environ, PCSTATIC_EVIDENCE_DIR=os.path.join(tmp, "_ev"))
    for p in PROPS:
      r = subprocess.run(["/venv/bin/python", os.path.join(HERE, "check.py"), p, "--repo", tmp], capture_output=True, text=True, env=env)
      if r.returncode != 0:
        lines = [l.strip()[:330] for l in r.stdout.splitlines() if l.strip().startswith(("violated", "ANALYSIS"))]
        out.append((p, r.returncode, " || ".join(lines[:3])))
    return patch, out
  finally:
    shutil.rmtree(tmp, ignore_errors=True)


def main():
  d = os.path.abspath(sys.argv[1])
  jobs = int(sys.argv[sys.argv.index("--jobs") + 1]) if "--jobs" in sys.argv else 8
  patches = sorted(glob.glob(os.path.join(d, "refactor_*.diff")))
  bad = 0
  with cf.ProcessPoolExecutor(jobs) as ex:
    for patch, out in ex.map(one, patches):
      if out:
        bad += 1
        for p, code, txt in out:
          print("%s  %s exit=%d  %s" % (os.path.basename(patch), p, code, txt))
      else:
        print("%s  silent" % os.path.basename(patch))
  print("%d patches, %d with alarms" % (len(patches), bad))


if __name__ == "__main__":
  main()
